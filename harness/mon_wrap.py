#!/venv/bin/python
"""Interface-hypothesis monitors: runs the REAL isoquant.main() in this process with read-only instrumentation
(monkeypatches in the wrapper process only; forked pool workers inherit them; nothing in /repo is touched).  Every
instrumented function evaluates, on the arguments the real upstream code hands over, a hypothesis that some theorem
of the framework assumes about those arguments, and then calls the original function unchanged.

  MON_FILE   file that receives one JSON line per violated hypothesis ({"mon":…, "kind":…, …}) and one short line
             {"mon":…, "kind":"call"} per instrumented call (so that a run in which the monitor never fired is
             distinguishable from a run in which it was never reached)
  MON_SET    comma-separated monitors to install:
     c14events   ExonCorrector.correct_assigned_read: `WellFormedRegions` of the events (Lemmas/CorrectorLoop.lean;
                 same ranges as C11 `EventInRange.read`), `Spaced` read exons, read region = ends of the exons,
                 #read introns = #exons − 1, assigned isoform inside the chromosome
                 (hypotheses of C14 `strategy_none_identity`, `process_events_terminates`, `built_map_progress`)
     elong       LongReadAssigner.categorize_exon_elongation_subtype: `ElongWF` and `HasCommon`
                 (Model/C11SymAssignMirror.lean; hypotheses of C11 `mirror_dual_elongSides`, `…elongationEvents`,
                 `…checkReadEnds(_type)`); the negation of `HasCommon` is the real code's warning
                 " + Odd case for exon elongation"
     binsearch   interval_bin_search(_rev) as called from src/long_read_profiles.py: list non-empty, intervals well
                 formed, starts strictly increasing, ends strictly increasing (hypotheses of C19 `bin_search_spec`,
                 `bin_search_rev_spec`; discharged for the only caller by Props/C19Compose.lean)
     penalty     LongReadAssigner.assign_to_isoform: every isoform match of the returned assignment has
                 `penalty_score >= 0` (`NonNegFirst` / `MemoryModeOk` of Props/C15Reuse.lean; proved for the modelled
                 assigner in Props/C15Penalty.lean under a hypothesis on the comparator's index ranges).  Watched in
                 memory because the dump cannot show it: `write_int` refuses a negative scaled penalty
     listfns     every list function of src/common.py (C19, DESIGN §6 "for every list of sorted intervals"), patched in every
                 src module that imports it by name, + the read-feature argument of the three profile constructors and the
                 transcript-feature argument of FeatureProfiles.set_profiles: each interval-list argument must be well
                 formed, sorted and pairwise disjoint (touching allowed), and non-empty where the function reads l[0] /
                 l[-1] (hypotheses `SD`, `WFl`, `l ≠ []` of Props/C19Lists.lean / C19Gen*.lean).  One call site has a
                 weaker contract, proved sufficient in Props/C19Callers.lean: `get_exons` in
                 GraphBasedModelConstructor.construct_fl_isoforms needs well-formed introns only (its length guard
                 rejects every other list: `get_exons_length_guard`).  Records name the call site (file:line:function)
Used through harness/pipeline.py `run_isoquant(..., wrapper=mon_wrap.py, env={"MON_FILE":…, "MON_SET":…})`;
`read_monitor(path)` parses the file.
"""
import json
import os
import sys

REPO = os.environ.get("VERIF_REPO", "/repo")
MON_FILE = os.environ.get("MON_FILE")
MON_SET = [x for x in os.environ.get("MON_SET", "").split(",") if x]
MAX_DETAIL = 400      # lists in a violation record are cut to this many characters

_fd = {}


def emit(rec):
    if not MON_FILE:
        return
    pid = os.getpid()
    if pid not in _fd:
        _fd.clear()
        _fd[pid] = os.open(MON_FILE, os.O_WRONLY | os.O_APPEND | os.O_CREAT, 0o644)
    os.write(_fd[pid], (json.dumps(rec, sort_keys=True, default=str) + "\n").encode())


def _cut(x):
    s = repr(x)
    return s if len(s) <= MAX_DETAIL else s[:MAX_DETAIL] + "…"


# ------------------------------------------------------------------------------------------------
# G3: what the real assigner hands to ExonCorrector.correct_assigned_read

def c14_event_problems(read_exons, read_start, read_end, events, n_read_introns, iso_region, chr_len,
                       undefined_region, absent_position):
    """pure predicate (also used by the harness's self-test): -> list of (kind, detail dict).
    events: list of (name, read_region)"""
    res = []
    ex = list(read_exons)
    n = len(ex) - 1
    if not all(a <= b for a, b in ex) or not all(ex[i][1] + 1 < ex[i + 1][0] for i in range(n)):
        res.append(("exons_not_spaced", {"exons": _cut(ex)}))
    if ex and (read_start, read_end) != (ex[0][0], ex[-1][1]):
        res.append(("read_region_stale", {"exons": _cut(ex), "region": [read_start, read_end]}))
    if events is not None:
        if n_read_introns != n:
            res.append(("intron_count", {"exons": n + 1, "read_introns": n_read_introns}))
        for name, r in events:
            r = tuple(r)
            if r == tuple(undefined_region):
                continue
            if r[0] == absent_position:
                if r[1] < 0:
                    res.append(("event_malformed", {"event": name, "read_region": list(r), "read_introns": n_read_introns}))
                continue
            if not (0 <= r[0] <= r[1] < n_read_introns):
                res.append(("event_malformed", {"event": name, "read_region": list(r), "read_introns": n_read_introns}))
    if iso_region is not None and chr_len is not None:
        if iso_region[0] < 1 or iso_region[1] > chr_len:
            res.append(("isoform_outside_chromosome", {"region": list(iso_region), "chr_len": chr_len}))
    return res


def install_c14events():
    import src.exon_corrector as EC
    from src.isoform_assignment import SupplementaryMatchConstants as SMC, ReadAssignmentType
    orig = EC.ExonCorrector.correct_assigned_read

    def correct_assigned_read(self, alignment_info, read_assignment):
        emit({"mon": "c14events", "kind": "call"})
        try:
            ex = alignment_info.read_exons
            events = None
            nint = None
            iso_region = None
            chr_len = None
            # the guard of the real function: single-exon / noninformative / unmatched reads are returned unchanged
            guarded = len(ex) == 1 or read_assignment.assignment_type == ReadAssignmentType.noninformative or \
                not read_assignment.isoform_matches
            if not guarded:
                m = read_assignment.isoform_matches[0]
                events = [(e.event_type.name, e.read_region) for e in m.match_subclassifications]
                nint = len(alignment_info.combined_profile.read_intron_profile.read_features)
                if m.assigned_transcript is not None:
                    iso_region = self.gene_info.transcript_region(m.assigned_transcript)
                    if self.chr_record is not None:
                        chr_len = len(self.chr_record)
            for kind, det in c14_event_problems(ex, alignment_info.read_start, alignment_info.read_end, events, nint,
                                                iso_region, chr_len, SMC.undefined_region, SMC.absent_position):
                emit(dict(det, mon="c14events", kind=kind, read=read_assignment.read_id))
        except Exception as exc:      # a monitor never changes the run
            emit({"mon": "c14events", "kind": "monitor_error", "exc": repr(exc)})
        return orig(self, alignment_info, read_assignment)

    EC.ExonCorrector.correct_assigned_read = correct_assigned_read


# ------------------------------------------------------------------------------------------------
# G4: ElongWF / HasCommon of what the real assigner passes to categorize_exon_elongation_subtype

def elong_problems(n_split, iso_profile, iso_range, read_gene_profile, read_range):
    """pure predicate: `ElongWF` and `HasCommon` (Model/C11SymAssignMirror.lean) -> list of (kind, detail)"""
    res = []
    wf = len(iso_profile) == n_split and len(read_gene_profile) == n_split and \
        0 <= iso_range[0] and iso_range[1] <= n_split and 0 <= read_range[0] and read_range[1] <= n_split
    if not wf:
        res.append(("elong_not_wf", {"split_exons": n_split, "iso_profile_len": len(iso_profile),
                                     "read_profile_len": len(read_gene_profile), "iso_range": list(iso_range),
                                     "read_range": list(read_range)}))
        return res
    lo = max(iso_range[0], read_range[0])
    hi = min(iso_range[1] - 1, read_range[1] - 1)
    # a split exon that both contain, at or after `lo` (first loop) and at or before `hi` (second loop)
    first = any(iso_profile[i] == 1 and read_gene_profile[i] == 1 for i in range(lo, n_split))
    last = any(iso_profile[i] == 1 and read_gene_profile[i] == 1 for i in range(0, hi + 1))
    if not (first and last):
        res.append(("no_common_split_exon", {"iso_range": list(iso_range), "read_range": list(read_range),
                                             "iso_profile": _cut(list(iso_profile)),
                                             "read_profile": _cut(list(read_gene_profile))}))
    return res


def install_elong(sink=None):
    """sink=None: records go to MON_FILE (wrapper process); else sink(record) is called (in-process oracle).
    -> function that restores the original method"""
    import src.long_read_assigner as LA
    orig = LA.LongReadAssigner.categorize_exon_elongation_subtype
    out = sink or emit

    def categorize_exon_elongation_subtype(self, read_split_exon_profile, isoform_id):
        out({"mon": "elong", "kind": "call"})
        try:
            sp = self.gene_info.split_exon_profiles
            for kind, det in elong_problems(len(sp.features), sp.profiles[isoform_id], sp.profile_ranges[isoform_id],
                                            read_split_exon_profile.gene_profile, read_split_exon_profile.gene_profile_range):
                out(dict(det, mon="elong", kind=kind, isoform=isoform_id,
                         read_features=_cut(read_split_exon_profile.read_features)))
        except Exception as exc:
            out({"mon": "elong", "kind": "monitor_error", "exc": repr(exc)})
        return orig(self, read_split_exon_profile, isoform_id)

    LA.LongReadAssigner.categorize_exon_elongation_subtype = categorize_exon_elongation_subtype

    def restore():
        LA.LongReadAssigner.categorize_exon_elongation_subtype = orig
    return restore


# ------------------------------------------------------------------------------------------------
# C19-G1: argument lists of the two binary searches

def binsearch_problems(l):
    """pure predicate: hypotheses of `bin_search_spec` / `bin_search_rev_spec` -> list of kinds"""
    if not l:
        return ["binsearch_empty_list"]
    res = []
    if any(a > b for a, b in l):
        res.append("binsearch_interval_not_wf")
    if any(l[i][0] >= l[i + 1][0] for i in range(len(l) - 1)):
        res.append("binsearch_starts_not_strict")
    if any(l[i][1] >= l[i + 1][1] for i in range(len(l) - 1)):
        res.append("binsearch_ends_not_strict")
    return res


def install_binsearch():
    import src.long_read_profiles as LRP

    def wrap(name, f):
        def g(ordered_intervals, pos):
            emit({"mon": "binsearch", "kind": "call"})
            try:
                for kind in binsearch_problems(ordered_intervals):
                    emit({"mon": "binsearch", "kind": kind, "fn": name, "pos": pos, "list": _cut(ordered_intervals)})
            except Exception as exc:
                emit({"mon": "binsearch", "kind": "monitor_error", "exc": repr(exc)})
            return f(ordered_intervals, pos)
        return g

    # long_read_profiles imports the two functions by name: patch the names the caller resolves
    LRP.interval_bin_search = wrap("interval_bin_search", LRP.interval_bin_search)
    LRP.interval_bin_search_rev = wrap("interval_bin_search_rev", LRP.interval_bin_search_rev)


# ------------------------------------------------------------------------------------------------
# C19 audit-2 G4: the sorted-disjoint domain of DESIGN §6 on EVERY real call of a list function

LISTFN_ARGS = {"jaccard_similarity": [0, 1], "read_coverage_fraction": [0, 1], "merge_ranges": [0, 1],
               "sum_intervals_to_point": [0], "sum_intervals_from_point": [0], "intervals_total_length": [0],
               "junctions_from_blocks": [0], "extra_exon_percentage": [1], "get_exons": [1], "get_exon": [1],
               "get_following_exon_from_junctions": [1], "get_preceding_exon_from_junctions": [1],
               "interval_bin_search": [0], "interval_bin_search_rev": [0], "truncate_read_to_polya": [0]}
# functions that are total on [] (no l[0] / l[-1], no division by the total length)
LISTFN_EMPTY_OK = {"junctions_from_blocks", "intervals_total_length", "get_exons", "merge_ranges"}
# call sites with a weaker contract that is PROVED sufficient: (function, caller function) -> kinds that are not reported there
#   get_exons @ construct_fl_isoforms: `len(novel_exons) != len(intron_path) + 1: continue` rejects every path that is not
#   strictly gapped inside the transcript range, provided the introns are well formed (Props/C19Callers.get_exons_length_guard)
LISTFN_SITE_CONTRACT = {("get_exons", "construct_fl_isoforms"): {"listfns_not_sd"}}


def listfns_problems(l, need_nonempty=True):
    """pure predicate: §6 domain of the C19 list theorems -> list of kinds"""
    l = list(l)
    if not l:
        return ["listfns_empty"] if need_nonempty else []
    res = []
    try:
        if any(a > b for a, b in l):
            res.append("listfns_not_wf")
        if any(l[i][1] >= l[i + 1][0] for i in range(len(l) - 1)):
            res.append("listfns_not_sd")
    except Exception as exc:
        res.append("listfns_not_intervals")
    return res


def install_listfns(sink=None):
    import importlib
    import pkgutil
    import src
    import src.common as C
    import src.long_read_profiles as LP
    import src.gene_info as GI
    out = sink or emit

    def site(depth=2):
        fr = sys._getframe(depth)
        return "%s:%d:%s" % (os.path.basename(fr.f_code.co_filename), fr.f_lineno, fr.f_code.co_name), fr.f_code.co_name

    def wrap(name, f):
        def g(*a, **kw):
            try:
                where, fn = site()
                out({"mon": "listfns", "kind": "call"})
                skip = () if os.environ.get("MON_LISTFNS_STRICT") else LISTFN_SITE_CONTRACT.get((name, fn), ())
                for i in LISTFN_ARGS[name]:
                    for kind in listfns_problems(a[i], need_nonempty=name not in LISTFN_EMPTY_OK):
                        if kind not in skip:
                            out({"mon": "listfns", "kind": kind, "fn": name, "arg": i, "where": where, "list": _cut(list(a[i]))})
                        else:      # counted, so that the evidence shows how often the weaker site contract was needed
                            out({"mon": "listfns_site_contract", "kind": "call"})
            except Exception as exc:
                out({"mon": "listfns", "kind": "monitor_error", "exc": repr(exc)})
            return f(*a, **kw)
        g._listfns = True
        return g

    # src.common itself is not patched: its internal calls (get_exons -> junctions_from_blocks with the two infinite border
    # blocks, get_exon -> get_exons) are covered by the check of the outer call
    mods = []
    for m in pkgutil.iter_modules(src.__path__):
        if m.name == "common":
            continue
        try:
            mods.append(importlib.import_module("src." + m.name))
        except Exception:
            pass
    if "isoquant" in sys.modules:
        mods.append(sys.modules["isoquant"])
    orig = {n: getattr(C, n) for n in LISTFN_ARGS}
    wrapped = {n: wrap(n, f) for n, f in orig.items()}
    for mod in mods:
        for n in LISTFN_ARGS:
            if getattr(mod, n, None) is orig[n]:
                setattr(mod, n, wrapped[n])

    def wrap_method(cls, meth, nonempty):
        o = getattr(cls, meth)

        def g(self, feats, *a, **kw):
            try:
                out({"mon": "listfns", "kind": "call"})
                for kind in listfns_problems(feats, need_nonempty=nonempty):
                    out({"mon": "listfns", "kind": kind, "fn": cls.__name__ + "." + meth, "arg": 0, "where": site(2)[0],
                         "list": _cut(list(feats))})
            except Exception as exc:
                out({"mon": "listfns", "kind": "monitor_error", "exc": repr(exc)})
            return o(self, feats, *a, **kw)
        setattr(cls, meth, g)

    wrap_method(LP.OverlappingFeaturesProfileConstructor, "construct_profile_for_features", False)
    wrap_method(LP.NonOverlappingFeaturesProfileConstructor, "construct_profile", True)
    o_sp = GI.FeatureProfiles.set_profiles

    def set_profiles(self, transcript_id, transcript_features, transcript_region, comparator):
        try:
            out({"mon": "listfns", "kind": "call"})
            for kind in listfns_problems(transcript_features, need_nonempty=False):
                out({"mon": "listfns", "kind": kind, "fn": "FeatureProfiles.set_profiles", "arg": 1, "where": str(transcript_id),
                     "list": _cut(list(transcript_features))})
        except Exception as exc:
            out({"mon": "listfns", "kind": "monitor_error", "exc": repr(exc)})
        return o_sp(self, transcript_id, transcript_features, transcript_region, comparator)
    GI.FeatureProfiles.set_profiles = set_profiles


# ------------------------------------------------------------------------------------------------
# G7: the penalty the real assigner computes

def install_penalty(sink=None):
    import src.long_read_assigner as LA
    orig = LA.LongReadAssigner.assign_to_isoform
    out = sink or emit

    def assign_to_isoform(self, read_id, combined_read_profile):
        ra = orig(self, read_id, combined_read_profile)
        out({"mon": "penalty", "kind": "call"})
        try:
            for i, m in enumerate(ra.isoform_matches if ra is not None else []):
                if m.penalty_score < 0:
                    out({"mon": "penalty", "kind": "negative_penalty", "read": read_id, "match": i, "isoform": m.assigned_transcript,
                         "penalty": m.penalty_score,
                         "events": _cut([(e.event_type.name, e.isoform_region, e.read_region) for e in m.match_subclassifications])})
        except Exception as exc:
            out({"mon": "penalty", "kind": "monitor_error", "exc": repr(exc)})
        return ra

    LA.LongReadAssigner.assign_to_isoform = assign_to_isoform

    def restore():
        LA.LongReadAssigner.assign_to_isoform = orig
    return restore


def install_dualfinder():
    """NOT a monitor -- a controlled substitution used by the C11 metamorphic runs on real / noisy data to key the class
    `finder_window` (listed finding polya_finder_not_mirror_dual) on its precise mechanism: `PolyAFinder.find_polyt_head`
    is replaced by the exact mirror dual of the REAL `find_polya_tail` (the alignment is reverse-complemented: CIGAR
    reversed, sequence reverse-complemented, reference interval mirrored at a large constant; the real tail finder is
    called on it and the found position is mirrored back).  A difference between a run and its mirror image that
    disappears under this substitution is caused by the head finder not being the dual of the tail finder and by nothing
    else.  `find_polya_tail` itself is untouched."""
    import src.polya_finder as PF
    comp = {"A": "T", "C": "G", "G": "C", "T": "A", "N": "N", "a": "t", "c": "g", "g": "c", "t": "a", "n": "n"}
    big = 1 << 40
    real_tail = PF.PolyAFinder.find_polya_tail

    class _Mirrored:
        pass

    def find_polyt_head(self, alignment, from_pos, to_pos, check_entire_head=False):
        seq = alignment.seq
        if not seq:
            return -1
        m = _Mirrored()
        m.cigartuples = list(alignment.cigartuples)[::-1]
        m.seq = "".join(comp.get(c, "N") for c in reversed(seq))
        m.reference_start = big - alignment.reference_end
        m.reference_end = big - alignment.reference_start
        m.query_name = alignment.query_name
        p = real_tail(self, m, from_pos, to_pos, check_entire_head)
        return -1 if p == -1 else max(1, big + 1 - p)
    PF.PolyAFinder.find_polyt_head = find_polyt_head


INSTALLERS = {"penalty": install_penalty, "c14events": install_c14events, "elong": install_elong, "binsearch": install_binsearch,
              "listfns": install_listfns, "dualfinder": install_dualfinder}


def install(names):
    for n in names:
        INSTALLERS[n]()


def read_monitor(path):
    """-> (calls {mon: n}, violations [record])"""
    calls, viol = {}, []
    if not path or not os.path.exists(path):
        return calls, viol
    with open(path) as f:
        for line in f:
            line = line.strip()
            if not line:
                continue
            try:
                r = json.loads(line)
            except ValueError:
                viol.append({"mon": "?", "kind": "monitor_error", "exc": "unparsable line %r" % line[:200]})
                continue
            if r.get("kind") == "call":
                calls[r.get("mon")] = calls.get(r.get("mon"), 0) + 1
            else:
                viol.append(r)
    return calls, viol


if __name__ == "__main__":
    sys.path.insert(0, REPO)
    import isoquant
    install(MON_SET)
    sys.argv = [os.path.join(REPO, "isoquant.py")] + sys.argv[1:]
    isoquant.main(sys.argv[1:])
