#!/venv/bin/python
"""Re-run the registered quick checks against every filed seeded change (seeded/<id>/patch.diff) with the CURRENT machinery.

usage: reseed.py [--workers 6] [--only C07_a2,C02_b2] [--tier quick] [--write]

Each worker owns a scratch copy of /verif (its own lean/.lake and Gen files: the translator rewrites Gen/*.lean from the
patched tree, so two patched trees must never share one copy) and, per seed, a scratch worktree of /repo with the patch
applied; the check runs with VERIF_REPO=<worktree>.  /repo and /verif themselves are not touched, except that with
--write the `detected_by` field of seeded/<id>/meta.json and seeded/TABLE.md are rewritten from the results.
Checks run per seed: the property the seed breaks + every check that ever caught it (meta.json detected_by).
"""
import concurrent.futures
import json
import os
import shutil
import subprocess
import sys
import tempfile

VERIF = os.path.dirname(os.path.dirname(os.path.abspath(__file__)))
PY = "/venv/bin/python"


def sh(cmd, **kw):
    return subprocess.run(cmd, capture_output=True, text=True, **kw)


def run_seed(args):
    sid, copy, tier = args
    meta = json.load(open(os.path.join(VERIF, "seeded", sid, "meta.json")))
    prop = meta["breaks_property"]
    checks = [prop] + [c for c in (meta.get("detected_by") or {}) if c != prop]
    wt = tempfile.mkdtemp(prefix="reseed_wt_")
    os.rmdir(wt)
    res = {}
    try:
        for attempt in range(6):     # another process may hold git's worktree lock for a moment
            if sh(["git", "-C", "/repo", "worktree", "add", "--detach", wt, "HEAD"]).returncode == 0:
                break
            import time
            time.sleep(2 + attempt)
        else:
            return sid, {"error": "git worktree add failed"}
        a = sh(["git", "-C", wt, "apply", os.path.join(VERIF, "seeded", sid, "patch.diff")])
        if a.returncode != 0:
            # the tree has moved (fix: commits): try a three-way application before giving up
            a = sh(["git", "-C", wt, "apply", "--3way", os.path.join(VERIF, "seeded", sid, "patch.diff")])
            st = sh(["git", "-C", wt, "diff", "--name-only", "--diff-filter=U"]).stdout.strip()
            if a.returncode != 0 or st:
                return sid, {"error": "patch does not apply to HEAD (also not three-way): " + (a.stderr[-300:] or st)}
        for c in checks:
            try:
                r = sh([PY, os.path.join(copy, "harness", "vcheck.py"), "--property", c, "--tier", tier], cwd=copy,
                       timeout=3000, env=dict(os.environ, VERIF_REPO=wt))
                lines = [l for l in r.stdout.split("\n") if l.startswith("VIOLATION") or l.startswith("first failing")]
                res[c] = {"rc": r.returncode, "lines": [l[:400] for l in lines]}
            except subprocess.TimeoutExpired:
                res[c] = {"rc": 2, "lines": ["timeout"]}
    finally:
        sh(["git", "-C", "/repo", "worktree", "remove", "--force", wt])
        shutil.rmtree(wt, ignore_errors=True)
    return sid, res


def main():
    workers, only, tier, write = 6, None, "quick", False
    for i, a in enumerate(sys.argv):
        if a == "--workers":
            workers = int(sys.argv[i + 1])
        if a == "--only":
            only = sys.argv[i + 1].split(",")
        if a == "--tier":
            tier = sys.argv[i + 1]
        if a == "--write":
            write = True
    seeds = sorted(d for d in os.listdir(os.path.join(VERIF, "seeded")) if os.path.exists(os.path.join(VERIF, "seeded", d, "patch.diff")))
    if only:
        seeds = [s for s in seeds if s in only]
    root = tempfile.mkdtemp(prefix="reseed_")
    copies = []
    try:
        for w in range(workers):
            c = os.path.join(root, "w%d" % w, "verif")
            os.makedirs(os.path.dirname(c))
            sh(["rsync", "-a", "--exclude", "replays", "--exclude", ".git", "--exclude", "__pycache__", VERIF + "/", c + "/"])
            copies.append(c)
        results = {}
        # a worker = a thread that owns copy w and takes seeds w, w+workers, ...
        def worker(w):
            out = []
            for s in seeds[w::workers]:
                out.append(run_seed((s, copies[w], tier)))
                print("done", out[-1][0], {k: v.get("rc") for k, v in out[-1][1].items() if isinstance(v, dict)}, flush=True)
            return out
        with concurrent.futures.ThreadPoolExecutor(workers) as ex:
            for out in ex.map(worker, range(workers)):
                results.update(dict(out))
    finally:
        shutil.rmtree(root, ignore_errors=True)
    with open(os.path.join(VERIF, "seeded", "rerun_results.json"), "w") as f:
        json.dump(results, f, indent=1, sort_keys=True)
    missed = [s for s, r in results.items() if not any(isinstance(v, dict) and v.get("rc") == 1 for v in r.values())]
    print("seeds run: %d, reported as VIOLATION by >= 1 check: %d, not reported: %s" % (len(results), len(results) - len(missed), missed))
    if write:
        for s, r in results.items():
            if "error" in r:
                continue
            p = os.path.join(VERIF, "seeded", s, "meta.json")
            m = json.load(open(p))
            m["detected_by"] = r
            m.setdefault("what_i_ran", []).append("reseed.py (current machinery, %s tier, VERIF_REPO=<scratch worktree with the patch>): %s"
                                                  % (tier, {k: v["rc"] for k, v in r.items()}))
            with open(p, "w") as f:
                json.dump(m, f, indent=1)


if __name__ == "__main__":
    main()
