"""Wrapper process for C06: runs the real isoquant.py with the two per-chromosome task functions of
src/dataset_processor.py wrapped so that every task appends one JSON line to $ABLAB_ISOQUANT_TRACE:
  phase, chr, pid, parent pid, the process-wide state (the generated inventory) before and after the task,
  and the files the task opened for writing.
Nothing under /repo is edited: the wrappers are installed by monkeypatching in this process (forked workers
inherit them).  Active only when ABLAB_ISOQUANT_VERIF=1.

usage: python c06_wrapper.py <isoquant args...>      (env: VERIF_REPO, ABLAB_ISOQUANT_TRACE)
"""
import builtins
import functools
import json
import os
import runpy
import sys
import time

REPO = os.environ.get("VERIF_REPO", "/repo")
sys.path.insert(0, REPO)


def install():
    import src.dataset_processor as DP
    from src.isoform_assignment import ReadAssignment
    from src.gene_info import FeatureInfo
    from src.graph_based_model_construction import GraphBasedModelConstructor
    from src.multimap_resolver import MultimapResolver
    trace_path = os.environ["ABLAB_ISOQUANT_TRACE"]

    def snapshot():
        return {"assign": ReadAssignment.assignment_id_generator.value,
                "feat": FeatureInfo.feature_id_counter.value,
                "detected": sorted(GraphBasedModelConstructor.detected_known_isoforms),
                "dup": MultimapResolver.duplicate_counter}

    def emit(rec):
        line = json.dumps(rec, sort_keys=True) + "\n"
        fd = os.open(trace_path, os.O_WRONLY | os.O_APPEND | os.O_CREAT, 0o644)
        try:
            os.write(fd, line.encode())      # one write() per record: atomic for O_APPEND
        finally:
            os.close(fd)

    def wrap(fn, phase, chr_arg):
        @functools.wraps(fn)
        def inner(*a, **kw):
            chr_id = a[chr_arg]
            before = snapshot()
            written = []
            real_open = builtins.open

            def spy_open(file, mode="r", *oa, **okw):
                if isinstance(file, str) and any(m in mode for m in "wax+"):
                    written.append(file)
                return real_open(file, mode, *oa, **okw)
            builtins.open = spy_open
            t0 = time.time()
            try:
                return fn(*a, **kw)
            finally:
                builtins.open = real_open
                emit({"phase": phase, "chr": chr_id, "pid": os.getpid(), "ppid": os.getppid(), "t0": t0, "t1": time.time(),
                      "before": before, "after": snapshot(), "written": sorted(set(os.path.basename(w) for w in written))})
        return inner

    DP.collect_reads_in_parallel = wrap(DP.collect_reads_in_parallel, 1, 1)
    DP.construct_models_in_parallel = wrap(DP.construct_models_in_parallel, 2, 1)
    emit({"phase": 0, "pid": os.getpid(), "before": snapshot()})


if __name__ == "__main__":
    if os.environ.get("ABLAB_ISOQUANT_VERIF") == "1" and os.environ.get("ABLAB_ISOQUANT_TRACE"):
        install()
    script = os.path.join(REPO, "isoquant.py")
    sys.argv = [script] + sys.argv[1:]
    runpy.run_path(script, run_name="__main__")
