"""C11 — framework for the equivariance relations of the merged models (CIGAR walk, polyA trimming, BED, corrector,
GTF, intron collector / graph, resolver, feature counts, assigner, region splitting, ...).

The theorems live in lean/IsoVerif/Props/C11<Name>.lean; they are about the *existing* model definitions of the other
properties (Model/Cigar.lean, Model/PolyA.lean, ...), which those properties' drivers already expose as plain ops
(`C16.get_read_blocks`, `C14.correct_assigned_read`, ...).  A relation is therefore evaluated here as

    model(tin(x))  ==  tout(model(x))        the theorem instance, on the model's values   (`model_relation:<name>`)
    impl(tin(x))   ==  tout(impl(x))         the relation on the REAL function             (`impl_relation:<name>`)
    model(x) == impl(x), model(tin x) == impl(tin x)                                       (correspondence, `<name>`)

with the harness's own Python transformations `tin` / `tout` (the basic ones are compared with the Lean definitions
`shiftL`, `mirrorL`, ... through the `C11.T.*` driver ops on every run; transformations added by an extension module are
compared through the `C11.T.*` ops that module adds).

An extension module `props/c11x_<name>.py` defines

    PROPS, TARGETS            its Props files / lake targets (also listed literally in props/C11.py)
    RELS : list of Rel
    cases(ctx) -> [(relation name, par, kw)]        par = {"k": k} (translation) or {"L": L} (reflection)
    optional transformation_checks(ctx)             extra `C11.T.*` comparisons (model transformation vs harness)

`Rel.domain(par, kw)` is the hypothesis of the theorem: False = not evaluated, True = the relation must hold,
"witness" = the relation must FAIL on model and code (a `_witness` theorem).
"""
import importlib

import vlib

MODULES = ["c11x_cigar", "c11x_polya", "c11x_tables", "c11x_regions", "c11x_lists", "c11x_bedcorr", "c11x_graph",
           "c11x_resolver", "c11x_assign", "c11x_assignm", "c11x_strand", "c11x_mononovel"]


class Rel:
    def __init__(self, name, theorem, model, impl, tin, tout, domain=None, model_t=None, impl_t=None, eq=None,
                 nontrivial=None):
        self.name = name              # "S.<fn>" / "M.<fn>"
        self.theorem = theorem        # name of the Lean theorem the relation instantiates
        self.model = model            # kw -> driver request line (plain model value on the input)
        self.impl = impl              # kw -> canonical value of the real function
        self.model_t = model_t or model   # partner function on the transformed side (mirror duals)
        self.impl_t = impl_t or impl
        self.tin = tin                # (par, kw) -> transformed kw
        self.tout = tout              # (par, kw, value) -> expected value of the transformed call
        self.domain = domain or (lambda par, kw: True)
        self.eq = eq or vlib.same     # comparison of two canonical values
        self.nontrivial = nontrivial or (lambda kw, v: not vlib.is_err(v))


_LOADED = None


def load():
    """-> (modules, {name: Rel}); a module that is missing is skipped (its relations are then simply not evaluated:
    the theorems are still compiled and audited through PROPS)"""
    global _LOADED
    if _LOADED is None:
        mods, reg = [], {}
        for m in MODULES:
            try:
                mod = importlib.import_module("props." + m)
            except ModuleNotFoundError as ex:
                if ex.name == "props." + m:
                    continue
                raise
            mods.append(mod)
            for r in mod.RELS:
                assert r.name not in reg, r.name
                reg[r.name] = r
        _LOADED = (mods, reg)
    return _LOADED


def _tout(R, par, kw, v):
    return v if vlib.is_err(v) else vlib.canon(R.tout(par, kw, v))


def _guard(fn, kw):
    try:
        return vlib.canon(fn(kw))
    except (IndexError, AssertionError, ZeroDivisionError, KeyError, ValueError, TypeError, AttributeError) as ex:
        return {"error": "error", "exc": type(ex).__name__}


QUICK_CAP = 600        # cases per relation in the quick tier (witness inputs and regression inputs `keep` are always kept)
QUICK_ORACLE_CAP = 250


def all_cases(ctx, cap=None):
    """the modules' cases; in the quick tier at most `cap` per relation (seeded sample; the inputs of `_witness` theorems,
    i.e. domain == "witness", are always kept), so that the quick check stays inside its time budget"""
    mods, reg = load()
    cases = []
    for mod in mods:
        cases += mod.cases(ctx)
    if cap is None:
        cap = QUICK_CAP if ctx.tier == "quick" else None
    if cap is None:
        return cases
    by = {}
    for c in cases:
        by.setdefault(c[0], []).append(c)
    out = []
    for name, cs in by.items():
        if len(cs) > cap:
            R = reg[name]
            wit = [c for c in cs if R.domain(c[1], c[2]) == "witness" or (isinstance(c[2], dict) and c[2].get("keep"))]
            rest = [c for c in cs if not any(c is w for w in wit)]
            cs = wit + ctx.rng.sample(rest, min(cap, len(rest)))
            ctx.count("quick_cap:" + name)
        out += cs
    return out


def correspondence(ctx):
    mods, reg = load()
    for mod in mods:
        if hasattr(mod, "transformation_checks"):
            mod.transformation_checks(ctx)
    cases = all_cases(ctx)
    todo, lines = [], []
    for name, par, kw in cases:
        R = reg[name]
        dom = R.domain(par, kw)
        ctx.evaluations += 1
        ctx.count("xrel:" + name)
        if dom is False:
            ctx.count("outside_hypotheses")
            continue
        kt = R.tin(par, kw)
        todo.append((name, par, kw, kt, dom))
        lines.append(R.model_t(kt))
        lines.append(R.model(kw))
    outs = ctx.driver.run(lines)
    for i, (name, par, kw, kt, dom) in enumerate(todo):
        R = reg[name]
        ml, m0 = outs[2 * i], outs[2 * i + 1]
        inp = {"par": par, "kw": kw}
        if any(isinstance(x, dict) and "driver_error" in x for x in (ml, m0)):
            ctx.disagree(name, inp, {"lhs": ml, "rhs": m0}, None)
            continue
        il, i0 = _guard(R.impl_t, kt), _guard(R.impl, kw)
        ctx.traces_validated += 1
        mr, ir = _tout(R, par, kw, m0), _tout(R, par, kw, i0)
        ok_corr = R.eq(ml, il) and R.eq(m0, i0)
        ok_model, ok_impl = R.eq(ml, mr), R.eq(il, ir)
        if dom == "witness":
            ctx.count("witness_inputs")
            ok_model, ok_impl = not ok_model, not ok_impl
        if not ok_corr:
            ctx.disagree(name, inp, {"lhs": ml, "orig": m0}, {"lhs": il, "orig": i0})
        elif not ok_model:
            ctx.disagree("model_relation:" + name, inp, {"lhs": ml, "rhs": mr}, {"lhs": il, "rhs": ir})
        elif not ok_impl:
            ctx.disagree("impl_relation:" + name, inp, {"lhs": ml, "rhs": mr}, {"lhs": il, "rhs": ir})
        elif vlib.is_err(m0):
            ctx.count("model_error")
        elif dom is True and R.nontrivial(kw, m0):
            ctx.mark_nontrivial([name, par, kw])
        if ctx.rng.random() < 0.001 and len(ctx.samples) < 12:
            ctx.sample({"relation": name, "theorem": R.theorem, "input": vlib.canon(inp), "model": {"lhs": ml, "rhs": mr},
                        "impl": {"lhs": il, "rhs": ir}})


def oracle_relation(name, par, kw):
    """None if the relation holds on the real code (or the input is outside its hypotheses), else a detail string"""
    _, reg = load()
    R = reg.get(name)
    if R is None:
        return None
    dom = R.domain(par, kw)
    if dom is False or dom == "witness":
        return None
    il = _guard(R.impl_t, R.tin(par, kw))
    ir = _tout(R, par, kw, _guard(R.impl, kw))
    return None if R.eq(il, ir) else "transformed call gives %s, transformed result is %s" % (str(il)[:300], str(ir)[:300])


def oracle(ctx, fail, cases=None):
    """the relations on the real functions only (independent of the driver and of the Lean build)"""
    n = 0
    if cases is None:
        cases = all_cases(ctx, cap=QUICK_ORACLE_CAP if ctx.tier == "quick" else None)
    for name, par, kw in cases:
        try:
            r = oracle_relation(name, par, kw)
        except Exception as ex:      # a crash of the adapter on a transformed input is reported, not swallowed
            r = "%s: %s" % (type(ex).__name__, str(ex)[:200])
        n += 1
        if r:
            fail(ctx, "xrel:" + name, {"xrel": name, "par": par, "kw": kw}, r)
    ctx.extra["xrel_oracle_cases"] = n


def replay(inp):
    return oracle_relation(inp["xrel"], inp["par"], inp["kw"]) is not None
