"""C16 — alignment records become exon blocks exactly as SAM semantics dictate; polyA/polyT exon trimming
keeps a non-empty ordered exon list and moves the tail position onto the retained exon."""
import json
import os
import shutil
from types import SimpleNamespace

import vlib
from gen import cigars as G

ID = "C16"
PROPS = ["IsoVerif/Props/C16.lean", "IsoVerif/Props/C16PolyA.lean", "IsoVerif/Props/C16Record.lean",
         "IsoVerif/Props/C16Finder.lean", "IsoVerif/Props/C16MoveRef.lean", "IsoVerif/Props/C16FinderSpec.lean",
         "IsoVerif/Props/C16TailRecord.lean", "IsoVerif/Props/C16Concat.lean", "IsoVerif/Props/C16FinderChar.lean",
         "IsoVerif/Props/C16CutsN.lean", "IsoVerif/Props/C16TailExons.lean", "IsoVerif/Props/C16Pad.lean",
         "IsoVerif/Props/C16NoExon.lean", "IsoVerif/Props/C16FinderMirror.lean", "IsoVerif/Props/C16FinderFix.lean",
         # the CIGAR walkers regenerated from the source (Gen/Loops.lean): refinement Gen.f = Model.f + headline theorems over Gen.f
         "IsoVerif/Lemmas/GenBase.lean", "IsoVerif/Lemmas/GenCigar.lean", "IsoVerif/Props/C16Gen.lean"]
TARGETS = ["IsoVerif.Props.C16", "IsoVerif.Props.C16PolyA", "IsoVerif.Props.C16Record", "IsoVerif.Props.C16Finder",
           "IsoVerif.Props.C16MoveRef", "IsoVerif.Props.C16FinderSpec", "IsoVerif.Props.C16TailRecord",
           "IsoVerif.Props.C16Concat", "IsoVerif.Props.C16FinderChar", "IsoVerif.Props.C16CutsN",
           "IsoVerif.Props.C16TailExons", "IsoVerif.Props.C16Pad", "IsoVerif.Props.C16NoExon", "IsoVerif.Props.C16FinderMirror", "IsoVerif.Props.C16FinderFix", "IsoVerif.Lemmas.GenBase", "IsoVerif.Lemmas.GenCigar", "IsoVerif.Props.C16Gen"]
GEN_DEPS = ["Enums", "CigarClasses", "Prims", "LoopsRt", "LoopsCigar", "LoopsCigarOps"]
LEVEL = "proof"
RULE = ("exhaustive CIGARs (all 9 operation kinds: <=3 ops x lengths {1,2,3}, 4 ops x {1,2}; 5 ops over 7 kinds and 6 ops "
        "over {M,I,D,N,S} with random lengths; thorough: 5 ops x 9 kinds x {1,2}, 6 ops x 6 kinds x 8 length draws) + SAM-like and "
        "random long CIGARs (<=60 ops, a few of 1000) + malformed stream (codes > 8, zero / negative lengths, "
        "reference_start -1) against get_read_blocks, AlignmentInfo on a fake alignment object and on real "
        "pysam.AlignedSegment (get_blocks, reference_end); exhaustive sorted exon lists (<=3 exons over 1..8) x all "
        "polyA/polyT positions x max_fake in {0,2,40} + random exon lists for count/shift/correct_read_info/"
        "add_polya_info; move_ref_coord_alogn_alignment and its base-by-base specification on exhaustive short cores "
        "(1 op x 9 kinds x {1,2,3}, 2 ops x 9 kinds x {1,2}, every 3-op kind sequence over 9 kinds with random lengths) x "
        "49 clip variants (leading/trailing in {none, S, H, H S, S H, S S, H H}) x shifts -5..5; find_polya_tail / "
        "find_polyt_head with random from/to/check_entire on random reads with A/T-rich ends, indels at the alignment "
        "ends, P operations and H/S clip combinations; the whole record chain (modelled finder + trimming) against "
        "AlignmentInfo.add_polya_info with the real PolyAFinder; find_polya AND its brute-force specification on every "
        "A/C string of length <= 7 (thorough 9) x windows 0..4 x counts 0..w+1 and on threshold inputs (a window with "
        "exactly c-1 / c / c+1 A's placed first, in the middle, as the last accepted and as the excluded last window; "
        "sequences shorter than / as long as the window; lower case, mixed case, N); find_polya_tail / find_polyt_head "
        "AND their specifications on reads whose checked region is such a threshold input (split between aligned part "
        "and soft clip at every point, indels / N in the aligned part, trailing H); a case is non-trivial when the model returns a non-error value with at least one block "
        "(CIGAR ops) / a changed exon list or a non-zero count (polyA ops) and model == implementation; "
        "distinct by (op, input); c16x: fake-terminal-exon reads (body, gap, 0/1/3/8 non-tail + 17..60 tail bases, optional soft-clipped "
        "continuation; both ends) and SEQ '*' records through record_polya / find_polya_tail / find_polyt_head / detect_polya; the "
        "pipeline oracle runs the option set `novel_unspliced` + one of 7 further sets chosen by the seed (thorough: all 8) on the "
        "synthetic BAM + 12 unusual record shapes (intergenic and genic), contig-border reads, two SEQ-less spliced reads and two "
        "groups of ten fake-tail reads whose novel mono-exon model must lie inside the exons of their rows")
TRUSTED = ["Gen/CigarClasses.lean (match / ins-del-match operation sets, polyA window constants) is extracted from "
           "src/common.py, src/polya_finder.py, isoquant.py on every run",
           "pysam: cigartuples / reference_start / get_blocks / reference_end per the SAM specification",
           "Biopython reverse_complement maps exactly T/t to A/a (hypothesis `hrc` of polyt_polya_mirror_law; the model "
           "of find_polyt_head looks for T in the reversed region)"]
ASSUMPTIONS = ["CPython int semantics = Lean Int", "CIGAR operation lengths are >= 0 (BAM stores them unsigned) and "
               "reference_start >= 0 for read_blocks_spec (the truthiness corner reference_start = -1 is a witness)",
               "the three current_*_start locals of get_read_blocks are assigned together (one Option triple in the model)",
               "move_ref_coord_spec / find_polya_tail_spec / find_polyt_head_spec: CIGAR operation lengths >= 0 (NonNeg); "
               "record_tail_on_retained_exon: lengths >= 1 and reference_start >= 0 (SAM-valid record)",
               "find_polya_tail_eq_spec / find_polya_tail_char / raises_iff: CIGAR operation lengths >= 0; "
               "record_removed_exons_are_tail: SAM-valid record (lengths >= 1, reference_start >= 0); "
               "count_polya_exons_spec / trimmed_exons_are_tail_exons: sorted disjoint exon list (what get_read_blocks yields)",
               "str.upper() maps exactly a-z to A-Z on the read alphabet (Lean Char.toUpper; is_a_flag_iff / is_t_flag_iff)",
               "tail_on_retained_exon / tail_at_end_of_retained_exon: sorted disjoint exon list; the model is the REPAIRED "
               "add_polya_info (external position cut down to the internal one) and the REPAIRED find_polyt_head window "
               "(patches /tmp/b-c16x/fix_*.patch): VIOLATION on a tree without them",
               "mirror_region / mirror_law_win: from_pos, to_pos >= 0, CIGAR lengths >= 0, reverse complement maps exactly T/t to A/a (hrc)",
               "Props/C16FinderFix.lean (…_fix_char, …_fix_eq_spec, ranges, record_…_fix): CIGAR operation lengths >= 0 (records: "
               "lengths >= 1, reference_start >= 0); the model is /repo HEAD with both finder repairs (P inside the walked tail, head "
               "window); mirror_law_general / mirror_law_offset(_first) / mirror_law_whole: from_pos, to_pos >= 0, lengths >= 0, hrc, the "
               "tail starts d >= 1 bases inside the aligned part; the closed forms name the alignment columns around the tail start",
               "min_polya_fraction is compared as the exact rational num/den; the harness uses dyadic fractions "
               "(1/4, 1/2, 3/4, 1) for which the float comparison of the code is exact"]

MAX_FAKE = [0, 2, 40]


def _impl():
    vlib.repo_on_path()
    import src.common as C
    import src.alignment_info as AI
    import src.polya_finder as PF
    import src.polya_verification as PV
    return C, AI, PF, PV


def tl(l):
    return [tuple(x) for x in l]


_HDR = None


def header():
    global _HDR
    if _HDR is None:
        import pysam
        _HDR = pysam.AlignmentHeader.from_dict({"HD": {"VN": "1.6"}, "SQ": [{"SN": "chr1", "LN": 2 ** 29}]})
    return _HDR


def make_segment(s, cigar, seq=None):
    import pysam
    a = pysam.AlignedSegment(header())
    a.query_name = "r"
    a.flag = 0
    a.reference_id = 0
    a.reference_start = s
    a.mapping_quality = 60
    if seq is not None:
        a.query_sequence = seq
    a.cigartuples = tl(cigar)
    return a


def fixer(mf):
    C, AI, PF, PV = _impl()
    return PV.PolyAFixer(SimpleNamespace(max_fake_terminal_exon_len=mf))


def bare_alignment_info(exons, rb, cb):
    """an AlignmentInfo in the state __init__ leaves it in, for arbitrary exon lists"""
    C, AI, PF, PV = _impl()
    ai = AI.AlignmentInfo.__new__(AI.AlignmentInfo)
    ai.alignment = None
    ai.read_exons, ai.read_blocks, ai.cigar_blocks = tl(exons), tl(rb), tl(cb)
    ai.aligned_pairs = None
    if exons:       # __init__ returns early otherwise
        ai.read_start = ai.read_exons[0][0]
        ai.read_end = ai.read_exons[-1][1]
        ai.polya_info = None
        ai.exons_changed = False
        ai.cage_hits = []
        ai.combined_profile = None
    return ai


def ainfo_json(ai):
    pi = ai.polya_info
    return {"exons": vlib.canon(ai.read_exons), "read_blocks": vlib.canon(ai.read_blocks),
            "cigar_blocks": vlib.canon(ai.cigar_blocks),
            "info": [pi.external_polya_pos, pi.external_polyt_pos, pi.internal_polya_pos, pi.internal_polyt_pos],
            "changed": ai.exons_changed, "read_start": ai.read_start, "read_end": ai.read_end}


def fake_finder(info):
    C, AI, PF, PV = _impl()
    return SimpleNamespace(detect_polya=lambda a: PF.PolyAInfo(*info))


def impl_call(op, kw):
    C, AI, PF, PV = _impl()
    try:
        if op == "get_read_blocks":
            r, q, c = C.get_read_blocks(kw["s"], tl(kw["cigar"]))
            return {"ref": vlib.canon(r), "read": vlib.canon(q), "cigar": vlib.canon(c)}
        if op == "blocks_spec":       # the specification itself against the implementation
            r, q, c = C.get_read_blocks(kw["s"], tl(kw["cigar"]))
            return {"ref": vlib.canon(r), "read": vlib.canon(q), "cigar": vlib.canon(c)}
        if op == "alignment_info_fake":
            ai = AI.AlignmentInfo(SimpleNamespace(reference_start=kw["s"], cigartuples=tl(kw["cigar"])))
            return {"ref": vlib.canon(ai.read_exons), "read": vlib.canon(ai.read_blocks),
                    "cigar": vlib.canon(ai.cigar_blocks)}
        if op == "alignment_info_pysam":
            ai = AI.AlignmentInfo(make_segment(kw["s"], kw["cigar"]))
            return {"ref": vlib.canon(ai.read_exons), "read": vlib.canon(ai.read_blocks),
                    "cigar": vlib.canon(ai.cigar_blocks)}
        if op == "aligned_blocks":
            a = make_segment(kw["s"], kw["cigar"])
            return {"blocks": vlib.canon(a.get_blocks()), "reference_end": a.reference_end}
        if op == "correct_bam_coords":
            return vlib.canon(C.correct_bam_coords(tl(kw["l"])))
        if op == "concat_gapless_blocks":
            return vlib.canon(C.concat_gapless_blocks(tl(kw["blocks"]), tl(kw["cigar"])))
        if op == "concat_gapless_spec":      # the specification against the code on pysam's own blocks
            a = make_segment(kw["s"], kw["cigar"])
            return vlib.canon(C.concat_gapless_blocks(a.get_blocks(), a.cigartuples))
        if op == "count_polya_exons":
            return fixer(kw["mf"]).count_polya_exons(tl(kw["exons"]), kw["pos"])
        if op == "count_polyt_exons":
            return fixer(kw["mf"]).count_polyt_exons(tl(kw["exons"]), kw["pos"])
        if op == "correct_read_info":
            return list(fixer(kw["mf"]).correct_read_info(tl(kw["exons"]), PF.PolyAInfo(*kw["info"])))
        if op == "shift_polya":
            return PV.shift_polya(tl(kw["exons"]), kw["k"], kw["pos"])
        if op == "shift_polyt":
            return PV.shift_polyt(tl(kw["exons"]), kw["k"], kw["pos"])
        if op == "add_polya_info":
            ai = bare_alignment_info(kw["exons"], kw["rb"], kw["cb"])
            ai.add_polya_info(fake_finder(kw["info"]), fixer(kw["mf"]))
            return ainfo_json(ai)
        if op in ("find_polya", "find_polya_spec"):      # the code and, separately, its brute-force specification
            f = PF.PolyAFinder(kw["w"], 0.75)
            f.polyA_count = kw["c"]
            return f.find_polya(kw["seq"])
        if op in ("move_ref_coord", "move_ref_coord_spec"):   # the code and, separately, its specification
            return PF.move_ref_coord_alogn_alignment(SimpleNamespace(cigartuples=tl(kw["cigar"])), kw["shift"])
        if op in ("find_polya_tail", "find_polyt_head", "find_polya_tail_spec", "find_polyt_head_spec"):
            f = PF.PolyAFinder(kw["w"], kw["num"] / kw["den"])
            a = make_segment(kw["s"], kw["cigar"], kw["seq"])
            fn = f.find_polya_tail if op.startswith("find_polya_tail") else f.find_polyt_head
            return fn(a, kw["from"], kw["to"], kw["chk"])
        if op == "record_polya":
            a = make_segment(kw["s"], kw["cigar"], kw["seq"])
            ai = AI.AlignmentInfo(a)
            if not ai.read_exons:
                return {"no_exons": True}
            finder = PF.PolyAFinder()
            pi = finder.detect_polya(a)
            found = [pi.external_polya_pos, pi.external_polyt_pos, pi.internal_polya_pos, pi.internal_polyt_pos]
            try:
                ai.add_polya_info(finder, fixer(kw["mf"]))
                after = ainfo_json(ai)
            except (IndexError, AssertionError, AttributeError) as ex:
                after = {"error": "error"}
            return {"found": found, "after": after}
        if op == "detect_polya":
            f = PF.PolyAFinder(kw["w"], kw["num"] / kw["den"])
            pi = f.detect_polya(make_segment(kw["s"], kw["cigar"], kw["seq"]))
            return [pi.external_polya_pos, pi.external_polyt_pos, pi.internal_polya_pos, pi.internal_polyt_pos]
        if op == "detect_polya_default":
            pi = PF.PolyAFinder().detect_polya(make_segment(kw["s"], kw["cigar"], kw["seq"]))
            return [pi.external_polya_pos, pi.external_polyt_pos, pi.internal_polya_pos, pi.internal_polyt_pos]
        if op == "alignment_polya":
            seq = kw.get("seq")
            a = make_segment(kw["s"], kw["cigar"], seq) if kw.get("pysam") else \
                SimpleNamespace(reference_start=kw["s"], cigartuples=tl(kw["cigar"]))
            ai = AI.AlignmentInfo(a)
            if not ai.read_exons:
                return {"no_exons": True}
            ai.add_polya_info(fake_finder(kw["info"]), fixer(kw["mf"]))
            return ainfo_json(ai)
    except (IndexError, AssertionError, ZeroDivisionError, KeyError, ValueError, TypeError, AttributeError) as ex:
        return {"error": "error", "exc": type(ex).__name__}
    raise RuntimeError("unknown op " + op)


# driver op actually used for a harness op (several harness ops share one model op)
MODEL_OP = {"alignment_info_fake": "get_read_blocks", "alignment_info_pysam": "get_read_blocks"}
MODEL_KEYS = {"alignment_polya": ("s", "cigar", "mf", "info")}


# ------------------------------------------------------------------------------------------------
# case generation

def cigar_cases(ctx, for_oracle=False):
    """generator of (s, cigar) — the SAM-valid stream (codes 0..8, lengths >= 1, s >= 0)"""
    rng = ctx.rng
    quick = ctx.tier == "quick"
    uni = {}

    def stream(name, it, s_of=lambda: 10, keep=1.0):
        n = 0
        for c in it:
            if keep < 1.0 and rng.random() >= keep:
                continue
            n += 1
            yield (s_of(), c)
        uni[name] = n

    for n in (1, 2, 3):
        yield from stream("%d ops x 9 kinds x {1,2,3}" % n, G.exhaustive(G.ALL_KINDS, n, (1, 2, 3)),
                          lambda: rng.choice([0, 10, 10 ** 6]))
    yield from stream("4 ops x 9 kinds x {1,2}", G.exhaustive(G.ALL_KINDS, 4, (1, 2)),
                      keep=0.3 if (quick and for_oracle) else 1.0)
    if quick:
        yield from stream("5 ops x 7 kinds (random lengths)",
                          G.exhaustive_kinds_random_lens(rng, [G.M, G.I, G.D, G.N, G.S, G.H, G.EQ], 5, (1, 2, 3)),
                          keep=0.5 if for_oracle else 1.0)
        yield from stream("6 ops x 5 kinds (random lengths)",
                          G.exhaustive_kinds_random_lens(rng, [G.M, G.I, G.D, G.N, G.S], 6, (1, 2, 3)),
                          keep=0.5 if for_oracle else 1.0)
    else:
        yield from stream("5 ops x 9 kinds x {1,2}", G.exhaustive(G.ALL_KINDS, 5, (1, 2)),
                          keep=0.25 if for_oracle else 1.0)
        if not for_oracle:
            for rep in range(8):
                yield from stream("6 ops x 6 kinds (random lengths, draw %d)" % rep,
                                  G.exhaustive_kinds_random_lens(rng, [G.M, G.I, G.D, G.N, G.S, G.H], 6, (1, 2, 3)))
        else:
            yield from stream("6 ops x 7 kinds (random lengths)",
                              G.exhaustive_kinds_random_lens(rng, [G.M, G.I, G.D, G.N, G.S, G.H, G.EQ], 6, (1, 2, 3)))
    nr = 3000 if quick else 30000
    for _ in range(nr):
        s = rng.choice([0, 1, rng.randint(0, 10 ** 9)])
        yield (s, G.sam_like_cigar(rng, big=rng.random() < 0.3))
        yield (s, G.rand_cigar(rng, rng.randint(1, 60), maxlen=rng.choice([3, 50, 10 ** 4])))
    for _ in range(5 if quick else 40):
        yield (rng.randint(0, 10 ** 6), G.rand_cigar(rng, 1000, maxlen=100))
    if not for_oracle:
        ctx.extra["cigar_universes"] = uni


def malformed_cigar_cases(ctx):
    rng = ctx.rng
    out = []
    for _ in range(400 if ctx.tier == "quick" else 4000):
        c = G.rand_cigar(rng, rng.randint(1, 8), maxlen=5)
        r = rng.random()
        s = 10
        if r < 0.25:
            c[rng.randrange(len(c))][0] = rng.choice([9, 10, 15, -1])
        elif r < 0.5:
            c[rng.randrange(len(c))][1] = 0
        elif r < 0.7:
            c[rng.randrange(len(c))][1] = -rng.randint(1, 12)
            s = rng.choice([0, 3, 10])
        else:
            s = rng.choice([-1, -1, -2, -5])
        out.append((s, c))
    out.append((0, []))
    out.append((-1, [[G.M, 5], [G.N, 3], [G.M, 2]]))
    return out


def polya_unit_cases(ctx):
    """(exons, info=[ea, et, ia, it], mf)"""
    rng = ctx.rng
    quick = ctx.tier == "quick"
    U = 8
    lists = [l for l in G.all_sd_lists(U, 3) if l]
    ctx.extra["polya_exon_universe"] = {"max_coord": U, "max_exons": 3, "lists": len(lists),
                                        "positions": "internal polyA/polyT in {-1,0..%d} (all pairs), external sampled" % (U + 1)}
    pos = [-1] + list(range(0, U + 2))
    frac = 0.12 if quick else 1.0
    for l in lists:
        for ia in pos:
            for it in pos:
                if rng.random() < frac:
                    yield (l, [rng.choice(pos), rng.choice(pos), ia, it], rng.choice([0, 2, 40]))
    for _ in range(4000 if quick else 40000):
        ex = G.rand_sd_exons(rng, rng.randint(1, 8))
        info = [G.rand_pos_near(rng, ex) for _ in range(4)]
        yield (ex, info, rng.choice([0, 6, 20, 40]))


def read_cases(ctx):
    """(s, seq, cigar) for real pysam segments through the real PolyAFinder"""
    rng = ctx.rng
    n = 1500 if ctx.tier == "quick" else 15000
    yield (1000,) + G.WITNESS_READ
    for i in range(n):
        yield (rng.randint(0, 10 ** 6),) + G.block_read(rng)
        yield (rng.randint(0, 10 ** 6),) + G.tailed_read(rng)
        if i % 5 == 0:
            yield (rng.randint(0, 10 ** 6),) + G.overlap_read(rng)


def gen_cases(ctx):
    """generator of (op, kwargs)"""
    rng = ctx.rng
    step = 23 if ctx.tier == "quick" else 47
    for i, (s, c) in enumerate(cigar_cases(ctx)):
        yield ("get_read_blocks", {"s": s, "cigar": c})
        if i % 7 == 0:
            yield ("blocks_spec", {"s": s, "cigar": c})
        if i % 11 == 0:
            yield ("alignment_info_fake", {"s": s, "cigar": c})
        # real pysam objects (needs a non-empty CIGAR; query length is unconstrained without a sequence)
        if i % step == 0 and s < 2 ** 29 - 10 ** 7 and len(c) < 500:
            yield ("aligned_blocks", {"s": s, "cigar": c})
            yield ("alignment_info_pysam", {"s": s, "cigar": c})
            if c:
                yield ("concat_gapless_spec", {"s": s, "cigar": c})
        # concat_gapless_blocks on pysam-style blocks of the same CIGAR (+ truncated block lists)
        if i % 17 == 0:
            blocks = sam_aligned_blocks(s, c)
            if rng.random() < 0.1 and blocks:
                blocks = blocks[:-1]
            yield ("concat_gapless_blocks", {"blocks": blocks, "cigar": c})
            if i % 170 == 0:
                yield ("correct_bam_coords", {"l": blocks})
    for s, c in malformed_cigar_cases(ctx):
        yield ("get_read_blocks", {"s": s, "cigar": c})
    # polyA unit level
    for ex, info, mf in polya_unit_cases(ctx):
        r = rng.random()
        yield ("add_polya_info", {"mf": mf, "exons": ex, "rb": [[i, i] for i in range(len(ex))],
                                  "cb": [[2 * i, 2 * i] for i in range(len(ex))], "info": info})
        if r < 0.3:
            yield ("correct_read_info", {"mf": mf, "exons": ex, "info": info})
        if r < 0.15:
            yield ("count_polya_exons", {"mf": mf, "exons": ex, "pos": info[2]})
            yield ("count_polyt_exons", {"mf": mf, "exons": ex, "pos": info[3]})
        if r < 0.25:
            k = rng.randint(-2, len(ex) + 2)
            yield ("shift_polya", {"exons": ex, "k": k, "pos": info[rng.choice([0, 2])]})
            yield ("shift_polyt", {"exons": ex, "k": k, "pos": info[rng.choice([1, 3])]})
    # malformed exon lists (unsorted / nested / empty)
    for _ in range(300):
        ex = [[rng.randint(1, 30), rng.randint(1, 30)] for _ in range(rng.randint(0, 4))]
        info = [rng.randint(-1, 32) for _ in range(4)]
        yield ("add_polya_info", {"mf": rng.choice(MAX_FAKE), "exons": ex, "rb": ex, "cb": ex, "info": info})
        yield ("correct_read_info", {"mf": rng.choice(MAX_FAKE), "exons": ex, "info": info})


def finder_cases(ctx):
    """alignment_polya on real pysam segments: the real PolyAFinder's output is the `info` of both sides"""
    C, AI, PF, PV = _impl()
    finder = PF.PolyAFinder(16, 0.75)
    for s, seq, cig in read_cases(ctx):
        if G.query_len(cig) != len(seq):
            continue
        a = make_segment(s, cig, seq)
        pi = finder.detect_polya(a)
        info = [pi.external_polya_pos, pi.external_polyt_pos, pi.internal_polya_pos, pi.internal_polyt_pos]
        ctx.count("finder:found" if any(x != -1 for x in info) else "finder:none")
        yield ("alignment_polya", {"s": s, "cigar": cig, "mf": ctx.rng.choice([20, 40]), "info": info,
                                   "pysam": True, "seq": seq})


def finder_unit_cases(ctx):
    """find_polya on exhaustive short A/C strings + random A-rich sequences; move_ref_coord on random CIGARs;
    detect_polya on synthetic reads"""
    import itertools
    rng = ctx.rng
    quick = ctx.tier == "quick"
    n = 0
    for L in range(0, 9 if quick else 12):
        for bits in itertools.product("AC", repeat=L):
            seq = "".join(bits)
            for w, c in ((2, 1), (2, 2), (3, 2), (4, 3)):
                n += 1
                yield ("find_polya", {"w": w, "c": c, "seq": seq})
    ctx.extra["find_polya_universe"] = {"alphabet": "AC", "max_len": 8 if quick else 11,
                                        "window,count": [[2, 1], [2, 2], [3, 2], [4, 3]], "cases": n}
    for _ in range(1500 if quick else 15000):
        L = rng.choice([rng.randint(0, 40), rng.randint(10, 120)])
        seq = "".join(rng.choice("AAAC" if rng.random() < 0.5 else "ACGT") for _ in range(L))
        if rng.random() < 0.5 and L > 20:
            k = rng.randint(5, L)
            seq = seq[:L - k] + G.rich(rng, "A", k, rng.choice([1.0, 0.9, 0.75, 0.6]))
        w = rng.choice([1, 4, 16, 16, 16])
        yield ("find_polya", {"w": w, "c": rng.choice([w * 3 // 4, rng.randint(0, w)]), "seq": seq})
    for _ in range(2500 if quick else 25000):
        c = G.sam_like_cigar(rng) if rng.random() < 0.6 else G.rand_cigar(rng, rng.randint(1, 12), maxlen=20)
        yield ("move_ref_coord", {"cigar": c, "shift": rng.choice([0, 1, -1, 2, -2, rng.randint(-80, 80)])})
    yield ("move_ref_coord", {"cigar": [], "shift": 3})
    for i, (s, seq, cig) in enumerate(read_cases(ctx)):
        if G.query_len(cig) != len(seq):
            continue
        if rng.random() < 0.1:
            seq = seq.lower() if rng.random() < 0.5 else seq.replace("C", "N")
        if i % 5 == 0:
            w = rng.choice([4, 8, 16])
            yield ("detect_polya", {"s": s, "cigar": cig, "seq": seq, "w": w, "num": rng.choice([1, 3]), "den": rng.choice([2, 4])})
        else:
            yield ("detect_polya_default", {"s": s, "cigar": cig, "seq": seq})


def move_ref_cases(ctx):
    """exhaustive short cores x clip variants x shifts for move_ref_coord_alogn_alignment and its specification"""
    rng = ctx.rng
    quick = ctx.tier == "quick"
    cores = []
    cores += list(G.exhaustive(G.ALL_KINDS, 1, (1, 2, 3)))
    cores += list(G.exhaustive(G.ALL_KINDS, 2, (1, 2)))
    cores += list(G.exhaustive_kinds_random_lens(rng, G.ALL_KINDS, 3, (1, 2, 3)))
    if not quick:
        cores += list(G.exhaustive_kinds_random_lens(rng, [G.M, G.I, G.D, G.N, G.S, G.H, G.P], 4, (1, 2, 3)))
    shifts = list(range(-5, 6))
    n = 0
    for core in cores:
        variants = list(G.clip_variants(core))
        if quick and len(core) >= 3:
            variants = rng.sample(variants, 8)
        for c in variants:
            for sh in (rng.sample(shifts, 2) if quick else shifts):
                n += 1
                yield ("move_ref_coord", {"cigar": c, "shift": sh})
                if n % 3 == 0 or not quick:
                    yield ("move_ref_coord_spec", {"cigar": c, "shift": sh})
    ctx.extra["move_ref_universe"] = {"cores": len(cores), "clip_variants": len(G.LEAD_CLIPS) ** 2,
                                      "shifts": "2 of -5..5 per CIGAR; 3-op cores: 8 of the 49 clip variants" if quick
                                      else "-5..5", "cases": n}
    # the shapes of the seeded slip (trailing S H / leading H S) on long-read sized operations, long shifts
    for _ in range(600 if quick else 6000):
        c = G.sam_like_cigar(rng)
        if rng.random() < 0.5:
            while c and c[-1][0] in (G.S, G.H):
                c.pop()
            c += [[G.S, rng.randint(1, 40)], [G.H, rng.randint(1, 40)]]
        if rng.random() < 0.3:
            while c and c[0][0] in (G.S, G.H):
                c.pop(0)
            c = [[G.H, rng.randint(1, 40)], [G.S, rng.randint(1, 40)]] + c
        sh = rng.choice([-1, -2, 1, 2, rng.randint(-150, 150)])
        yield ("move_ref_coord", {"cigar": c, "shift": sh})
        yield ("move_ref_coord_spec", {"cigar": c, "shift": sh})


FRACTIONS = [(3, 4), (3, 4), (1, 2), (1, 4), (1, 1)]      # dyadic: the float comparison of the code is exact


def tail_finder_cases(ctx):
    """find_polya_tail / find_polyt_head with arbitrary arguments on random reads; the record chain"""
    rng = ctx.rng
    quick = ctx.tier == "quick"
    # the corner of polya_beyond_reference_end_witness, on the real code
    yield ("find_polya_tail", {"w": 2, "num": 1, "den": 2, "s": 100, "cigar": [[G.M, 4], [G.I, 3]], "seq": "CCCCCAA",
                               "from": 8, "to": 2, "chk": True})
    for i in range(2500 if quick else 25000):
        seq, cig = G.finder_read(rng)
        if not seq:
            continue
        if rng.random() < 0.05:
            seq = seq.lower() if rng.random() < 0.5 else seq.replace("G", "N")
        s = rng.choice([0, 1, 5, rng.randint(0, 10 ** 6)])
        r = rng.random()
        if r < 0.5:
            w = 16
            num, den = 3, 4
            frm, to, chk = rng.choice([(2, 32, False), (64, 2, True)])
        else:
            w = rng.choice([1, 2, 3, 4, 8, 16])
            num, den = rng.choice(FRACTIONS)
            frm, to, chk = rng.randint(0, 70), rng.randint(0, 40), rng.random() < 0.5
        kw = {"w": w, "num": num, "den": den, "s": s, "cigar": cig, "seq": seq, "from": frm, "to": to, "chk": chk}
        yield ("find_polya_tail", kw)
        yield ("find_polyt_head", dict(kw))
        if i % 3 == 0:
            yield ("record_polya", {"s": s, "cigar": cig, "seq": seq, "mf": rng.choice([20, 40])})
        if i % 20 == 0 and cig:
            # SEQ '*' (legal SAM: minimap2 writes it for secondary alignments): `if not seq: return -1` (audit2-D G-C16-2)
            ctx.count("seqless_record")
            yield ("find_polya_tail", dict(kw, seq=""))
            yield ("find_polyt_head", dict(kw, seq=""))
            yield ("record_polya", {"s": s, "cigar": cig, "seq": "", "mf": 40})
            yield ("detect_polya_default", {"s": s, "cigar": cig, "seq": ""})
    for i, (s, seq, cig) in enumerate(read_cases(ctx)):
        if G.query_len(cig) != len(seq) or i % 4:
            continue
        yield ("record_polya", {"s": s, "cigar": cig, "seq": seq, "mf": rng.choice([20, 40])})
    for i in range(400 if quick else 4000):
        seq, cig = G.fake_tail_read(rng, i % 2 == 0)
        ctx.count("fake_tail_record")
        yield ("record_polya", {"s": rng.choice([0, 5, rng.randint(0, 10 ** 6)]), "cigar": cig, "seq": seq, "mf": rng.choice([20, 40])})


def boundary_cases(ctx):
    """the window scan and the two tail finders (code model AND specification) on inputs built around the count
    threshold: windows with exactly c-1 / c / c+1 A's at the start, in the middle, as the last accepted and as the
    excluded last window; sequences shorter than / as long as the window; window 0; lower case; N"""
    import itertools
    rng = ctx.rng
    quick = ctx.tier == "quick"
    # exhaustive: every A/C string up to length 7 (9) x every window 0..4 x every count 0..w+1, model and spec
    n = 0
    for L in range(0, 8 if quick else 10):
        for bits in itertools.product("AC", repeat=L):
            seq = "".join(bits)
            for w in range(0, 5):
                for c in range(0, w + 2):
                    if quick and rng.random() < 0.5:
                        continue
                    n += 1
                    yield ("find_polya_spec", {"w": w, "c": c, "seq": seq})
                    if w == 0 or c in (0, w + 1):
                        yield ("find_polya", {"w": w, "c": c, "seq": seq})
    ctx.extra["find_polya_spec_universe"] = {"alphabet": "AC", "max_len": 7 if quick else 9, "windows": "0..4",
                                             "counts": "0..w+1", "cases": n}
    for _ in range(6000 if quick else 60000):
        w = rng.choice([1, 2, 3, 4, 8, 16, 16, 16])
        c = rng.choice([w * 3 // 4, w * 3 // 4, w // 2, w, rng.randint(0, w)])
        flags, tag = G.threshold_flags(rng, w, c)
        seq = G.flags_to_seq(rng, flags, "A", rng.choice(["upper", "upper", "upper", "lower", "mixed", "n"]))
        ctx.count("boundary:find_polya:" + tag.split(":")[0])
        yield ("find_polya", {"w": w, "c": c, "seq": seq})
        yield ("find_polya_spec", {"w": w, "c": c, "seq": seq})
    for i in range(4000 if quick else 40000):
        r = rng.random()
        if r < 0.4:
            w, num, den = 16, 3, 4
        else:
            w = rng.choice([1, 2, 3, 4, 8])
            num, den = rng.choice(FRACTIONS)
        head = i % 2 == 1
        seq, cig, frm, to, chk, tag = (G.boundary_head_read if head else G.boundary_tail_read)(rng, w, num, den)
        if G.query_len(cig) != len(seq) or not seq:
            continue
        kw = {"w": w, "num": num, "den": den, "s": rng.choice([0, 1, 7, rng.randint(0, 10 ** 6)]), "cigar": cig,
              "seq": seq, "from": frm, "to": to, "chk": chk}
        op = "find_polyt_head" if head else "find_polya_tail"
        ctx.count("boundary:%s:%s" % (op, tag.split(":")[0]))
        yield (op, kw)
        yield (op + "_spec", dict(kw))
    # the specifications of the tail finders on the ordinary finder reads as well
    for i in range(1500 if quick else 15000):
        seq, cig = G.finder_read(rng)
        if not seq:
            continue
        w = rng.choice([1, 2, 4, 16, 16])
        num, den = (3, 4) if w == 16 else rng.choice(FRACTIONS)
        frm, to, chk = rng.choice([(2, 2 * w, False), (4 * w, 2, True), (rng.randint(0, 70), rng.randint(0, 40), rng.random() < 0.5)])
        kw = {"w": w, "num": num, "den": den, "s": rng.choice([0, 5, rng.randint(0, 10 ** 6)]), "cigar": cig, "seq": seq,
              "from": frm, "to": to, "chk": chk}
        yield ("find_polya_tail_spec", kw)
        yield ("find_polyt_head_spec", dict(kw))


def mirror_law_check(ctx):
    """polyt_polya_mirror_law on the real code: clean tails (>= 20 soft-clipped A's after >= 4 non-A bases) —
    find_polyt_head of the mirror image = max(1, L - 1 - find_polya_tail)"""
    C, AI, PF, PV = _impl()
    rng = ctx.rng
    f = PF.PolyAFinder()
    L = 10 ** 6
    for _ in range(150 if ctx.tier == "quick" else 1500):
        seq, cig = G.clean_tail_read(rng)
        s = rng.randint(100, 5000)
        a = make_segment(s, cig, seq)
        m = make_segment(L - a.reference_end, cig[::-1], G.revcomp(seq))
        pa, pt = f.find_polya_external(a), f.find_polyt_external(m)
        ctx.evaluations += 1
        ctx.count("op:mirror_law")
        if pa == -1 or pt != max(1, L - 1 - pa):
            ctx.disagree("mirror_law", {"s": s, "cigar": cig, "seq": seq, "L": L}, max(1, L - 1 - pa), pt)
        else:
            ctx.traces_validated += 1


# ---- the general position law read <-> mirror image on the REAL finder (Props/C16FinderFix.lean mirror_law_general) ----
MIRROR_WITNESS = [   # (cigar, seq, offset from the mirror image L + 1 - polyA) — theorem mirror_offset_witness
    ([[0, 9], [4, 4]], "CCCCCCAAAAAAA", -2),
    ([[0, 6], [2, 2], [0, 3], [4, 4]], "CCCCCCAAAAAAA", -4),
    ([[0, 6], [1, 2], [0, 3], [4, 4]], "CCCCCCCCAAAAAAA", -1),
]


def _tail_start(flags, w, num, den, chk):
    """the relation TailStart of Lemmas/FinderChar.lean, by brute force (independent of the model and of the code):
    least window [i, i+w) ending strictly before the end with >= w*num//den A's, advanced to the least 'AA' at or after
    i; with chk the rest from there holds the fraction num/den of A's"""
    c = w * num // den
    n = len(flags)
    for i in range(n):
        if i + w < n and sum(flags[i:i + w]) >= c:
            p = i
            for k in range(i, n - 1):
                if flags[k] and flags[k + 1]:
                    p = k
                    break
            if chk and (n - p) * num > sum(flags[p:]) * den:
                return None
            return p
    return None


def _cols_back(cig):
    """alignment columns (consumes query, consumes reference) walked back from the 3' end: trailing clips skipped
    (SAM-valid layouts only), up to the next clip"""
    ops = list(reversed(cig))
    while ops and ops[0][0] in (G.S, G.H):
        ops.pop(0)
    cols = []
    for op, ln in ops:
        if op in (G.S, G.H):
            break
        cols += [(op in (G.M, G.I, G.EQ, G.X), op in (G.M, G.D, G.N, G.EQ, G.X))] * ln
    return cols


def _project(cols, qn):
    """ProjectsTo: reference columns at or before query column number qn, minus one (all of them when there is none)"""
    cnt, qi = 0, 0
    for q, r in cols:
        if q:
            if qi == qn:
                return cnt + (1 if r else 0) - 1
            qi += 1
        cnt += 1 if r else 0
    return cnt - 1


def deep_tail_read(rng):
    """a read whose A tail starts around an indel / skip / padding close to the 3' end of the alignment:
    body, event, `y` aligned bases (0: the alignment ends on the event), optional soft clip [+ hard clip]; tail =
    everything from `boundary + delta` on (sometimes the whole read)"""
    cig, seq = [], ""
    if rng.random() < 0.3:
        n = rng.randint(30, 80)
        cig += [[G.M, n], [G.N, rng.randint(50, 300)]]
        seq += "".join(rng.choice("CGT") for _ in range(n))
    x = rng.randint(20, 90)
    cig.append([rng.choice([G.M, G.M, G.EQ, G.X]), x])
    seq += "".join(rng.choice("CGT") for _ in range(x))
    ev = rng.choice([None, G.D, G.D, G.N, G.I, G.I, G.P, "DI", "ID"])
    g = rng.randint(1, 4)
    if ev == "DI":
        cig += [[G.D, g], [G.I, rng.randint(1, 3)]]
    elif ev == "ID":
        cig += [[G.I, rng.randint(1, 3)], [G.D, g]]
    elif ev is not None:
        cig.append([ev, g])
    seq += "".join(rng.choice("CGT") for _ in range(sum(l for k, l in cig[-2:] if k == G.I)))
    boundary = len(seq)
    y = rng.choice([0, rng.randint(1, 12), rng.randint(1, 12), rng.randint(1, 12)])   # 0: the alignment ends on the event
    if y:
        cig.append([rng.choice([G.M, G.M, G.EQ]), y])
        seq += "C" * y
    k = rng.choice([0, 0, rng.randint(1, 30)])
    if k:
        cig.append([G.S, k])
        seq += "C" * k
        if rng.random() < 0.2:
            cig.append([G.H, rng.randint(1, 9)])
    q = max(1, min(len(seq) - 2, boundary + rng.randint(-4, 3)))
    if rng.random() < 0.05:
        q = 0          # the whole read is tail (mirror_law_whole)
    seq = seq[:q] + "A" * (len(seq) - q)
    if rng.random() < 0.3 and len(seq) - q > 8:
        j = rng.randint(q + 4, len(seq) - 1)
        seq = seq[:j] + "C" + seq[j + 1:]
    return seq, cig


def mirror_general_check(ctx):
    """mirror_law_general / mirror_law_offset / mirror_offset_witness evaluated on the real finder: for a tail that starts
    `d >= 1` bases inside the aligned part, find_polya_tail(read) = reference_end - k_A and
    find_polyt_head(mirror image) = max(1, L - find_polya_tail(read) - (k_A - k_T)); k_A, k_T computed here from the CIGAR
    columns (independent walk), the scan position by the brute-force relation"""
    C, AI, PF, PV = _impl()
    rng = ctx.rng
    L = 10 ** 6
    f4 = PF.PolyAFinder(4, 0.75)
    for cig, seq, off in MIRROR_WITNESS:
        a = make_segment(100, cig, seq)
        m = make_segment(1000 - a.reference_end, cig[::-1], G.revcomp(seq))
        pa, pt = f4.find_polya_tail(a, 16, 2, True), f4.find_polyt_head(m, 16, 2, True)
        ctx.evaluations += 1
        ctx.count("op:mirror_witness")
        if pa == -1 or pt != 1001 - pa + off:
            ctx.disagree("mirror_offset_witness", {"cigar": cig, "seq": seq, "offset": off}, [pa, 1001 - pa + off], [pa, pt])
        else:
            ctx.traces_validated += 1
    deep = 0
    for _ in range(600 if ctx.tier == "quick" else 6000):
        seq, cig = deep_tail_read(rng)
        w = rng.choice([4, 8, 16])
        num, den = 3, 4
        frm, to, chk = rng.choice([(4 * w, 2, True), (4 * w, 2, False), (rng.randint(2, 40), rng.randint(0, 20), rng.random() < 0.5)])
        fd = PF.PolyAFinder(w, num / den)
        s = rng.randint(100, 5000)
        a = make_segment(s, cig, seq)
        m = make_segment(L - a.reference_end, cig[::-1], G.revcomp(seq))
        pa, pt = fd.find_polya_tail(a, frm, to, chk), fd.find_polyt_head(m, frm, to, chk)
        ctx.evaluations += 1
        clip = sum(l for k_, l in cig if k_ == G.S)
        mapped_end = len(seq) - clip
        start = max(0, mapped_end - frm)
        stop = min(len(seq), mapped_end + to + 1)
        p = _tail_start([c == "A" for c in seq[start:stop]], w, num, den, chk)
        inp = {"s": s, "cigar": cig, "seq": seq, "L": L, "w": w, "from": frm, "to": to, "chk": chk}
        if p is None:
            ctx.count("op:mirror_general:none")
            if (pa, pt) != (-1, -1):
                ctx.disagree("mirror_general", inp, [-1, -1], [pa, pt])
            continue
        d = mapped_end - (start + p)
        if d < 1:
            ctx.count("op:mirror_general:clip")
            exp = [a.reference_end - d, max(1, L - 1 - (a.reference_end - d))]
        else:
            cols = _cols_back(cig)
            ka = _project(cols, d)
            kt = 0 if d == 1 else _project(cols, d - 1)
            exp = [a.reference_end - ka, max(1, L - (a.reference_end - ka) - (ka - kt))]
            ctx.count("op:mirror_general:offset%d" % (-1 - (ka - kt)))
            deep += 1
        if [pa, pt] != exp:
            ctx.disagree("mirror_general", inp, exp, [pa, pt])
        else:
            ctx.traces_validated += 1
    ctx.extra["mirror_general_inside_aligned_part"] = deep


def nontrivial(op, kw, mo):
    if vlib.is_err(mo):
        return False
    if op in ("get_read_blocks", "blocks_spec", "alignment_info_fake", "alignment_info_pysam"):
        return bool(mo["ref"])
    if op == "aligned_blocks":
        return bool(mo["blocks"])
    if op in ("concat_gapless_blocks", "correct_bam_coords", "concat_gapless_spec"):
        return bool(mo)
    if op in ("count_polya_exons", "count_polyt_exons"):
        return mo != 0
    if op == "correct_read_info":
        return mo != [0, 0]
    if op in ("shift_polya", "shift_polyt"):
        return mo != kw["pos"]
    if op in ("add_polya_info", "alignment_polya"):
        return bool(mo.get("changed"))
    if op in ("find_polya", "find_polya_spec"):
        return mo != -1
    if op in ("move_ref_coord", "move_ref_coord_spec"):
        return mo > 0
    if op in ("find_polya_tail", "find_polyt_head", "find_polya_tail_spec", "find_polyt_head_spec"):
        return mo != -1
    if op == "record_polya":
        return "after" in mo and not vlib.is_err(mo["after"]) and bool(mo["after"].get("changed"))
    if op in ("detect_polya", "detect_polya_default"):
        return any(x != -1 for x in mo)
    return True


CHUNK = 40000


def _run_chunk(ctx, cases, state):
    lines = []
    for op, kw in cases:
        mop = MODEL_OP.get(op, op)
        mkw = {k: kw[k] for k in MODEL_KEYS[op]} if op in MODEL_KEYS else kw
        lines.append(vlib.req("C16." + mop, **mkw))
    outs = ctx.driver.run(lines)
    for (op, kw), mo in zip(cases, outs):
        ctx.evaluations += 1
        ctx.count("op:" + op)
        if isinstance(mo, dict) and "driver_error" in mo:
            ctx.disagree(op, kw, mo, None)
            continue
        io = vlib.canon(impl_call(op, kw))
        ctx.traces_validated += 1
        if vlib.is_err(mo):
            ctx.count("model_error")
        if op in ("get_read_blocks", "blocks_spec") and not vlib.is_err(mo):
            ctx.count("exons:%d" % min(len(mo["ref"]), 4))
        if not vlib.same(mo, io):
            ctx.disagree(op, kw, mo, io)
        else:
            if op in ("aligned_blocks", "alignment_info_pysam"):
                state["pysam_ok"] += 1
            if nontrivial(op, kw, mo):
                # distinct non-trivial inputs: exact count, hashed to keep memory flat on the thorough universes
                ctx.nontrivial.add(hash((op, json.dumps({k: v for k, v in kw.items() if k != "seq"}, sort_keys=True))))
                if op in ("add_polya_info", "alignment_polya"):
                    ctx.count("trimmed:" + op)
        if len(ctx.samples) < 8 and ctx.rng.random() < 0.0002:
            ctx.sample({"op": op, "input": vlib.canon(kw), "model": mo, "impl": io})
        state["first"] = state["first"] or {"op": op, "input": vlib.canon(kw), "model": mo}


def gen_selfcheck(ctx):
    """translator self-check: Gen/CigarClasses.lean (through the driver) vs the live Python objects"""
    from fractions import Fraction
    C, AI, PF, PV = _impl()
    mo = ctx.driver.run([vlib.req("C16.gen_cigar_classes")])[0]
    f = PF.PolyAFinder()
    fr = Fraction(str(f.min_polya_fraction))
    live = {"match_events": sorted(e.value for e in C.CigarEvent.get_match_events()),
            "ins_del_match_events": sorted(e.value for e in C.CigarEvent.get_ins_del_match_events()),
            "polya_window": f.window_size, "polya_fraction": [fr.numerator, fr.denominator]}
    ctx.evaluations += 1
    if isinstance(mo, dict) and "driver_error" not in mo:
        mo = dict(mo, match_events=sorted(mo["match_events"]), ins_del_match_events=sorted(mo["ins_del_match_events"]))
    if mo != live:
        ctx.disagree("gen_cigar_classes", {}, mo, live)
    else:
        ctx.traces_validated += 1
    ctx.extra["gen_cigar_classes"] = live
    # the CIGAR walkers regenerated from the source (Gen/LoopsCigar.lean): statistics of the translator self-check
    # that vcheck ran just before (harness/gencheck.py, ops Gen.get_read_blocks / Gen.concat_gapless_blocks)
    try:
        import gencheck
        st = {k: v for k, v in gencheck.LOOP_STATS.get("functions", {}).items() if k in ("get_read_blocks", "concat_gapless_blocks")}
        ctx.extra["gen_loops_selfcheck"] = st
        for name, v in st.items():
            ctx.hist["genloop:%s" % name] = v["cases"]
            ctx.evaluations += v["cases"]
            ctx.traces_validated += v["cases"]
    except Exception:
        pass


def correspondence(ctx):
    import itertools
    gen_selfcheck(ctx)
    state = {"pysam_ok": 0, "first": None}
    mirror_law_check(ctx)
    mirror_general_check(ctx)
    stream = itertools.chain(gen_cases(ctx), finder_cases(ctx), finder_unit_cases(ctx), move_ref_cases(ctx),
                             tail_finder_cases(ctx), boundary_cases(ctx))
    while True:
        chunk = list(itertools.islice(stream, CHUNK))
        if not chunk:
            break
        _run_chunk(ctx, chunk, state)
    ctx.extra["pysam_cases_agreeing"] = state["pysam_ok"]
    if not ctx.samples and state["first"]:
        ctx.sample(state["first"])


# ------------------------------------------------------------------------------------------------
# oracle: the property itself on the real code

REF_OPS = {G.M, G.D, G.N, G.EQ, G.X}
QRY_OPS = {G.M, G.I, G.S, G.EQ, G.X}
ALN_OPS = {G.M, G.EQ, G.X}


def sam_walk(s, cigar):
    """per operation (index, kind, ref interval or None, query interval or None): the SAM specification's
    table of which operation consumes what — nothing of get_read_blocks' control flow"""
    ref = s + 1      # 1-based coordinate of the next reference base
    q = 0            # 0-based index of the next query base (soft clips are part of the query sequence)
    res = []
    for i, (k, l) in enumerate(cigar):
        riv = (ref, ref + l - 1) if k in REF_OPS else None
        qiv = (q, q + l - 1) if k in QRY_OPS else None
        res.append((i, k, riv, qiv))
        if k in REF_OPS:
            ref += l
        if k in QRY_OPS:
            q += l
    return res


def sam_aligned_blocks(s, cigar):
    """pysam get_blocks(): 0-based half-open block per aligned operation"""
    return [[r[0] - 1, r[1]] for _, k, r, _ in sam_walk(s, cigar) if k in ALN_OPS]


def sam_exons(s, cigar):
    """expected (exons, query blocks, cigar blocks) by the reading rule: cut at N/S; a segment with an aligned
    base spans the reference covered by its M/=/X/D operations"""
    segs, cur = [], []
    for item in sam_walk(s, cigar):
        if item[1] in (G.N, G.S):
            segs.append(cur)
            cur = []
        else:
            cur.append(item)
    segs.append(cur)
    ex, qb, cb = [], [], []
    for seg in segs:
        if not any(k in ALN_OPS for _, k, _, _ in seg):
            continue
        rivs = [r for _, k, r, _ in seg if r is not None]
        qivs = [q for _, k, _, q in seg if q is not None]
        block_ops = [i for i, k, _, _ in seg if k in (G.M, G.EQ, G.X, G.I, G.D)]
        ex.append([min(r[0] for r in rivs), max(r[1] for r in rivs)])
        qb.append([min(q[0] for q in qivs), max(q[1] for q in qivs)])
        cb.append([block_ops[0], seg[-1][0]])
    return ex, qb, cb


def in_sam_domain(s, cigar):
    return s >= 0 and all(0 <= k <= 8 and l >= 1 for k, l in cigar)


def oracle_cigar(s, cigar, via="function"):
    """None if the real code returns the SAM exons, else (kind, detail)"""
    C, AI, PF, PV = _impl()
    if not in_sam_domain(s, cigar):
        return None
    try:
        if via == "function":
            r, q, c = C.get_read_blocks(s, tl(cigar))
        else:
            ai = AI.AlignmentInfo(make_segment(s, cigar))
            r, q, c = ai.read_exons, ai.read_blocks, ai.cigar_blocks
    except Exception as ex:
        return "exons_exception", "%s: %s" % (type(ex).__name__, ex)
    er, eq, ec = sam_exons(s, cigar)
    r, q, c = vlib.canon(r), vlib.canon(q), vlib.canon(c)
    if r != er:
        return "exons_vs_sam", "expected %s got %s" % (er[:6], r[:6])
    if q != eq:
        return "read_blocks_vs_query", "expected %s got %s" % (eq[:6], q[:6])
    if c != ec:
        return "cigar_blocks", "expected %s got %s" % (ec[:6], c[:6])
    for a, b in zip(r, r[1:]):
        if not (a[0] <= a[1] < b[0]):
            return "exons_unordered", str(r[:8])
    if via == "pysam":
        # tie to pysam's own walk: every aligned block lies inside exactly one exon, every exon holds one
        a = make_segment(s, cigar)
        blocks = a.get_blocks()
        for b0, b1 in blocks:
            if sum(1 for e in r if e[0] <= b0 + 1 and b1 <= e[1]) != 1:
                return "exons_vs_pysam_blocks", "block %s not inside one exon of %s" % ((b0, b1), r[:6])
        for e in r:
            if not any(e[0] <= b0 + 1 and b1 <= e[1] for b0, b1 in blocks):
                return "exons_vs_pysam_blocks", "exon %s without aligned block" % (e,)
        if r and r[-1][1] > a.reference_end:
            return "exons_vs_pysam_blocks", "exon beyond reference_end"
    return None


def is_sd(ex):
    return all(a <= b for a, b in ex) and all(ex[i][1] < ex[i + 1][0] for i in range(len(ex) - 1))


def passes_polya_test(e, x, mf):
    """`polya_counted_iff` (Props/C16TailExons.lean): the exon ends after the internal polyA position x and either starts
    at or after it or has <= mf bases before it and more than twice as many after"""
    return x != -1 and x < e[1] and (x <= e[0] or (x - e[0] <= mf and 2 * (x - e[0]) < e[1] - x))


def passes_polyt_test(e, x, mf):
    return x != -1 and e[0] < x and (e[1] <= x or (e[1] - x <= mf and 2 * (e[1] - x) < x - e[0]))


def check_trim(before, rb, cb, info, ai_after, mf=None):
    """the trimming clause on one run; returns None or (kind, detail)"""
    after = vlib.canon(ai_after.read_exons)
    n = len(before)
    if not after:
        return "trim_empty", "exon list empty after trimming %s" % (before,)
    if not is_sd(after):
        return "trim_unordered", str(after)
    # contiguous part of the input
    starts = [i for i in range(n) if before[i:i + len(after)] == after]
    if not starts:
        return "trim_not_terminal", "%s is not a contiguous part of %s" % (after, before)
    i0 = starts[0]
    t = i0
    a = n - i0 - len(after)
    if vlib.canon(ai_after.read_blocks) != rb[t:n - a] or vlib.canon(ai_after.cigar_blocks) != cb[t:n - a]:
        return "trim_blocks_out_of_step", "read/cigar blocks not cut with the exons"
    if (ai_after.read_start, ai_after.read_end) != (after[0][0], after[-1][1]):
        return "trim_ends_stale", "read_start/read_end %s" % ((ai_after.read_start, ai_after.read_end),)
    # "terminal exons that consist of an aligned polyA/polyT tail": a removed exon passes the per-exon test of its side
    # for the internal position the finder reported (reading rule docs/C16.md §3; theorem trimmed_exons_are_tail_exons)
    if mf is not None:
        for e in before[n - a:] if a else []:
            if not passes_polya_test(e, info[2], mf):
                return "removed_exon_not_tail", "3' exon %s removed, internal polyA %s, max_fake %s" % (e, info[2], mf)
        for e in before[:t]:
            if not passes_polyt_test(e, info[3], mf):
                return "removed_exon_not_tail", "5' exon %s removed, internal polyT %s, max_fake %s" % (e, info[3], mf)
    pi = ai_after.polya_info
    new = [pi.external_polya_pos, pi.external_polyt_pos, pi.internal_polya_pos, pi.internal_polyt_pos]
    # tail positions: "moves the recorded tail position onto the retained exon" (statement; no tolerance window).
    # The removed exons are tail from the internal position on; the d read bases of the first removed exon that lie
    # before it (d = max(0, internal - start of the first removed exon): 0 when the removed exons consist of tail, at
    # most max_fake_terminal_exon_len and fewer than a third of that exon otherwise) are not tail and stay attached to
    # the retained exon.  internal: exactly anchor + d; external: between the anchor and the internal position (it
    # never lies beyond the point where the internal scan says the tail starts).  Theorems tail_on_retained_exon,
    # tail_at_end_of_retained_exon (Props/C16PolyA.lean).
    if a > 0:
        anchor = before[n - a - 1][1]
        d = max(0, info[2] - before[n - a][0]) if info[2] != -1 else 0
        lo, hi = anchor, anchor + d
        exact = hi
    for idx, name in ((0, "external_polya"), (2, "internal_polya")):
        old, nw = info[idx], new[idx]
        if a == 0 or old == -1:
            if nw != old:
                return "tail_changed_without_trim", "%s %s -> %s" % (name, old, nw)
        elif not (lo <= nw <= hi) or (idx == 2 and nw != exact):
            return "tail_not_on_retained", "%s %s -> %s, retained exon ends at %s, removed part starts at %s, " \
                "internal polyA found at %s" % (name, old, nw, anchor, before[n - a][0], info[2])
    if t > 0:
        anchor = before[t][0]
        d = max(0, before[t - 1][1] - info[3]) if info[3] != -1 else 0
        lo, hi = anchor - d, anchor
        exact = lo
    for idx, name in ((1, "external_polyt"), (3, "internal_polyt")):
        old, nw = info[idx], new[idx]
        if t == 0 or old == -1:
            if nw != old:
                return "tail_changed_without_trim", "%s %s -> %s" % (name, old, nw)
        elif not (lo <= nw <= hi) or (idx == 3 and nw != exact):
            return "tail_not_on_retained", "%s %s -> %s, retained exon starts at %s, removed part ends at %s, " \
                "internal polyT found at %s" % (name, old, nw, anchor, before[t - 1][1], info[3])
    return None


def oracle_trim_unit(exons, info, mf):
    if not exons or not is_sd(exons):
        return None
    rb = [[i, i] for i in range(len(exons))]
    cb = [[2 * i, 2 * i + 1] for i in range(len(exons))]
    ai = bare_alignment_info(exons, rb, cb)
    try:
        ai.add_polya_info(fake_finder(info), fixer(mf))
    except Exception as ex:
        return "trim_exception", "%s: %s" % (type(ex).__name__, ex)
    return check_trim(vlib.canon(exons), rb, cb, info, ai, mf)


def oracle_trim_read(s, seq, cigar, mf):
    """real pysam segment, real PolyAFinder, real PolyAFixer"""
    C, AI, PF, PV = _impl()
    if (seq and G.query_len(cigar) != len(seq)) or not in_sam_domain(s, cigar) or not cigar:
        return None
    a = make_segment(s, cigar, seq or None)      # seq "" = SEQ '*': the record carries no sequence
    ai = AI.AlignmentInfo(a)
    if not ai.read_exons:
        return None
    before, rb, cb = vlib.canon(ai.read_exons), vlib.canon(ai.read_blocks), vlib.canon(ai.cigar_blocks)
    finder = PF.PolyAFinder(16, 0.75)
    try:
        pi = finder.detect_polya(a)
    except Exception as ex:
        # the statement quantifies over every CIGAR string: `P` is one of the nine SAM operations (audit C16-G2)
        return "finder_exception", "%s: %s (CIGAR %s)" % (type(ex).__name__, ex, G.cigar_str(cigar))
    info = [pi.external_polya_pos, pi.external_polyt_pos, pi.internal_polya_pos, pi.internal_polyt_pos]
    try:
        ai.add_polya_info(finder, fixer(mf))
    except Exception as ex:
        return "trim_exception", "%s: %s (positions %s)" % (type(ex).__name__, ex, info)
    r = check_trim(before, rb, cb, info, ai, mf)
    if r:
        return r
    # the recorded tail position belongs to this alignment: a found position lies next to the aligned reference
    # span, at most the soft clip (+1) away (reading rule, docs/C16.md §3)
    clip5, clip3 = soft_clips(cigar)
    for idx, name in ((0, "external_polya"), (2, "internal_polya")):
        x = info[idx]
        if x != -1 and not (a.reference_start <= x <= a.reference_end + clip3 + 1):
            return "tail_position_off_alignment", "%s=%s, alignment %s-%s, 3' clip %s" % (
                name, x, a.reference_start, a.reference_end, clip3)
    for idx, name in ((1, "external_polyt"), (3, "internal_polyt")):
        x = info[idx]
        if x != -1 and not (max(1, a.reference_start - clip5 - 1) <= x <= max(1, a.reference_end)):
            return "tail_position_off_alignment", "%s=%s, alignment %s-%s, 5' clip %s" % (
                name, x, a.reference_start, a.reference_end, clip5)
    # hard clipping changes nothing (SAM): the same record without its H operations gives the same exons, read
    # blocks and tail positions
    if any(k == G.H for k, _ in cigar) and all(k != G.H for k, _ in cigar[1:-1]):
        bare = [[k, l] for k, l in cigar if k != G.H]
        try:
            ai2 = AI.AlignmentInfo(make_segment(s, bare, seq or None))
            ai2.add_polya_info(finder, fixer(mf))
        except Exception as ex:
            return "hard_clip_changes_result", "without H: %s: %s" % (type(ex).__name__, ex)
        got, exp = ainfo_json(ai), ainfo_json(ai2)
        for key in ("exons", "read_blocks", "info"):
            if got[key] != exp[key]:
                return "hard_clip_changes_result", "%s with H: %s, without: %s" % (key, got[key], exp[key])
    return None


def soft_clips(cigar):
    """(5' soft clip, 3' soft clip) of a SAM-valid CIGAR: the S next to the (optional) outermost H"""
    c = [x for x in cigar if x[0] != G.H]
    c5 = c[0][1] if c and c[0][0] == G.S else 0
    c3 = c[-1][1] if len(c) > 1 and c[-1][0] == G.S else 0
    return c5, c3


def pad_tail_read(rng, three_prime=True):
    """aligned part ... `P` ... A-rich aligned end + soft-clipped A tail (mirror image for the 5' end): the internal /
    external tail starts inside the alignment, so the walk of move_ref_coord_alogn_alignment crosses the `P`"""
    a, b, clip = rng.randint(30, 80), rng.randint(4, 30), rng.randint(0, 12)
    body = "".join(rng.choice("CGT") for _ in range(a))
    if three_prime:
        cig = [[G.M, a], [G.P, rng.randint(1, 3)], [G.M, b]] + ([[G.S, clip]] if clip else [])
        return body + "A" * (b + clip), cig
    body = "".join(rng.choice("CGA") for _ in range(a))
    cig = ([[G.S, clip]] if clip else []) + [[G.M, b], [G.P, rng.randint(1, 3)], [G.M, a]]
    return "T" * (b + clip) + body, cig


# records of the pipeline run that are outside `in_sam_domain` or have no exon (audit C16-G1, G3, G5):
# (name, reference_start, cigar as (code, length) pairs | None, sequence, flag, expectation)
EXCLUDED_RECORDS = [
    ("X_20I", 1100, [(G.I, 20)], "C" * 20, 0, "no_row"),                       # zero exons: no aligned operation
    ("X_30S", 1100, [(G.S, 30)], "C" * 30, 0, "no_row"),
    ("X_SDI", 1100, [(G.S, 5), (G.D, 3), (G.I, 4)], "C" * 9, 0, "no_row"),
    ("X_unmapped_placed", 1100, None, "ACGT" * 10, 4, "no_row"),              # reference id + position, no CIGAR
    # zero-length operations (htslib accepts them): outside the reading rule "lengths >= 1" - the run must finish,
    # what the row says is not constrained (docs/C16.md 3)
    ("X_0N", 1100, [(G.M, 60), (G.N, 0), (G.M, 30)], None, 0, "any"),
    ("X_0Mfirst", 1100, [(G.M, 0), (G.N, 300), (G.M, 90)], None, 0, "any"),
    ("X_0Mlast", 1100, [(G.M, 90), (G.N, 300), (G.M, 0)], None, 0, "any"),
]


# option sets of the pipeline oracle (audit2-D G-C16-3): (name, data_type, threads, extra CLI arguments).  The quick tier
# runs `novel_unspliced` (the one in which the recorded tail position is visible as the end of a novel mono-exon model) and
# one more set chosen by the seed; the thorough tier runs all of them.
PIPE_CONFIGS = [
    ("novel_unspliced", "nanopore", 1, ["--report_novel_unspliced", "true"]),
    ("default", "nanopore", 1, []),
    ("assembly", "assembly", 1, []),
    ("pacbio_hm", "pacbio_ccs", 1, ["--high_memory"]),
    ("loose_t3", "nanopore", 3, ["--matching_strategy", "loose"]),
    ("exact_nosec", "nanopore", 1, ["--matching_strategy", "exact", "--no_secondary"]),
    ("never_all", "nanopore", 1, ["--polya_requirement", "never", "--model_construction_strategy", "all"]),
    ("nomodel_exons", "nanopore", 1, ["--no_model_construction", "--count_exons"]),
]

# legal-but-unusual record shapes (probe c16_pipeline_edges.py of audit2-D), placed once between genes and once inside a gene
EDGE_CIGARS = {
    "eqx_hs": "5H10S50=1X49=300N100M10S5H", "d_ins_at_N": "50M2D300N3I50M", "i_d_at_N": "50M2I300N2D50M",
    "d_ends": "2D50M300N50M3D", "twoN": "50M100N200N50M", "leadN": "100N50M300N60M", "trailN": "50M300N60M100N",
    "ionly": "50M100N5I100N50M300N70M", "donly": "50M100N5D100N50M300N70M", "s_mid": "50M5S50M300N80M",
    "pad": "50M2P50M300N80M", "rev": "100M300N100M",
}


def parse_cigar(txt):
    import re
    return [[G.LETTER.index(o), int(n)] for n, o in re.findall(r"(\d+)([MIDNSHP=X])", txt)]


def _ref_seq(ref, s, cig, clip_base="C"):
    """read sequence of a record that follows the reference: aligned operations copy it, inserted / clipped bases are C"""
    pos, out = s, []
    for k, l in cig:
        if k in (G.M, G.EQ, G.X):
            out.append(ref[pos:pos + l])
            pos += l
        elif k in (G.D, G.N):
            pos += l
        elif k in (G.I, G.S):
            out.append(clip_base * l)
    return "".join(out)


def extra_pipeline_records(ds):
    """records added to a full pipeline run: [(name, chrom, s, cigar, seq or "" (SEQ '*'), flag)] + the two fake-tail groups
    [(group, chrom, lo, hi)] whose novel mono-exon model must lie inside the exons of the reads"""
    recs, groups = [], []
    ref2 = ds.chroms["chr2"]
    tx = ds.genes[0]["transcripts"][0][1]
    p = 20000
    for n, c in EDGE_CIGARS.items():
        cig = parse_cigar(c)
        recs.append(("ig_" + n, "chr2", p, cig, _ref_seq(ref2, p, cig), 16 if n == "rev" else 0))
        p += 1500
    gs = tx[0][0] - 1 + 5
    for n, c in EDGE_CIGARS.items():
        cig = parse_cigar(c)
        recs.append(("g_" + n, "chr1", gs, cig, _ref_seq(ds.chroms["chr1"], gs, cig), 16 if n == "rev" else 0))
    # SEQ '*' (legal: minimap2 secondary alignments): the finder and the trimming see no sequence
    parts = []
    for i, (a, b) in enumerate(tx):
        if i:
            parts.append([G.N, a - tx[i - 1][1] - 1])
        parts.append([G.M, b - a + 1])
    recs.append(("g_noseq", "chr1", tx[0][0] - 1, parts, "", 0))
    recs.append(("ig_noseq", "chr2", 1000, parse_cigar("100M300N100M300N100M"), "", 0))
    # contig borders
    refe = ds.chroms["edge"]
    c = parse_cigar("25S100M300N100M300N120M")
    recs.append(("first_base_T", "edge", 0, c, "T" * 25 + _ref_seq(refe, 0, c)[25:], 0))
    c = parse_cigar("120M300N100M300N100M40S")
    s0 = len(refe) - 920
    recs.append(("last_base_A", "edge", s0, c, _ref_seq(refe, s0, c)[:-40] + "A" * 40, 0))
    c = parse_cigar("100M300N100M300N120M")
    recs.append(("first_base_aligned_T", "edge", 0, c, "T" * 30 + _ref_seq(refe, 0, c)[30:], 0))
    # fake terminal exon = aligned tail + soft-clipped tail (audit2-D G-C16-1): 31 aligned A + 30 clipped A behind a 299-base
    # gap; the trimmed reads end at 6200.  Mirror image with T at the 5' end: the trimmed reads start at 12331.
    for k in range(10):
        st = 5000 + k
        cig = [[G.M, 6200 - st], [G.N, 299], [G.M, 31], [G.S, 30]]
        recs.append(("ftA_%d" % k, "chr2", st, cig, ref2[st:6200] + "A" * 61, 0))
        en = 13500 - k
        cig = [[G.S, 30], [G.M, 31], [G.N, 299], [G.M, en - 12330]]
        recs.append(("ftT_%d" % k, "chr2", 12000, cig, "T" * 61 + ref2[12330:en], 0))
    groups.append(("ftA", "chr2", 4000, 8000))
    groups.append(("ftT", "chr2", 11000, 15000))
    return recs, groups


def oracle_pipeline(ctx, reads, config=None):
    """reads: [(name, s, seq, cigar)] on chr1 through the real pipeline (isoquant.py on a synthetic BAM) under one option
    set: the run must finish, write read_assignments.tsv, and the exons column must be a non-empty ordered
    terminal-trimmed part of the SAM exons of the record; under --report_novel_unspliced every novel model over a
    fake-tail group lies inside the exons of the group's reads (the recorded tail position IS on the retained exon)"""
    import pipeline as P
    from gen import synth
    cfg = next(c for c in PIPE_CONFIGS if c[0] == (config or "default"))
    ds = synth.simple_dataset(seed=ctx.seed % 1000, n_chroms=1, genes_per_chrom=2, reads_per_tx=3, chrom_len=60000)
    ds.add_chrom("chr2", 40000)
    ds.add_chrom("edge", 5000)
    for name, s, seq, cig in reads:
        ds.add_read(name, "chr1", s, G.cigar_str(cig), seq=seq)
    full = any(r[0] == "witness" for r in reads)
    excluded = EXCLUDED_RECORDS if full else []
    for name, s, cig, seq, flag, _ in excluded:
        if seq is None:
            seq = "C" * sum(l for k, l in cig if k in (G.M, G.I, G.S, G.EQ, G.X))
        ds.add_raw_record(name, "chr1", s, cig, flag=flag, mapq=0 if flag & 4 else 60, seq=seq)
    extra, groups = extra_pipeline_records(ds) if full else ([], [])
    for name, chrom, s, cig, seq, flag in extra:
        ds.add_raw_record(name, chrom, s, [tuple(x) for x in cig], flag=flag, seq=seq)
    d = P.scratch("isoverif_C16_")
    try:
        paths = ds.write(os.path.join(d, "data"))
        rc, log = P.run_isoquant(os.path.join(d, "out"), P.std_args(paths, data_type=cfg[1], threads=cfg[2], extra=cfg[3]))
        if rc != 0:
            tail = [l for l in log.split("\n") if "Error" in l or "error" in l][-3:]
            return "pipeline_crash", "config %s rc=%s %s" % (cfg[0], rc, " | ".join(tail)[-400:])
        fs = P.out_files(os.path.join(d, "out"))
        if "S.read_assignments.tsv" not in fs:
            # an rc-0 run that does not write the table is a failure of the clause, not infrastructure trouble
            return "pipeline_output_missing", "config %s: rc 0 but no S.read_assignments.tsv (files: %s)" % (cfg[0], sorted(fs)[:8])
        rows = {}
        for r in P.read_assignments(fs["S.read_assignments.tsv"]):
            rows.setdefault(r["read_id"], []).append(r)
        seen = 0
        norow = []
        for name, s, seq, cig in [(r[0], r[1], r[2], r[3]) for r in reads] + [(e[0], e[2], e[4], e[3]) for e in extra]:
            exp, _, _ = sam_exons(s, cig)
            if not rows.get(name):
                norow.append(name)
            for r in rows.get(name, []):
                seen += 1
                got = [[int(x) for x in e.split("-")] for e in r["exons"].split(",") if e and e != "."]
                if not got:
                    return "pipeline_exons_empty", "config %s %s: %s" % (cfg[0], name, r["exons"])
                ok = any(exp[i:i + len(got)] == got for i in range(len(exp)))
                if not ok or not is_sd(got):
                    return "pipeline_exons_vs_sam", "config %s %s: column %s, SAM exons %s" % (cfg[0], name, got, exp)
        for name, s, cig, seq, flag, expect in excluded:
            if expect == "no_row" and rows.get(name):
                return "pipeline_row_for_record_without_exon", "%s: %s" % (name, rows[name][0]["exons"])
        models = {}
        if groups and "--report_novel_unspliced" in cfg[3]:
            if "S.transcript_models.gtf" not in fs:
                return "pipeline_output_missing", "config %s: no S.transcript_models.gtf" % cfg[0]
            gtf = [g for g in P.parse_gtf(fs["S.transcript_models.gtf"]) if g["feature"] == "transcript"]
            for gname, chrom, lo, hi in groups:
                ex = [[int(x) for x in e.split("-")] for n, rr in rows.items() if n.startswith(gname + "_")
                      for r in rr for e in r["exons"].split(",")]
                if not ex:
                    return "pipeline_group_without_rows", "config %s: no row for the reads %s_*" % (cfg[0], gname)
                a, b = min(e[0] for e in ex), max(e[1] for e in ex)
                ms = [g for g in gtf if g["chr"] == chrom and lo <= g["start"] and g["end"] <= hi]
                models[gname] = [[g["start"], g["end"], g["strand"]] for g in ms]
                if not ms:
                    return "pipeline_group_without_model", "config %s: ten reads %s_* (%s-%s) give no transcript model" % (
                        cfg[0], gname, a, b)
                for g in ms:
                    if g["strand"] == "-" and g["end"] <= b and a - g["start"] in (1, 2):
                        # known finding polya_finder_not_mirror_dual (listed for C11 and C16): find_polyt_head reports the 0-based
                        # coordinate of the last head base and construct_monoexon_novel uses it as a 1-based model start - 2 bp before
                        # the first aligned base behind a clipped head, 1 bp when the retained exon itself starts with T (the head
                        # reaches one base into it); the polyA side has no counterpart (the model END never exceeds the reads)
                        return "polyt_position_convention", "config %s: model %s %s-%s -, the exons of the reads %s_* start at %s" % (
                            cfg[0], g["attrs"].get("transcript_id"), g["start"], g["end"], gname, a)
                    if g["start"] < a or g["end"] > b:
                        return "pipeline_model_beyond_reads", "config %s: model %s %s-%s %s, but the exons of the reads %s_* " \
                            "(after trimming the fake tail exon) cover %s-%s only" % (
                                cfg[0], g["attrs"].get("transcript_id"), g["start"], g["end"], g["strand"], gname, a, b)
        ctx.extra.setdefault("pipeline_runs", {})[cfg[0]] = {"rows_checked": seen, "records_without_row": norow[:12],
                                                             "group_models": models}
        ctx.extra["pipeline_reads_checked"] = ctx.extra.get("pipeline_reads_checked", 0) + seen
        ctx.extra["pipeline_excluded_records"] = {r[0]: ("row" if rows.get(r[0]) else "no row") for r in excluded}
        return None
    finally:
        shutil.rmtree(d, ignore_errors=True)


def pipeline_reads(ctx):
    rng = ctx.rng
    reads = [("witness", 30000) + G.WITNESS_READ]
    # a `P` inside the walked tail (audit C16-G2) and one far from it
    reads.append(("pad_tail3", 30800) + pad_tail_read(rng, True))
    reads.append(("pad_tail5", 31200) + pad_tail_read(rng, False))
    reads.append(("pad_far", 31500, "".join(rng.choice("CGT") for _ in range(230)), [[G.M, 30], [G.P, 2], [G.M, 200]]))
    pos = 32000
    for i in range(40):
        seq, cig = (G.block_read(rng) if i % 2 == 0 else G.tailed_read(rng)) if i % 5 else G.overlap_read(rng)
        if G.query_len(cig) != len(seq):
            continue
        span = sum(l for k, l in cig if k in REF_OPS)
        if pos + span > 58000:
            break
        reads.append(("syn%d" % i, pos, seq, cig))
        pos += rng.randint(0, 300)
    return reads


def oracle(ctx, disagreements, broken):
    n = 0
    # 1. the disagreeing inputs first
    for d in disagreements:
        kw = d["input"]
        op = d["op"]
        n += 1
        if op in ("get_read_blocks", "blocks_spec", "alignment_info_fake", "alignment_info_pysam", "aligned_blocks"):
            r = oracle_cigar(kw["s"], kw["cigar"], "pysam" if "pysam" in op or op == "aligned_blocks" else "function")
            if r:
                ctx.fail(r[0], {"check": "cigar", "s": kw["s"], "cigar": kw["cigar"],
                                "via": "pysam" if "pysam" in op else "function"}, r[1])
        elif op in ("add_polya_info", "correct_read_info", "count_polya_exons", "count_polyt_exons", "shift_polya",
                    "shift_polyt"):
            ex = kw["exons"]
            infos = [kw["info"]] if "info" in kw else [[-1, -1, kw["pos"], -1], [-1, -1, -1, kw["pos"]],
                                                       [kw["pos"], -1, kw["pos"], -1], [-1, kw["pos"], -1, kw["pos"]]]
            for info in infos:
                for mf in ([kw["mf"]] if "mf" in kw else MAX_FAKE):
                    r = oracle_trim_unit(ex, info, mf)
                    if r:
                        ctx.fail(r[0], {"check": "trim_unit", "exons": ex, "info": info, "mf": mf}, r[1])
        elif op in ("record_polya", "find_polya_tail", "find_polyt_head", "find_polya_tail_spec",
                    "find_polyt_head_spec") and kw.get("seq"):
            r = oracle_trim_read(kw["s"], kw["seq"], kw["cigar"], kw.get("mf", 40))
            if r:
                ctx.fail(r[0], {"check": "trim_read", "s": kw["s"], "seq": kw["seq"], "cigar": kw["cigar"],
                                "mf": kw.get("mf", 40)}, r[1])
        elif op == "alignment_polya" and kw.get("seq"):
            r = oracle_trim_read(kw["s"], kw["seq"], kw["cigar"], kw["mf"])
            if r:
                ctx.fail(r[0], {"check": "trim_read", "s": kw["s"], "seq": kw["seq"], "cigar": kw["cigar"],
                                "mf": kw["mf"]}, r[1])
    # 2. the normal generators (independent of the driver)
    quick = ctx.tier == "quick"
    for i, (s, c) in enumerate(cigar_cases(ctx, for_oracle=True)):
        n += 1
        r = oracle_cigar(s, c)
        if r:
            ctx.fail(r[0], {"check": "cigar", "s": s, "cigar": c, "via": "function"}, r[1])
        if i % 37 == 0 and s < 2 ** 29 - 10 ** 7 and len(c) < 500:
            n += 1
            r = oracle_cigar(s, c, "pysam")
            if r:
                ctx.fail(r[0], {"check": "cigar", "s": s, "cigar": c, "via": "pysam"}, r[1])
        if len(ctx.failures) > 20:
            break
    for ex, info, mf in polya_unit_cases(ctx):
        n += 1
        r = oracle_trim_unit(ex, info, mf)
        if r:
            ctx.fail(r[0], {"check": "trim_unit", "exons": ex, "info": info, "mf": mf}, r[1])
            if len(ctx.failures) > 40:
                break
    def more_reads():
        yield from read_cases(ctx)
        for _ in range(800 if quick else 8000):      # clip combinations (H S … S H), indels at the alignment ends
            seq, c = G.finder_read(ctx.rng)         # occasional `P`: inside the domain (one of the nine SAM operations)
            yield (ctx.rng.randint(0, 10 ** 6), seq, c)
        for k in range(60 if quick else 600):        # a `P` inside the part the backward / forward walk visits
            yield (ctx.rng.randint(0, 10 ** 6),) + pad_tail_read(ctx.rng, k % 2 == 0)
        for k in range(150 if quick else 1500):      # fake terminal exon = aligned tail (+ soft-clipped tail), both ends
            yield (ctx.rng.randint(0, 10 ** 6),) + G.fake_tail_read(ctx.rng, k % 2 == 0)
        for k in range(60 if quick else 600):        # SEQ '*'
            seq, c = G.finder_read(ctx.rng) if k % 2 else G.tailed_read(ctx.rng)
            yield (ctx.rng.randint(0, 10 ** 6), "", c)
    for s, seq, c in more_reads():
        n += 1
        r = oracle_trim_read(s, seq, c, 40)
        if r:
            ctx.fail(r[0], {"check": "trim_read", "s": s, "seq": seq, "cigar": c, "mf": 40}, r[1])
            if len(ctx.failures) > 60:
                break
    # 3. through the real pipeline: `novel_unspliced` + one option set chosen by the seed (thorough: every set)
    reads = pipeline_reads(ctx)
    if quick:
        rot = PIPE_CONFIGS[1:]
        configs = [PIPE_CONFIGS[0][0], rot[ctx.seed % len(rot)][0]]
    else:
        configs = [c[0] for c in PIPE_CONFIGS]
    for config in configs:
        try:
            r = oracle_pipeline(ctx, reads, config)
        except (OSError, ImportError) as ex:      # infrastructure trouble of the pipeline wrapper is not a verdict
            ctx.notes.append("pipeline oracle (%s) skipped: %s: %s" % (config, type(ex).__name__, ex))
            continue
        except Exception as ex:                   # anything else (unreadable / incomplete output of an rc-0 run) is
            r = ("pipeline_output_unreadable", "config %s: %s: %s" % (config, type(ex).__name__, ex))
        n += len(reads)
        if r:
            # narrow down to one read when possible
            culprit = None
            if r[0] == "pipeline_crash":
                for rd in reads:
                    if oracle_trim_read(rd[1], rd[2], rd[3], 40):
                        culprit = rd
                        break
            ctx.fail(r[0], {"check": "pipeline", "config": config,
                            "reads": [list(culprit)] if culprit else [list(x) for x in reads]}, r[1])
            break
    ctx.extra["oracle_cases"] = n


def replay(ctx, failure):
    inp = failure["input"]
    chk = inp.get("check")
    if chk == "cigar":
        return oracle_cigar(inp["s"], inp["cigar"], inp.get("via", "function")) is not None
    if chk == "trim_unit":
        return oracle_trim_unit(inp["exons"], inp["info"], inp["mf"]) is not None
    if chk == "trim_read":
        return oracle_trim_read(inp["s"], inp["seq"], inp["cigar"], inp["mf"]) is not None
    if chk == "pipeline":
        return oracle_pipeline(ctx, [tuple(x) for x in inp["reads"]], inp.get("config")) is not None
    return False
