"""C14 — corrected alignments are well-formed; junctions move only onto annotated ones."""
import importlib
import itertools
import os
import shutil
import signal
import sys
import types
from functools import partial

import vlib
from gen import c14gen as G

ID = "C14"
PROPS = ["IsoVerif/Props/C14.lean", "IsoVerif/Props/C14Corrector.lean", "IsoVerif/Props/C14Illumina.lean"]
TARGETS = ["IsoVerif.Props.C14", "IsoVerif.Props.C14Corrector", "IsoVerif.Props.C14Illumina"]
GEN_DEPS = ["Prims", "Enums", "EventClasses", "Strategies", "Corrector", "Illumina"]
LEVEL = "proof"
RULE = ("model = Model/Bed.lean + Model/Corrector.lean; correspondence: real ExonCorrector (correct_assigned_read, "
        "correct_misalignments -> event map, process_events with explicit event maps incl. a malformed stream), real "
        "OverlappingFeaturesProfileConstructor.match_genomic_features (exhaustive small universe + random), real BEDPrinter "
        "(lines compared byte for byte), real set_splice_correction_options for all strategies; a case is non-trivial when "
        "the model returns a non-error value that differs from the uncorrected input (or, for BED, a written line) and "
        "model == implementation; distinct by (op, input); Model/Illumina.lean: real IlluminaExonCorrector.correct_exons "
        "(from_data with an ordered junction list, with a Python set, and built by the real constructor on two synthetic "
        "short-read BAMs; exhaustive small universes of read layouts x ordered junction lists + threshold universe + random), "
        "real static scoring methods, real get_introns / merge_dictionaries")
TRUSTED = ["Gen/Corrector.lean, Gen/Strategies.lean: tables extracted from src/exon_corrector.py / isoquant.py by translate.py "
           "(shape of the event chain checked by the translator; presets cross-checked against the real function each run)",
           "get_error_count (pysam aligned pairs) and JunctionComparator are inputs of the model (quantified over); "
           "gene_info lookups (transcript_region, all_isoforms_introns, intron_profiles.features) are taken from the real GeneInfo",
           "Gen/Illumina.lean: constants, the four static predicates, the site distance and the two acceptance tests of "
           "IlluminaExonCorrector.correct_exons are generated (gen_illumina; shape of correct_exons checked); the loops are "
           "hand-modelled and tied by correspondence",
           "pysam.AlignmentFile.find_introns / fetch (junction counts per short-read file) is an input of the model; the "
           "enumeration order of the Python set `short_introns` is an input of the model (universally quantified)"]
ASSUMPTIONS = ["CPython int semantics = Lean Int",
               "read_exons of an alignment are gapped (consecutive blocks separated by >= 1 reference base): C16's output invariant",
               "events name index ranges of the read introns (0 <= r0 <= r1 < #read introns) or carry the absent/undefined sentinels "
               "(WellFormedRegions; not provable - the comparator is an input of the model - but MONITORED on every real "
               "correct_assigned_read call of every pipeline run of the oracle: harness/mon_wrap.py `c14events`, together with "
               "the next three assumptions)",
               "annotation: the assigned isoform lies inside the chromosome (1 <= start, end <= chromosome length)",
               "AlignmentInfo.read_start/read_end are the ends of read_exons after the polyA/polyT-exon trimming, and params.delta is "
               "the --delta given on the command line (glue outside the model: watched by the pipeline oracle with reads whose "
               "polyT head / polyA tail is a separate terminal exon and with explicit --delta 0 / --delta 2 runs)",
               "short-read junctions are well formed (start <= end): follows from pysam's find_introns contract "
               "(`illumina_short_introns_wf`); needed for `illumina_bed_valid` only",
               "no assumption on JunctionComparator / get_error_count is needed for BED validity any more: the validity gate "
               "added by the fix: commit is modelled and `corrected_always_valid` holds for every event list; the oracle still "
               "validates every BED record of the pipeline runs"]

ERR_INDEX = {"error": "index"}


# ------------------------------------------------------------------------------------------------
# real code adapters

class LoopTimeout(Exception):
    pass


def _alarm(signum, frame):
    raise LoopTimeout()


class time_limit:
    """the `while` loop of process_events may not terminate on malformed events: interrupt it"""

    def __init__(self, seconds):
        self.seconds = seconds

    def __enter__(self):
        self.old = signal.signal(signal.SIGALRM, _alarm)
        signal.setitimer(signal.ITIMER_REAL, self.seconds)

    def __exit__(self, *a):
        signal.setitimer(signal.ITIMER_REAL, 0)
        signal.signal(signal.SIGALRM, self.old)
        return False


_mods = {}


def _impl():
    if not _mods:
        vlib.repo_on_path()
        for k, m in [("EC", "src.exon_corrector"), ("GI", "src.gene_info"), ("IA", "src.isoform_assignment"),
                     ("LP", "src.long_read_profiles"), ("IO", "src.assignment_io"), ("C", "src.common"),
                     ("IL", "src.illumina_exon_corrector")]:
            _mods[k] = importlib.import_module(m)
    return _mods


class CountingDict(dict):
    """event map that gives up after `limit` membership tests: the loop of process_events performs two per
    iteration, and a run that terminates needs at most 2*len(read introns) + len(map) + 2 iterations (model: eventFuel),
    so exceeding the limit means the real loop does not terminate (deterministic, unlike a wall-clock limit)"""

    def __init__(self, items, limit):
        dict.__init__(self, items)
        self.limit = limit
        self.tests = 0

    def __contains__(self, k):
        self.tests += 1
        if self.tests > self.limit:
            raise LoopTimeout()
        return dict.__contains__(self, k)


def guarded(fn, seconds=5.0):
    try:
        with time_limit(seconds):
            return fn()
    except LoopTimeout:
        return {"error": "fuel"}
    except AssertionError:
        return {"error": "assertion"}
    except (IndexError, KeyError, AttributeError, TypeError, ValueError) as ex:
        return {"error": "index", "exc": type(ex).__name__}
    except MemoryError:
        return {"error": "fuel"}


# params.<args field> <- flags.<strategy field>  (what set_splice_correction_options does; cross-checked by `presets`)
BINDING = [("correct_fuzzy_junctions", "fuzzy_junctions"), ("correct_intron_shifts", "intron_shifts"),
           ("correct_skipped_exons", "skipped_exons"), ("correct_terminal_exons", "terminal_exons"),
           ("correct_fake_terminal_exons", "fake_terminal_exons"), ("correct_microintron_retention", "microintron_retention")]


def make_params(flags, delta):
    p = types.SimpleNamespace(delta=delta)
    for a, f in BINDING:
        setattr(p, a, bool(flags[f]))
    return p


def make_gene_info(family, delta):
    M = _impl()
    models = [M["GI"].TranscriptModel("chr1", "+", "t%d" % i, "g1", [tuple(e) for e in ex], M["GI"].TranscriptModelType.known)
              for i, ex in enumerate(family)]
    return M["GI"].GeneInfo.from_models(models, delta)


class FakeAlignmentInfo:
    """what ExonCorrector reads from AlignmentInfo; get_error_count answers from a table (the pysam part is an
    input of the model)"""

    def __init__(self, exons, gene_info, delta, err):
        M = _impl()
        self.read_exons = [tuple(e) for e in exons]
        if self.read_exons:
            self.read_start = self.read_exons[0][0]
            self.read_end = self.read_exons[-1][1]
        self.err = err
        self.calls = []
        if self.read_exons:
            # as CombinedProfileConstructor.construct_profiles does for the intron profile
            c = M["LP"].OverlappingFeaturesProfileConstructor(gene_info.intron_profiles.features,
                                                             (gene_info.start, gene_info.end),
                                                             comparator=partial(M["C"].equal_ranges, delta=delta),
                                                             absence_condition=partial(M["C"].overlaps_at_least, delta=10),
                                                             delta=delta)
            self.combined_profile = types.SimpleNamespace(read_intron_profile=c.construct_intron_profile(self.read_exons))

    def get_error_count(self, ref_start, ref_end, intron_index=None, left_site=True, chr_record=None):
        self.calls.append((ref_start, ref_end, intron_index, left_site))
        return tuple(self.err[intron_index][0 if left_site else 1])


def make_events(evs):
    M = _impl()
    return [M["IA"].MatchEvent(M["IA"].MatchEventSubtype[e["t"]], tuple(e["iso"]), tuple(e["read"])) for e in evs]


def ev_json(e):
    return {"t": e.event_type.name, "iso": list(e.isoform_region), "read": list(e.read_region)}


def make_assignment(case):
    M = _impl()
    IA = M["IA"]
    at = IA.ReadAssignmentType.noninformative if case["noninformative"] else IA.ReadAssignmentType.inconsistent
    if case["no_match"]:
        return IA.ReadAssignment("r1", at, None)
    match = IA.IsoformMatch(IA.MatchClassification.novel_in_catalog, "g1", "t%d" % case["iso_index"], make_events(case["events"]))
    return IA.ReadAssignment("r1", at, match)


def run_correct_assigned_read(case):
    """-> (model kwargs, impl value)"""
    M = _impl()
    gi = make_gene_info(case["family"], case["delta"])
    params = make_params(case["flags"], case["delta"])
    ra = make_assignment(case)
    ai = FakeAlignmentInfo(case["exons"], gi, case["delta"], case["err"])
    corr = M["EC"].ExonCorrector(gi, params, None)
    iso_id = "t%d" % case["iso_index"]
    events = None if not ra.isoform_matches else [ev_json(e) for e in ra.isoform_matches[0].match_subclassifications]
    kw = {"flags": case["flags"], "delta": case["delta"], "err": case["err"],
          "known": vlib.canon(gi.intron_profiles.features), "noninformative": case["noninformative"], "events": events,
          "iso_region": list(gi.transcript_region(iso_id)), "iso_introns": vlib.canon(gi.all_isoforms_introns[iso_id]),
          "exons": case["exons"]}
    io = guarded(lambda: vlib.canon(corr.correct_assigned_read(ai, ra)))
    return kw, io


class CapturingCorrector:
    """ExonCorrector subclass factory: process_events returns the event map it was given (hook at a method boundary)"""
    cls = None

    @classmethod
    def get(cls):
        if cls.cls is None:
            EC = _impl()["EC"].ExonCorrector

            class Cap(EC):
                def process_events(self, alignment_info, event_map, read_region, read_introns, isoform_region, isoform_introns,
                                   *micro):
                    # repaired code: a 7th argument `retained_micro_introns` {read exon: [isoform intron index, ...]};
                    # before the repair the micro-intron events sat in event_map under the key -exon-1 (one per key)
                    return event_map, (micro[0] if micro else None)
            cls.cls = Cap
        return cls.cls


def micro_signature():
    """True iff the real process_events takes the retained micro introns as a container of their own (repaired code)"""
    import inspect
    return "retained_micro_introns" in inspect.signature(_impl()["EC"].ExonCorrector.process_events).parameters


def canon_built_map(m, micro):
    """what correct_misalignments built, in the model's terms: {"emap": [[key, event]], "micro": [[exon, [iso index, ...]]]}.
    Old code (micro is None): the bindings of micro-intron events are the dict entries whose event starts with the
    absent sentinel (key -exon-1, ONE event per key: the last one assigned)"""
    if micro is None:
        em = [[k, ev_json(e)] for k, e in m.items() if e.read_region[0] != _impl()["IA"].SupplementaryMatchConstants.absent_position]
        mi = [[-k - 1, [e.isoform_region[0]]] for k, e in m.items()
              if e.read_region[0] == _impl()["IA"].SupplementaryMatchConstants.absent_position]
    else:
        em = [[k, ev_json(e)] for k, e in m.items()]
        mi = [[k, list(v)] for k, v in micro.items()]
    return {"emap": sorted(em, key=lambda x: x[0]), "micro": sorted(mi, key=lambda x: x[0])}


def run_build_event_map(case):
    gi = make_gene_info(case["family"], case["delta"])
    params = make_params(case["flags"], case["delta"])
    c2 = dict(case, no_match=False)
    ra = make_assignment(c2)
    ai = FakeAlignmentInfo(case["exons"], gi, case["delta"], case["err"])
    corr = CapturingCorrector.get()(gi, params, None)
    events = [ev_json(e) for e in ra.isoform_matches[0].match_subclassifications]
    kw = {"micro": bool(case["flags"]["microintron_retention"]), "events": events}

    def f():
        m, micro = corr.correct_misalignments(ai, ra)
        return canon_built_map(m, micro)
    return kw, guarded(f)


def run_process_events(case, emap, micro=()):
    """process_events with an explicit event map [(key, event)] (keys need not equal read_region[0]) and explicit
    retained micro introns [(read exon, isoform intron index)] in event order.  On the code before the repair (no
    `retained_micro_introns` parameter) the micro bindings are put where that code kept them: event_map[-exon-1] = the
    event, the last binding of an exon winning"""
    M = _impl()
    gi = make_gene_info(case["family"], case["delta"])
    params = make_params(case["flags"], case["delta"])
    ai = FakeAlignmentInfo(case["exons"], gi, case["delta"], case["err"])
    corr = M["EC"].ExonCorrector(gi, params, None)
    iso_id = "t%d" % case["iso_index"]
    read_introns = vlib.canon(M["C"].junctions_from_blocks(ai.read_exons))
    read_region = [ai.read_exons[0][0], ai.read_exons[-1][1]]
    # the model's map lists the newest binding first; a dict keeps one binding per key (the last assigned)
    d = {}
    for k, e in emap:
        d[k] = make_events([e])[0]
    micro = [[int(k), int(j)] for k, j in micro]
    mm = {}
    for k, j in micro:
        mm.setdefault(k, []).append(j)
    new_sig = micro_signature()
    kw_emap = [[k, ev_json(e)] for k, e in d.items()]
    if not new_sig:
        for k, j in micro:
            d[-k - 1] = make_events([{"t": "fake_micro_intron_retention", "iso": [j, j], "read": [G.ABSENT, k]}])[0]
    d = CountingDict(d, 2 * (2 * max(0, len(case["exons"]) - 1) + len(d) + 2) + 8)
    kw = {"flags": case["flags"], "delta": case["delta"], "err": case["err"],
          "known": vlib.canon(gi.intron_profiles.features), "emap": kw_emap, "micro": micro,
          "read_region": read_region, "read_introns": read_introns,
          "iso_region": list(gi.transcript_region(iso_id)), "iso_introns": vlib.canon(gi.all_isoforms_introns[iso_id])}

    def f():
        extra = (mm,) if new_sig else ()
        reg, ni = corr.process_events(ai, d, tuple(read_region), [tuple(x) for x in read_introns],
                                      gi.transcript_region(iso_id), gi.all_isoforms_introns[iso_id], *extra)
        return {"region": list(reg), "introns": vlib.canon(ni)}
    return kw, guarded(f)


def split_stream(rng, events, n_read):
    """explicit inputs of process_events from a generated event list: micro-intron retentions become bindings
    (read exon, isoform intron index) - any exon 0..n_read, several per exon, now and then a key outside the read or a
    bad isoform index (malformed stream) -, every other event an event-map entry (mostly keyed by read_region[0])"""
    emap, micro = [], []
    for e in events:
        r = rng.random()
        if e["t"] == "fake_micro_intron_retention" and e["read"][0] == G.ABSENT:
            micro.append([e["read"][1] if r < 0.9 else rng.randint(-2, n_read + 2), e["iso"][0]])
        elif e["read"][0] in (G.ABSENT, G.UNDEF):
            emap.append((-e["read"][1] - 1, e))
        elif r < 0.85:
            emap.append((e["read"][0], e))
        else:
            emap.append((rng.randint(-n_read - 1, n_read), e))
    return emap, micro


def run_match_genomic(known, reads, delta):
    M = _impl()
    c = M["LP"].OverlappingFeaturesProfileConstructor([tuple(x) for x in known], (0, 10 ** 9),
                                                     comparator=partial(M["C"].equal_ranges, delta=delta))
    return guarded(lambda: vlib.canon(c.match_genomic_features([tuple(x) for x in reads])))


class BedHarness:
    """real BEDPrinter objects writing into a scratch dir; returns the text written by one add_read_info call"""

    def __init__(self):
        self.dir = vlib.scratch_dir("isoverif_c14bed_")
        self.printers = {}

    def printer(self, print_corrected, checker):
        M = _impl()
        key = (print_corrected, checker)
        if key not in self.printers:
            fn = os.path.join(self.dir, "p%d_%s.bed" % (int(print_corrected), checker))
            if checker == "all":
                p = M["IO"].BEDPrinter(fn, None, print_corrected=print_corrected)
            elif checker == "none":
                p = M["IO"].BEDPrinter(fn, None, print_corrected=print_corrected, assignment_checker=None)
            else:
                IA = _impl()["IA"]
                p = M["IO"].BEDPrinter(fn, None, print_corrected=print_corrected,
                                       assignment_checker=M["IO"].PrintOnlyFunctor(IA.ReadAssignmentType.unique))
            p.output_file.flush()
            self.printers[key] = (p, fn, os.path.getsize(fn))
        return self.printers[key]

    def call(self, kw):
        M = _impl()
        IA = M["IA"]
        p, fn, pos = self.printer(kw["print_corrected"], kw["checker_kind"])
        if not kw["assignment"]:
            ra = None
        else:
            # multimapper: attribute of every real ReadAssignment (False by default); read by BEDPrinter after the c05edge repair
            ra = types.SimpleNamespace(read_id=kw["name"], mapped_strand=kw["strand"], multimapper=False,
                                       exons=[tuple(e) for e in kw["exons"]],
                                       corrected_exons=[tuple(e) for e in kw["corrected"]])
            ra.assignment_type = (IA.ReadAssignmentType.unique if kw["accepts"] else IA.ReadAssignmentType.ambiguous) \
                if kw["type"] else None
            if kw["gene_info"] == "present":
                ra.gene_info = types.SimpleNamespace(chr_id=kw["chrom"])
            elif kw["gene_info"] == "none":
                ra.gene_info = None

        def f():
            p.add_read_info(ra)
            p.output_file.flush()
            with open(fn) as fh:
                fh.seek(pos)
                return fh.read()
        out = guarded(f)
        p.output_file.flush()
        self.printers[(kw["print_corrected"], kw["checker_kind"])] = (p, fn, os.path.getsize(fn))
        if isinstance(out, str):
            return None if out == "" else out
        return out

    def close(self):
        for p, _, _ in self.printers.values():
            try:
                p.output_file.close()
            except Exception:
                pass
        shutil.rmtree(self.dir, ignore_errors=True)


def real_presets():
    """run the real set_splice_correction_options for every strategy name of its table"""
    vlib.repo_on_path()
    iq = importlib.import_module("isoquant")
    res = []
    names = ["none", "default_pacbio", "conservative_ont", "default_ont", "all", "assembly"]
    for nm in names:
        a = types.SimpleNamespace(splice_correction_strategy=nm)
        iq.set_splice_correction_options(a)
        res.append([nm, {f: bool(getattr(a, arg)) for arg, f in BINDING}])
    return res


# ------------------------------------------------------------------------------------------------
# correspondence

def _same(mo, io):
    if vlib.is_err(mo) and vlib.is_err(io):
        return mo.get("error") == io.get("error")
    return vlib.same(mo, io)


def _record(ctx, op, kw, mo, io, nontrivial):
    ctx.evaluations += 1
    ctx.count("op:" + op)
    if isinstance(mo, dict) and "driver_error" in mo:
        ctx.disagree(op, kw, mo, io)
        return
    ctx.traces_validated += 1
    if vlib.is_err(mo):
        ctx.count("model_error:" + str(mo.get("error")))
    if not _same(mo, io):
        ctx.disagree(op, kw, mo, io)
    elif nontrivial:
        ctx.mark_nontrivial([op, kw])
    if len(ctx.samples) < 8 and (ctx.rng.random() < 0.002 or len(ctx.samples) < 2) and nontrivial:
        ctx.sample({"op": op, "input": vlib.canon(kw), "model": mo, "impl": io})


def model_presets(ctx):
    out = ctx.driver.run([vlib.req("C14.presets"), vlib.req("C14.tables")])
    return out[0], out[1]


def correspondence(ctx):
    rng = ctx.rng
    quick = ctx.tier == "quick"
    M = _impl()
    # ---- presets and tables (translator cross-check)
    mp, mt = model_presets(ctx)
    rp = guarded(real_presets, 20)
    _record(ctx, "presets", {}, mp, rp, True)
    presets = [(n, f) for n, f in mp] if isinstance(mp, list) else []
    if not presets:
        presets = [("none", {k: False for k in G.FLAG_NAMES})]
    known_types = mt.get("known_event_types", []) if isinstance(mt, dict) else []
    _record(ctx, "flag_binding", {}, mt.get("flag_binding") if isinstance(mt, dict) else mt, [list(x) for x in BINDING], True)
    all_types = [t.name for t in M["IA"].MatchEventSubtype]
    ctx.extra["known_event_types"] = known_types

    cases = []   # (op, model kwargs, impl value, nontrivial-fn)

    # ---- every event type x every preset on a fixed scenario in which corrected != read introns (translator check of
    #      the inline set / misalignment set / terminal branches)
    fam = [[[100, 200], [300, 400], [500, 600], [700, 800]]]
    for t in all_types:
        for nm, fl in presets:
            for rr in ([0, 0], [1, 1], [2, 2], [0, 1]):
                case = {"family": fam, "iso_index": 0, "exons": [[90, 203], [298, 400], [503, 597], [700, 790]], "delta": 6,
                        "flags": fl, "err": [[[1, 0], [0, 2]], [[0, 0], [1, 1]], [[0, 3], [0, 1]]],
                        "events": [{"t": t, "iso": [rr[0], rr[1]], "read": rr}], "noninformative": False, "no_match": False}
                kw, io = run_correct_assigned_read(case)
                cases.append(("correct_assigned_read", kw, io))
    ctx.extra["event_type_sweep"] = {"types": len(all_types), "presets": len(presets), "regions": 4}
    # ---- the inputs of the Lean witnesses / examples (Props/C14Corrector.lean), replayed on the real code
    ont = dict(next((f for n_, f in presets if n_ == "default_ont"), presets[-1][1]))
    fixed = [
        {"family": [[[41, 60], [71, 120]]], "iso_index": 0, "exons": [[10, 12], [41, 60], [71, 99]], "delta": 6, "flags": ont,
         "err": [[[0, 0], [0, 0]], [[0, 0], [0, 0]]], "noninformative": False, "no_match": False,
         "events": [{"t": "fake_terminal_exon_left", "iso": [1073741823, 1073741823], "read": [1, 1]}]},
        {"family": [[[1001, 1200], [1301, 1500], [1801, 2000]]], "iso_index": 0,
         "exons": [[1050, 1200], [1301, 1500], [1797, 1800]], "delta": 6, "flags": ont,
         "err": [[[0, 0], [0, 0]], [[0, 0], [0, 4]]], "noninformative": False, "no_match": False, "events": []},
        {"family": [[[1001, 1200], [1301, 1500], [1801, 2000]]], "iso_index": 0,
         "exons": [[1201, 1204], [1301, 1500], [1801, 1950]], "delta": 6, "flags": ont,
         "err": [[[2, 0], [0, 0]], [[0, 0], [0, 0]]], "noninformative": False, "no_match": False, "events": []},
        {"family": [[[5, 20], [41, 60], [71, 120]]], "iso_index": 0, "exons": [[10, 12], [41, 60], [71, 99]], "delta": 6,
         "flags": ont, "err": [[[0, 0], [0, 0]], [[0, 0], [0, 0]]], "noninformative": False, "no_match": False,
         "events": [{"t": "fake_terminal_exon_left", "iso": [1073741823, 1073741823], "read": [0, 0]}]},
    ]
    for case in fixed:
        kw, io = run_correct_assigned_read(case)
        cases.append(("correct_assigned_read", kw, io))
    kw, io = run_process_events(dict(fixed[0], events=[]), [(0, {"t": "intron_retention", "iso": [0, 0], "read": [0, -1]})])
    cases.append(("process_events", kw, io))

    # ---- random corrector cases: whole correct_assigned_read, event-map construction, process_events (malformed stream)
    n = 1500 if quick else 15000
    for k in range(n):
        small = rng.random() < 0.4
        case = G.corrector_case(rng, presets, known_types or ["extra_intron_known"], small=small, malformed=False)
        ctx.count("gen:events=%d" % len(case["events"]))
        kw, io = run_correct_assigned_read(case)
        cases.append(("correct_assigned_read", kw, io))
        if k % 3 == 0:
            kw2, io2 = run_build_event_map(case)
            cases.append(("build_event_map", kw2, io2))
    for k in range(n // 2):
        case = G.corrector_case(rng, presets, known_types or ["extra_intron_known"], small=rng.random() < 0.5, malformed=True)
        if len(case["exons"]) < 1:
            continue
        n_read = len(G.introns_of([tuple(e) for e in case["exons"]]))
        emap, micro = split_stream(rng, case["events"], n_read)
        kw, io = run_process_events(case, emap, micro)
        cases.append(("process_events", kw, io))
        ctx.count("gen:malformed_stream")

    # ---- match_genomic_features: exhaustive small universe + random
    U = 6 if quick else 7
    ivs = [(a, b) for a in range(1, U + 1) for b in range(a, U + 1)]
    small_lists = [[]] + [[x] for x in ivs] + [[x, y] for x in ivs for y in ivs if x < y]
    reads_lists = [[x] for x in ivs] + [[x, y] for x in ivs for y in ivs if x[1] < y[0]]
    cnt = 0
    for kn in small_lists:
        for rd in reads_lists:
            for d in (0, 1, 2):
                if quick and rng.random() > 0.25:
                    continue
                cases.append(("match_genomic_features", {"delta": d, "known": kn, "reads": rd}, None))
                cnt += 1
    ctx.extra["match_genomic_universe"] = {"max_coord": U, "known": "sorted lists of <= 2 intervals",
                                           "reads": "disjoint sorted lists of <= 2 intervals", "deltas": [0, 1, 2], "cases": cnt}
    for _ in range(300 if quick else 3000):
        fam_ = G.isoform_family(rng, small=rng.random() < 0.5)
        kn = sorted({i for ex in fam_ for i in G.introns_of(ex)})
        d = rng.choice([0, 1, 2, 4, 6, 12])
        rd = G.introns_of(G.noisy_read(rng, rng.choice(fam_), d))
        cases.append(("match_genomic_features", {"delta": d, "known": kn, "reads": rd}, None))

    # ---- BED printer
    bed = BedHarness()
    try:
        bed_cases = []
        for _ in range(400 if quick else 4000):
            mal = rng.random() < 0.15
            ex = G.rand_blocks(rng, malformed=mal)
            cx = G.rand_blocks(rng, malformed=rng.random() < 0.15)
            kwb = {"assignment": rng.random() < 0.95, "type": rng.random() < 0.93,
                   "gene_info": rng.choice(["present"] * 8 + ["none", "missing"]),
                   "checker_kind": rng.choice(["all", "all", "all", "none", "unique"]), "accepts": rng.random() < 0.7,
                   "print_corrected": rng.random() < 0.6, "chrom": rng.choice(["chr1", "chrX", "scaffold_12"]),
                   "name": "read_%d" % rng.randint(0, 10 ** 6), "strand": rng.choice("+-."), "exons": ex, "corrected": cx}
            bed_cases.append(kwb)
        lines = []
        for kwb in bed_cases:
            accepts = True if kwb["checker_kind"] == "all" else kwb["accepts"]
            lines.append(vlib.req("C14.add_read_info", assignment=kwb["assignment"], type=kwb["type"],
                                  gene_info=kwb["gene_info"] == "present", checker=kwb["checker_kind"] != "none",
                                  accepts=accepts, print_corrected=kwb["print_corrected"], chrom=kwb["chrom"],
                                  name=kwb["name"], strand=kwb["strand"], exons=kwb["exons"], corrected=kwb["corrected"]))
        outs = ctx.driver.run(lines)
        for kwb, mo in zip(bed_cases, outs):
            io = bed.call(kwb)
            _record(ctx, "add_read_info", kwb, mo, io, isinstance(mo, str))
        # structured record: decode(model record) == blocks, line == real line
        rec_cases = [G.rand_blocks(rng) for _ in range(200 if quick else 2000)]
        outs = ctx.driver.run([vlib.req("C14.bed_record", chrom="chr1", name="r", strand="+", exons=ex) for ex in rec_cases])
        for ex, mo in zip(rec_cases, outs):
            kwb = {"assignment": True, "type": True, "gene_info": "present", "checker_kind": "all", "accepts": True,
                   "print_corrected": True, "chrom": "chr1", "name": "r", "strand": "+", "exons": [], "corrected": ex}
            io = bed.call(kwb)
            ok = isinstance(mo, dict) and mo.get("line") == io and mo.get("blocks") == vlib.canon(ex)
            _record(ctx, "bed_record", {"exons": ex}, mo if not ok else io, io, True)
    finally:
        bed.close()

    # ---- IlluminaExonCorrector
    corr_illumina(ctx)

    # ---- run the model on the collected cases
    lines = [vlib.req("C14." + op, **kw) for op, kw, _ in cases]
    outs = ctx.driver.run(lines)
    for (op, kw, io), mo in zip(cases, outs):
        if op == "match_genomic_features":
            io = run_match_genomic(kw["known"], kw["reads"], kw["delta"])
            nt = (not vlib.is_err(mo)) and mo != vlib.canon(kw["reads"])
        elif op == "correct_assigned_read":
            nt = (not vlib.is_err(mo)) and mo != vlib.canon(kw["exons"])
        elif op == "process_events":
            nt = (not vlib.is_err(mo)) and (mo["introns"] != kw["read_introns"] or mo["region"] != kw["read_region"])
        else:
            nt = not vlib.is_err(mo) and bool(mo)
        if op == "build_event_map" and isinstance(mo, dict) and "emap" in mo:
            mo = {"emap": sorted(mo["emap"], key=lambda x: x[0]), "micro": sorted(mo["micro"], key=lambda x: x[0])}
        _record(ctx, op, kw, mo, io, nt)


# ------------------------------------------------------------------------------------------------
# IlluminaExonCorrector: model (Model/Illumina.lean) vs the real class

def ill_real(short, exons, as_set=False):
    """real correct_exons; `short` is handed over as an ordered list (from_data iterates it in that order) or as a Python
    set; -> (the order in which `for s in self.short_introns` enumerates, result)"""
    M = _impl()
    cont = [tuple(s) for s in short]
    corr = M["IL"].IlluminaExonCorrector.from_data(set(cont) if as_set else cont)
    order = [list(s) for s in corr.short_introns]
    out = guarded(lambda: vlib.canon(corr.correct_exons([tuple(e) for e in exons])), 2.0)
    return order, out


ILL_FIXED = [   # inputs of the Lean witnesses / examples (Props/C14Illumina.lean)
    ([(9, 19)], [(10, 12), (20, 30)]), ([(8, 14), (18, 22)], [(10, 12), (25, 40)]), ([], [(1, 5), (6, 9)]),
    ([(101, 204)], [(1, 100), (201, 300)]), ([(97, 200)], [(1, 100), (201, 300)]),
    ([(101, 130), (151, 205)], [(1, 100), (201, 300)]), ([(11, 24)], [(1, 10), (21, 23), (31, 40)]),
    ([(11, 14), (18, 45)], [(1, 10), (21, 23), (31, 40), (50, 60)]), ([(1, 2)], []), ([], [(5, 9)]),
    ([(35, 33)], [(1, 29), (41, 50)]), ([(0, 0), (3, 9)], [(-5, -1), (4, 9), (20, 30)]),
]


def own_contig_short_bam(d, seed):
    """a short-read BAM whose header lists `chrZ` only (spliced reads on it)"""
    import random
    from gen import synth
    own = synth.Dataset(seed + 2)
    own.add_chrom("chrZ", 6000)
    rng = random.Random(seed)
    for k in range(6):
        a = rng.randint(1000, 1200)
        own.read_from_exons("z%d" % k, "chrZ", [(a, a + 40), (a + 400, a + 440)])
    return own.write(d, bam_name="own_contigs.bam", write_ref=False)["bam"]


def ill_bam_cases(ctx, seed):
    """the real constructor on two synthetic short-read BAMs: get_introns / merge_dictionaries / the +1 shift, then
    correct_exons with the real container; -> list of (op, kw, impl)"""
    import pysam
    M = _impl()
    ds, sh, truth, short = G.illumina_dataset(seed)
    d = vlib.scratch_dir("isoverif_c14ill_")
    res = []
    try:
        reads = list(sh.reads)
        half = [r for k, r in enumerate(reads) if k % 3 != 0]
        other = [r for k, r in enumerate(reads) if k % 3 == 0 or k % 5 == 0]     # overlapping: counts add up
        p1 = sh.write(os.path.join(d, "s1"), bam_name="s1.bam", reads=half, write_ref=False)["bam"]
        p2 = sh.write(os.path.join(d, "s2"), bam_name="s2.bam", reads=other, write_ref=False)["bam"]
        # a short-read file with its OWN contig set (audit2-A F2: short reads aligned to / subset to other sequences; its
        # header does not list chr1): it contributes no junction on chr1 - and must not raise
        p3 = own_contig_short_bam(os.path.join(d, "s3"), seed)
        windows = [(0, 24000), (5000, 9000), (6000, 6400)]
        for (a, b) in windows:
            for files in ([p1, p2], [p1], [p2, p1, p2], [p1, p3], [p3], [p3, p2]):
                per_file = []
                for fpath in files:
                    with pysam.AlignmentFile(fpath, "rb") as af:
                        cnt = af.find_introns(af.fetch("chr1", start=a, stop=b)) if af.get_tid("chr1") >= 0 else {}
                    per_file.append([[list(k), int(v)] for k, v in cnt.items()])
                corr = guarded(lambda: M["IL"].IlluminaExonCorrector("chr1", a, b, files), 20.0)
                if vlib.is_err(corr):
                    res.append(("ill_short_introns", {"files": per_file}, corr))
                    continue
                io = {"short": sorted(list(x) for x in corr.short_introns),
                      "counts": sorted([list(k), int(v)] for k, v in corr.counts.items())}
                res.append(("ill_short_introns", {"files": per_file}, io))
                if (a, b) == windows[0] and len(files) == 2:
                    order = [list(x) for x in corr.short_introns]
                    for name, t in sorted(truth.items()):
                        ex = [tuple(e) for e in t["exons"]]
                        out = guarded(lambda: vlib.canon(corr.correct_exons(list(ex))), 2.0)
                        res.append(("ill_correct_exons", {"short": order, "exons": [list(e) for e in ex]}, out))
    finally:
        shutil.rmtree(d, ignore_errors=True)
    return res


def corr_illumina(ctx):
    rng = ctx.rng
    quick = ctx.tier == "quick"
    M = _impl()
    IL = M["IL"].IlluminaExonCorrector
    cases = []
    # ---- constants and the generated static predicates
    mo = ctx.driver.run([vlib.req("C14.ill_constants")])[0]
    _record(ctx, "ill_constants", {}, mo, {"MAX_SCORE": IL.MAX_SCORE, "EXON_LENGTH": IL.EXON_LENGTH, "SIDE_DIFF": IL.SIDE_DIFF,
                                           "ABSENT_INTRON": list(IL.ABSENT_INTRON)}, True)
    prim = []
    for _ in range(1500 if quick else 15000):
        a, b = rng.randint(-50, 3000), rng.randint(0, 400)
        old = (a, a + b)
        l0 = a + rng.choice(G.ILL_SIDE + [rng.randint(-60, 60)])
        l1 = l0 + rng.randint(-3, 200)
        r0 = l1 + rng.choice(G.ILL_MID + [-1, 0, -49, -50, -51, rng.randint(-80, 80)])
        r1 = a + b + rng.choice(G.ILL_SIDE + [rng.randint(-60, 60)])
        sc = rng.choice([IL.MAX_SCORE, 0, rng.randint(-200, 200)])
        prim.append({"left": [l0, l1], "right": [r0, r1], "old": list(old), "score": sc})
    outs = ctx.driver.run([vlib.req("C14.ill_prims", **kw) for kw in prim])
    for kw, mo in zip(prim, outs):
        l, r, o = tuple(kw["left"]), tuple(kw["right"]), tuple(kw["old"])
        io = guarded(lambda: {"skipped_score": IL.skipped_score(l, r, o), "better_skipped": bool(IL.better_skipped(l, r, o, kw["score"])),
                              "right_length": bool(IL.right_length(l, r, o)), "one_differs": bool(IL.one_differs(l, r, o))})
        if isinstance(mo, dict):
            mo = {k: v for k, v in mo.items() if k != "site_distance"}
        _record(ctx, "ill_prims", kw, mo, io, isinstance(io, dict) and io.get("right_length") is True)
    # ---- merge_dictionaries on random count dictionaries (order of the resulting dict = order of the model's list)
    md = []
    for _ in range(200 if quick else 2000):
        keys = [(rng.randint(0, 12), rng.randint(13, 30)) for _ in range(rng.randint(0, 8))]
        old = {k: rng.randint(1, 50) for k in keys[:rng.randint(0, len(keys))]}
        new = {k: rng.randint(1, 50) for k in rng.sample(keys, rng.randint(0, len(keys)))}
        for _ in range(rng.randint(0, 3)):
            new[(rng.randint(0, 12), rng.randint(13, 30))] = rng.randint(1, 9)
        md.append((old, new))
    outs = ctx.driver.run([vlib.req("C14.ill_short_introns", files=[[[list(k), v] for k, v in o.items()],
                                                                    [[list(k), v] for k, v in n.items()]]) for o, n in md])
    for (o, n), mo in zip(md, outs):
        io = guarded(lambda: [[list(k), v] for k, v in IL.merge_dictionaries(dict(o), dict(n)).items()])
        _record(ctx, "merge_dictionaries", {"old": [[list(k), v] for k, v in o.items()], "new": [[list(k), v] for k, v in n.items()]},
                mo.get("counts") if isinstance(mo, dict) and "counts" in mo else mo, io, bool(o) and bool(n))
    # ---- correct_exons: fixed inputs (Lean witnesses and examples)
    for short, ex in ILL_FIXED:
        order, io = ill_real(short, ex)
        cases.append(("ill_correct_exons", {"short": order, "exons": [list(e) for e in ex]}, io))
    # ---- exhaustive small universe: read layouts x ordered lists of <= 2 (thorough: <= 3) junctions
    layouts = [[(1, 2), (5, 7), (11, 13)], [(1, 1), (4, 4), (7, 8)], [(1, 3), (8, 12)], [(2, 3), (6, 6), (9, 10), (14, 15)]]
    U = 12 if quick else 13
    ivs = [(a, b) for a in range(1, U + 1) for b in range(a, U + 1)]
    n_small = 0
    for ex in layouts:
        top = max(b for _, b in ex)
        iv = [x for x in ivs if x[1] <= top + 2]
        lists = [[]] + [[x] for x in iv] + [[x, y] for x in iv for y in iv if x != y]
        for short in lists:
            if quick and len(short) == 2 and rng.random() > 0.3:
                continue
            order, io = ill_real(short, ex)
            cases.append(("ill_correct_exons", {"short": order, "exons": [list(e) for e in ex]}, io))
            n_small += 1
    if not quick:
        iv3 = [(a, b) for a in range(3, 11) for b in range(a, 11)]
        for ex in layouts[:2]:
            for short in itertools.permutations(iv3, 3):
                if rng.random() > 0.35:
                    continue
                order, io = ill_real(list(short), ex)
                cases.append(("ill_correct_exons", {"short": order, "exons": [list(e) for e in ex]}, io))
                n_small += 1
    # ---- threshold universe: junction end points that decide the rules; ordered pairs (+ sampled triples / quadruples)
    n_crit = 0
    for ex, juncs in G.illumina_critical_universe():
        for x in juncs:
            order, io = ill_real([x], ex)
            cases.append(("ill_correct_exons", {"short": order, "exons": [list(e) for e in ex]}, io))
            n_crit += 1
            for y in juncs:
                if x == y or (quick and rng.random() > 0.12):
                    continue
                order, io = ill_real([x, y], ex)
                cases.append(("ill_correct_exons", {"short": order, "exons": [list(e) for e in ex]}, io))
                n_crit += 1
        for _ in range(1500 if quick else 15000):
            short = rng.sample(juncs, rng.choice([3, 3, 4, 5]))
            order, io = ill_real(short, ex, as_set=rng.random() < 0.3)
            cases.append(("ill_correct_exons", {"short": order, "exons": [list(e) for e in ex]}, io))
            n_crit += 1
    ctx.extra["illumina_universe"] = {"small": {"layouts": len(layouts), "max_coord": U, "junction_lists": "all ordered lists of <= %d junctions" % (2 if quick else 3),
                                                "cases": n_small, "sampled": quick},
                                      "threshold": {"layouts": 2, "cases": n_crit, "ordered_pairs_sampled": quick}}
    # ---- random reads x ordered junction lists around the thresholds; every third case through a real Python set
    for k in range(2500 if quick else 30000):
        c = G.illumina_case2(rng) if k % 5 else G.illumina_case(rng)
        order, io = ill_real(c["short"], c["exons"], as_set=(k % 3 == 0))
        cases.append(("ill_correct_exons", {"short": order, "exons": c["exons"]}, io))
        ctx.count("gen:illumina_junctions=%d" % min(len(order), 8))
    # ---- the real constructor on synthetic short-read BAMs
    for sd in ([ctx.seed % 1000 + 1] if quick else [ctx.seed % 1000 + k for k in (1, 2, 3, 4)]):
        try:
            cases += ill_bam_cases(ctx, sd)
        except Exception as ex:
            ctx.disagree("ill_short_introns", {"seed": sd}, None, {"error": "harness", "exc": repr(ex)})
    lines = [vlib.req("C14." + op, **kw) for op, kw, _ in cases]
    outs = ctx.driver.run(lines)
    for (op, kw, io), mo in zip(cases, outs):
        if op == "ill_correct_exons":
            nt = (not vlib.is_err(mo)) and mo != vlib.canon(kw["exons"])
        else:
            nt = isinstance(mo, dict) and bool(mo.get("short"))
            if isinstance(mo, dict) and "short" in mo:
                mo = {"short": sorted(mo["short"]), "counts": sorted(mo["counts"])}
        _record(ctx, op, kw, mo, io, nt)


# ------------------------------------------------------------------------------------------------
# oracle: the property itself on the real code

def is_sd(ex):
    return all(a <= b for a, b in ex) and all(ex[i][1] < ex[i + 1][0] for i in range(len(ex) - 1))


def introns_between(ex):
    """gaps between consecutive blocks of a valid block list (what a BED consumer sees as introns)"""
    return [(ex[i][1] + 1, ex[i + 1][0] - 1) for i in range(len(ex) - 1) if ex[i][1] + 1 < ex[i + 1][0]]


def validate_bed12(fields, chrom_len):
    """-> (blocks (1-based closed) or None, problem string or None)"""
    if len(fields) != 12:
        return None, "expected 12 columns, got %d" % len(fields)
    try:
        cs, ce = int(fields[1]), int(fields[2])
        ts, te = int(fields[6]), int(fields[7])
        n = int(fields[9])
        sizes = [int(x) for x in fields[10].split(",") if x != ""]
        starts = [int(x) for x in fields[11].split(",") if x != ""]
    except ValueError as ex:
        return None, "non-integer field: %s" % ex
    if fields[5] not in ("+", "-", "."):
        return None, "strand %r" % fields[5]
    if n < 1 or len(sizes) != n or len(starts) != n:
        return None, "blockCount %d, %d sizes, %d starts" % (n, len(sizes), len(starts))
    blocks = [(cs + st + 1, cs + st + sz) for st, sz in zip(starts, sizes)]
    if any(z <= 0 for z in sizes):
        return blocks, "non-positive block size in %s" % sizes
    if starts[0] != 0:
        return blocks, "first blockStart %d != 0" % starts[0]
    for i in range(n - 1):
        if starts[i] + sizes[i] > starts[i + 1]:
            return blocks, "blocks %d and %d overlap or are not ascending (starts %s sizes %s)" % (i, i + 1, starts, sizes)
    if cs + starts[-1] + sizes[-1] != ce:
        return blocks, "last block ends at %d, chromEnd %d" % (cs + starts[-1] + sizes[-1], ce)
    if cs < 0 or (chrom_len is not None and ce > chrom_len):
        return blocks, "coordinates outside the chromosome: %d-%d (length %s)" % (cs, ce, chrom_len)
    if not (cs <= ts <= te <= ce):
        return blocks, "thick range %d-%d outside %d-%d" % (ts, te, cs, ce)
    return blocks, None


def allowed_sites(read_exons, known_introns, iso_intron_lists, delta, flags):
    ri = introns_between(read_exons)
    left = {a for a, _ in ri}
    right = {b for _, b in ri}
    if flags["fuzzy_junctions"]:
        for a, b in ri:
            for ka, kb in known_introns:
                if abs(a - ka) <= delta and abs(b - kb) <= delta:
                    left.add(ka)
                    right.add(kb)
    if flags["intron_shifts"] or flags["skipped_exons"] or flags["terminal_exons"] or flags["microintron_retention"]:
        for il in iso_intron_lists:
            for ka, kb in il:
                left.add(ka)
                right.add(kb)
    return left, right


def property_problems(out, read_exons, known_introns, iso_exon_lists, delta, flags, check_valid=True, is_none=None,
                      moved_copy_delta=None):
    """the clauses of C14 for one corrected alignment `out` of the input alignment `read_exons`
    -> list of (kind, detail)"""
    res = []
    out = [tuple(e) for e in out]
    read_exons = [tuple(e) for e in read_exons]
    if not out:
        return [("empty_corrected_alignment", "no blocks")]
    if check_valid and not is_sd(out):
        res.append(("invalid_blocks", "corrected blocks %s" % (out,)))
    if is_none is None:
        is_none = not any(flags.values())
    if is_none:
        if out != read_exons:
            res.append(("none_not_identity", "strategy none: %s != input %s" % (out, read_exons)))
        return res
    starts = {read_exons[0][0]}
    ends = {read_exons[-1][1]}
    if flags["fake_terminal_exons"]:
        starts |= {e[0] for e in read_exons[1:]}
        ends |= {e[1] for e in read_exons[:-1]}
    if flags["terminal_exons"]:
        starts |= {ex[0][0] for ex in iso_exon_lists}
        ends |= {ex[-1][1] for ex in iso_exon_lists}
    if out[0][0] not in starts:
        res.append(("start_changed", "start %d not in %s" % (out[0][0], sorted(starts))))
    if out[-1][1] not in ends:
        res.append(("end_changed", "end %d not in %s" % (out[-1][1], sorted(ends))))
    iso_introns = [introns_between(ex) for ex in iso_exon_lists]
    left, right = allowed_sites(read_exons, known_introns, iso_introns, delta, flags)
    for i in range(len(out) - 1):
        l, r = out[i][1] + 1, out[i + 1][0] - 1
        if l not in left:
            res.append(("site_provenance", "left splice site %d of corrected intron (%d,%d) is neither the read's nor annotated within tolerance" % (l, l, r)))
        if r not in right:
            res.append(("site_provenance", "right splice site %d of corrected intron (%d,%d) is neither the read's nor annotated within tolerance" % (r, l, r)))
    if moved_copy_delta is not None and is_sd(out):
        # pipeline outputs of strategies without intron-shift / terminal-exon correction: an intron of the corrected
        # alignment that is a moved copy of a read intron (both ends within MOVED_COPY_WINDOW of it; inserted or
        # restored isoform introns around a skipped exon / a retained micro-intron are not) must lie within the
        # REQUESTED delta of that read intron at both ends
        ri = introns_between(read_exons)
        oi = introns_between(out)
        for n in oi:
            if n in ri:
                continue
            # a read intron replaced by two or more introns of the corrected alignment is a restoration (skipped
            # micro-exon), not a moved copy: only 1-to-1 replacements are restricted by delta
            near = [r_ for r_ in ri if abs(n[0] - r_[0]) <= MOVED_COPY_WINDOW and abs(n[1] - r_[1]) <= MOVED_COPY_WINDOW
                    and sum(1 for m in oi if not (m[1] < r_[0] or m[0] > r_[1])) == 1]
            if near and not any(abs(n[0] - r_[0]) <= moved_copy_delta and abs(n[1] - r_[1]) <= moved_copy_delta for r_ in near):
                res.append(("site_beyond_delta", "corrected intron (%d,%d) is a moved copy of read intron %s but differs by more "
                            "than the requested delta=%d" % (n[0], n[1], near[0], moved_copy_delta)))
    return res


def wellformed_events(events, n_read):
    for e in events:
        r = e["read"]
        if r == [G.UNDEF, G.UNDEF] or r[0] == G.ABSENT:
            continue
        if not (0 <= r[0] <= r[1] < n_read):
            return False
    return True


def unit_case_problems(case):
    """in-process: real ExonCorrector on one generated case; only the clauses that hold for arbitrary events"""
    kw, io = run_correct_assigned_read(case)
    exons = [tuple(e) for e in case["exons"]]
    n_read = len(introns_between(exons))
    wf = kw["events"] is None or wellformed_events(kw["events"], n_read)
    if vlib.is_err(io):
        if wf and not any(case["flags"].values()) and io.get("error") != "index":
            return [("none_raises", "strategy none raised %s" % io)]
        return []
    if not wf:
        return []
    iso = [[tuple(e) for e in case["family"][case["iso_index"]]]]
    known = [tuple(k) for k in kw["known"]]
    probs = property_problems(io, exons, known, iso, case["delta"], case["flags"], check_valid=is_sd(exons))
    # terminal corrections apply only if an event of that kind is present
    evs = kw["events"] or []
    types = {e["t"] for e in evs}
    res = []
    for k, d in probs:
        res.append((k, d))
    if io and io[0][0] != exons[0][0] and not (types & {"fake_terminal_exon_left", "terminal_exon_misalignment_left"}):
        res.append(("start_changed", "start changed without a terminal event: %s" % (io[0],)))
    if io and io[-1][1] != exons[-1][1] and not (types & {"fake_terminal_exon_right", "terminal_exon_misalignment_right"}):
        res.append(("end_changed", "end changed without a terminal event: %s" % (io[-1],)))
    return res


ILL_LAST = {}


def illumina_sources(exons, short):
    """`IntronSource` of Props/C14Illumina.lean, written independently of the corrector: the read's introns, every
    short-read junction the 4-bp rule accepts for a read intron it overlaps, every member of a pair the skipped-exon rule
    accepts (<= 50 bp between the two, outer ends within 25 bp of the read intron's, not both equal); replacements
    strictly inside the read"""
    ri = [(exons[i][1] + 1, exons[i + 1][0] - 1) for i in range(len(exons) - 1) if exons[i][1] + 1 < exons[i + 1][0]]
    start, end = exons[0][0], exons[-1][1]
    src = set(ri)
    for i in ri:
        ov = [s for s in short if not (i[1] < s[0] or i[0] > s[1])]
        for s in ov:
            if (s == (i[0], i[1] + 4) or s == (i[0] - 4, i[1])) and start < s[0] and s[1] < end:
                src.add(s)
        for l in ov:
            if not (abs(i[0] - l[0]) <= 25 and start < l[0]):
                continue
            for r in ov:
                if l[1] < r[0] and r[0] - l[1] <= 50 and abs(r[1] - i[1]) <= 25 and r[1] < end and \
                        (l[0] != i[0] or r[1] != i[1]):
                    src.add(l)
                    src.add(r)
    return src


def illumina_problems(case):
    """the short-read clauses of C14 on the real IlluminaExonCorrector; `short` is used in list order when the case is
    `ordered`, else through a Python set"""
    M = _impl()
    exons = [tuple(e) for e in case["exons"]]
    short_l = [tuple(s) for s in case["short"]]
    short = set(short_l)
    corr = M["IL"].IlluminaExonCorrector.from_data(short_l if case.get("ordered") else short)
    out = guarded(lambda: vlib.canon(corr.correct_exons(list(exons))), 2.0)
    if vlib.is_err(out):
        if not exons:
            return []          # the empty block list is outside the property (no alignment)
        return [("illumina_raises", "correct_exons raised %s" % out)]
    out = [tuple(e) for e in out]
    ILL_LAST["changed"] = out != exons
    res = []
    domain = is_sd(exons)                                   # read blocks sorted, disjoint, well formed
    wf_short = all(a <= b for a, b in short)
    if not domain:
        return res
    if wf_short and (not out or not is_sd(out)):
        res.append(("illumina_invalid_blocks", "corrected blocks %s" % (out,)))
    if not out or (out[0][0] != exons[0][0] or out[-1][1] != exons[-1][1]):
        res.append(("illumina_ends_changed", "%s-%s -> %s" % (exons[0][0], exons[-1][1], out[:1] + out[-1:])))
    ri = introns_between(exons)
    left = {a for a, _ in ri} | {a for a, _ in short}
    right = {b for _, b in ri} | {b for _, b in short}
    for i in range(len(out) - 1):
        l, r = out[i][1] + 1, out[i + 1][0] - 1
        if l <= r and (l not in left or r not in right):
            res.append(("illumina_site_provenance", "intron (%d,%d) has a site that is neither the read's nor a short-read junction's" % (l, r)))
    # every block boundary: the read's end, or a site of an intron with a source inside the rules' tolerances
    src = illumina_sources(exons, short)
    after = {exons[0][0]} | {c[1] + 1 for c in src}
    before = {exons[-1][1]} | {c[0] - 1 for c in src}
    for b in out:
        if b[0] not in after:
            res.append(("illumina_site_tolerance", "block %s starts at %d: not the read's start and not right after a read intron "
                        "or a short-read junction accepted by the 4-bp / skipped-exon rule" % (b, b[0])))
        if b[1] not in before:
            res.append(("illumina_site_tolerance", "block %s ends at %d: not the read's end and not right before a read intron "
                        "or a short-read junction accepted by the 4-bp / skipped-exon rule" % (b, b[1])))
    if not any(not (i[1] < s_[0] or i[0] > s_[1]) for i in ri for s_ in short) and out != exons and \
            all(exons[k][1] + 1 < exons[k + 1][0] for k in range(len(exons) - 1)):
        res.append(("illumina_not_identity", "no short-read junction overlaps a read intron, yet %s -> %s" % (exons, out)))
    return res


def bed_printer_problems(exons, chrom_len=None):
    """real BEDPrinter on a valid block list must give a valid record that decodes to the blocks"""
    bed = BedHarness()
    try:
        kwb = {"assignment": True, "type": True, "gene_info": "present", "checker_kind": "all", "accepts": True,
               "print_corrected": True, "chrom": "chr1", "name": "r", "strand": "+", "exons": [], "corrected": exons}
        line = bed.call(kwb)
    finally:
        bed.close()
    if not isinstance(line, str):
        return [("bed_not_written", "no line for %s: %s" % (exons, line))]
    blocks, prob = validate_bed12(line.rstrip("\n").split("\t"), chrom_len)
    res = []
    if prob:
        res.append(("bed_invalid", prob))
    if blocks is not None and [tuple(b) for b in blocks] != [tuple(e) for e in exons]:
        res.append(("bed_wrong_blocks", "%s decodes to %s" % (exons, blocks)))
    return res


# ---- pipeline level

STRATEGIES = ["none", "default_pacbio", "conservative_ont", "default_ont", "all", "assembly"]


def strategy_flags():
    """flags per strategy, from the real set_splice_correction_options (falls back to the documented table)"""
    rp = guarded(real_presets, 20)
    if isinstance(rp, list):
        return {n: f for n, f in rp}
    doc = {"none": (0, 0, 0, 0, 0, 0), "default_pacbio": (1, 0, 1, 0, 0, 1), "conservative_ont": (1, 0, 1, 0, 0, 0),
           "default_ont": (1, 0, 1, 0, 1, 1), "all": (1, 1, 1, 1, 1, 1), "assembly": (0, 0, 1, 0, 0, 0)}
    return {n: dict(zip(G.FLAG_NAMES, [bool(x) for x in v])) for n, v in doc.items()}


def run_pipeline_case(ds_seed, delta, strategy, only_read=None, keep=None, dataset_kw=None, data_type="nanopore"):
    """generate the dataset, run the real pipeline with one strategy, check every BED record
    -> (list of failures [(kind, read, detail)], stats)"""
    import pipeline as P
    ds, truth = G.noisy_dataset(ds_seed, delta=delta, **(dataset_kw or {}))
    d = P.scratch("isoverif_c14_")
    try:
        reads = None
        if only_read is not None:
            reads = [r for r in ds.reads if r["name"] == only_read]
        paths = ds.write(os.path.join(d, "data"), reads=reads)
        return check_pipeline_run(P, d, paths, ds, truth, delta, strategy, data_type=data_type)
    finally:
        if keep is None:
            shutil.rmtree(d, ignore_errors=True)


def input_alignment(bam_exons, t, reported, polya_found):
    """reading rule: the input alignment of a read is its BAM block list after IsoQuant's polyA/polyT-exon trimming
    step (C16).  Decided independently of the corrector: the exon list that read_assignments.tsv reports is accepted as
    the input only if it is the BAM block list itself, the BAM block list without the terminal exons that the
    generator made of pure A / T, or (read reported PolyA=True) a contiguous sub-list of the BAM blocks.
    `polya_found == "unknown"`: the row does not print its additional_info (`noninformative` rows print `*`), so the
    PolyA flag cannot be read; the trimming is then decided from the exons column alone: a contiguous sub-list is
    accepted when it drops blocks only on a side where the generator aligned a polyT head / polyA tail exon, and at
    least those (audit 2-C C14 GAP 2: seed 555 r00041, an A-rich 8-bp exon trimmed together with the tail exon)."""
    cands = [bam_exons]
    h, tl = t.get("polyt_head_exons", 0), t.get("polya_tail_exons", 0)
    if h and len(bam_exons) > h:
        cands.append(bam_exons[h:])
    if tl and len(bam_exons) > tl:
        cands.append(bam_exons[:-tl])
    if reported is None or reported in cands:
        return reported if reported is not None else bam_exons
    n = len(reported)
    if polya_found is True and n >= 1 and any(reported == bam_exons[i:i + n] for i in range(len(bam_exons) - n + 1)):
        return reported
    if polya_found == "unknown" and n >= 1 and (h or tl):
        for i in range(len(bam_exons) - n + 1):
            cut_head, cut_tail = i, len(bam_exons) - n - i
            if reported == bam_exons[i:i + n] and (cut_head >= h if h else cut_head == 0) and \
                    (cut_tail >= tl if tl else cut_tail == 0):
                return reported
    return bam_exons


MON_WRAP = os.path.join(vlib.HERE, "mon_wrap.py")


def monitor_env(d, tag):
    """G3 (hypothesis audit): every pipeline run of this oracle goes through harness/mon_wrap.py, which evaluates on
    every real `ExonCorrector.correct_assigned_read` call the hypotheses the C14 theorems put on its arguments
    (`WellFormedRegions` of the events, `Spaced` exons, read region = ends of the exons, #introns, isoform inside the
    chromosome), and on every real `assign_to_isoform` call that no isoform match has a negative penalty (G7: `NonNegFirst`
    of the C15 reuse theorems; the events' index ranges are the hypothesis of Props/C15Penalty.lean)
    -> (wrapper, env, monitor file)"""
    mon = os.path.join(d, "mon_%s.jsonl" % tag)
    return MON_WRAP, {"MON_FILE": mon, "MON_SET": "c14events,penalty"}, mon


def monitor_failures(mon, stats=None):
    """violated interface hypotheses recorded by the wrapper -> [(kind, read, detail)]"""
    import mon_wrap
    calls, viol = mon_wrap.read_monitor(mon)
    if stats is not None:
        stats["corrector_calls"] = stats.get("corrector_calls", 0) + calls.get("c14events", 0)
        stats["assigner_calls"] = stats.get("assigner_calls", 0) + calls.get("penalty", 0)
    return [("hyp_" + str(r.get("kind")), r.get("read"),
             "hypothesis of the C14 theorems violated by what the real assigner hands to correct_assigned_read: %s"
             % {k: v for k, v in r.items() if k not in ("mon", "kind", "read")}) for r in viol]


MOVED_COPY_WINDOW = 12   # largest preset delta: an isoform intron this close to a read intron at both ends is a moved copy


def check_pipeline_run(P, d, paths, ds, truth, delta, strategy, flags_by_strategy=None, data_type="nanopore"):
    outdir = os.path.join(d, "out_" + strategy)
    wrap, menv, mon = monitor_env(d, strategy)
    rc, log = P.run_isoquant(outdir, P.std_args(paths, data_type=data_type,
                                                extra=["--splice_correction_strategy", strategy, "--delta", str(delta),
                                                       "--no_model_construction"]), wrapper=wrap, env=menv)
    stats = {"records": 0, "changed": 0, "reads": len(truth)}
    fails = monitor_failures(mon, stats)
    if rc != 0:
        return fails + [("pipeline_failed", None, "rc=%s: %s" % (rc, log[-600:]))], stats
    files = P.out_files(outdir)
    bedf = [f for n, f in files.items() if n.endswith("corrected_reads.bed")]
    tsvf = [f for n, f in files.items() if n.endswith("read_assignments.tsv")]
    if not bedf:
        return [("pipeline_failed", None, "no corrected_reads.bed in %s" % sorted(files))], stats
    flags = (flags_by_strategy or strategy_flags())[strategy]
    iso_of = {}
    polya = {}
    reported = {}
    for row in (P.read_assignments(tsvf[0]) if tsvf else []):
        if isinstance(row, dict) and row.get("isoform_id") not in (None, ".", ""):
            iso_of.setdefault(row["read_id"], []).append(row["isoform_id"])
        if isinstance(row, dict) and "PolyA=True" in row.get("additional_info", ""):
            polya[row["read_id"]] = True
        elif isinstance(row, dict) and row.get("additional_info", "").strip() == "*":
            polya.setdefault(row["read_id"], "unknown")
        if isinstance(row, dict) and row.get("exons"):
            try:
                reported.setdefault(row["read_id"], [tuple(int(x) for x in e.split("-")) for e in row["exons"].split(",")])
            except ValueError:
                pass
    tx = {tid: [tuple(e) for e in ex] for g in ds.genes for tid, ex in g["transcripts"]}
    known_by_chr = {}
    for g in ds.genes:
        for tid, ex in g["transcripts"]:
            known_by_chr.setdefault(g["chr"], set()).update(introns_between([tuple(e) for e in ex]))
    seen = set()
    for fields in P.read_bed(bedf[0]):
        stats["records"] += 1
        name = fields[3] if len(fields) > 3 else None
        t = truth.get(name)
        chrom_len = len(ds.chroms.get(fields[0], "")) or None
        blocks, prob = validate_bed12(fields, chrom_len)
        if prob:
            fails.append(("bed_invalid", name, prob + " | line: " + "\t".join(fields)))
        if blocks is None or t is None:
            if t is None:
                fails.append(("unknown_read", name, "record for a read that is not in the input"))
            continue
        if name in seen:
            fails.append(("duplicate_record", name, "two records for a read with one alignment"))
        seen.add(name)
        if fields[0] != t["chr"]:
            fails.append(("wrong_chromosome", name, "%s, aligned to %s" % (fields[0], t["chr"])))
        bam_exons = [tuple(e) for e in t["exons"]]
        exons = input_alignment(bam_exons, t, reported.get(name), polya.get(name))
        if exons != bam_exons:
            stats["trimmed"] = stats.get("trimmed", 0) + 1
        if [tuple(b) for b in blocks] != exons:
            stats["changed"] += 1
        isos = [tx[i] for i in iso_of.get(name, []) if i in tx]
        moved = None if (flags["intron_shifts"] or flags["terminal_exons"]) else delta
        for kind, detail in property_problems(blocks, exons, known_by_chr.get(t["chr"], set()), isos, delta, flags,
                                              check_valid=False, is_none=(strategy == "none"), moved_copy_delta=moved):
            fails.append((kind, name, detail + " | bam=%s tags=%s iso=%s" % (bam_exons, t["tags"], iso_of.get(name))))
    return fails, stats


def illumina_record_problems(blocks, exons, short):
    res = []
    out = [tuple(b) for b in blocks]
    exons = [tuple(e) for e in exons]
    if out[0][0] != exons[0][0] or out[-1][1] != exons[-1][1]:
        res.append(("illumina_ends_changed", "%s-%s -> %s-%s" % (exons[0][0], exons[-1][1], out[0][0], out[-1][1])))
    ri = introns_between(exons)
    left = {a for a, _ in ri} | {a for a, _ in short}
    right = {b for _, b in ri} | {b for _, b in short}
    for i in range(len(out) - 1):
        l, r = out[i][1] + 1, out[i + 1][0] - 1
        if l <= r and (l not in left or r not in right):
            res.append(("illumina_site_provenance", "intron (%d,%d) has a site that is neither the read's nor a short-read junction's" % (l, r)))
    return res


def run_illumina_pipeline(seed, strategy, flags_by_strategy=None):
    """pipeline with --illumina_bam: intergenic reads go through IlluminaExonCorrector, genic reads through ExonCorrector"""
    import pipeline as P
    ds, sh, truth, short = G.illumina_dataset(seed)
    d = P.scratch("isoverif_c14ill_")
    fails = []
    stats = {"records": 0, "changed": 0}
    try:
        paths = ds.write(os.path.join(d, "data"))
        sp = sh.write(os.path.join(d, "short"), bam_name="short.bam", write_ref=False)
        short_files = [sp["bam"]]
        if seed % 2 == 1:
            # every second scenario: a second short-read file with its own contig set (header {chrZ}; audit2-A F2) - the
            # records of the run must be what they are without it
            short_files.insert(0, own_contig_short_bam(os.path.join(d, "short_own"), seed))
        outdir = os.path.join(d, "out")
        wrap, menv, mon = monitor_env(d, "ill")
        rc, log = P.run_isoquant(outdir, P.std_args(paths, extra=["--illumina_bam"] + short_files + ["--splice_correction_strategy", strategy,
                                                                 "--delta", "6", "--no_model_construction"]), wrapper=wrap, env=menv)
        fails += monitor_failures(mon, stats)
        if rc != 0:
            return fails + [("pipeline_failed", None, "rc=%s: %s" % (rc, log[-600:]))], stats
        files = P.out_files(outdir)
        bedf = [f for n, f in files.items() if n.endswith("corrected_reads.bed")]
        if not bedf:
            return [("pipeline_failed", None, "no corrected_reads.bed")], stats
        flags = (flags_by_strategy or strategy_flags())[strategy]
        for fields in P.read_bed(bedf[0]):
            stats["records"] += 1
            name = fields[3] if len(fields) > 3 else None
            t = truth.get(name)
            blocks, prob = validate_bed12(fields, len(ds.chroms.get(fields[0], "")) or None)
            if prob:
                fails.append(("bed_invalid", name, prob + " | line: " + "\t".join(fields)))
            if blocks is None or t is None:
                continue
            exons = [tuple(e) for e in t["exons"]]
            if [tuple(b) for b in blocks] != exons:
                stats["changed"] += 1
            if t["intergenic"]:
                for kind, detail in illumina_record_problems(blocks, exons, short.get(t["chr"], set())):
                    fails.append((kind, name, detail + " | tags=%s" % t["tags"]))
            else:
                tx = {tid: [tuple(e) for e in ex] for g in ds.genes for tid, ex in g["transcripts"]}
                known = set()
                for ex in tx.values():
                    known.update(introns_between(ex))
                for kind, detail in property_problems(blocks, exons, known, [tx[t["iso"]]], 6, flags, check_valid=False,
                                                      is_none=(strategy == "none")):
                    fails.append((kind, name, detail))
        return fails, stats
    finally:
        shutil.rmtree(d, ignore_errors=True)


TINY_CASE = {"exons": [(1001, 1200), (1301, 1500), (1801, 2000)],
             "reads": {"tinyA": [(1050, 1200), (1301, 1500), (1797, 1800)], "tinyB": [(1201, 1204), (1301, 1500), (1801, 1950)],
                       "tinyC": [(1050, 1200), (1301, 1500), (1798, 1799)]}}


def run_tiny_case(strategy):
    """deterministic regression input: terminal exons shorter than delta on the wrong side of an annotated intron
    (before the fix: block sizes 0 / -1 in corrected_reads.bed)"""
    import pipeline as P
    from gen import synth
    ds = synth.Dataset(11)
    ds.add_chrom("chr1", 5000)
    ex = TINY_CASE["exons"]
    ds.add_gene("chr1", "G1", "+", [("T1", ex)])
    ref = ds.chroms["chr1"]
    comp = {"A": "C", "C": "G", "G": "T", "T": "A"}
    for name, exons in TINY_CASE["reads"].items():
        parts = []
        cig = ""
        for i, (a, b) in enumerate(exons):
            if i:
                cig += "%dN" % (a - exons[i - 1][1] - 1)
            cig += "%dM" % (b - a + 1)
            seg = ref[a - 1:b]
            parts.append("".join(comp[c] for c in seg) if b - a + 1 <= 4 else seg)
        ds.add_read(name, "chr1", exons[0][0] - 1, cig, seq="".join(parts))
    for k in range(3):
        ds.read_from_exons("n%d" % k, "chr1", ex)
    d = P.scratch("isoverif_c14tiny_")
    fails = []
    try:
        paths = ds.write(os.path.join(d, "data"))
        outdir = os.path.join(d, "out")
        wrap, menv, mon = monitor_env(d, "tiny")
        rc, log = P.run_isoquant(outdir, P.std_args(paths, extra=["--splice_correction_strategy", strategy, "--no_model_construction"]),
                                 wrapper=wrap, env=menv)
        fails += monitor_failures(mon)
        if rc != 0:
            return fails + [("pipeline_failed", None, "rc=%s: %s" % (rc, log[-600:]))]
        files = P.out_files(outdir)
        bedf = [f for n, f in files.items() if n.endswith("corrected_reads.bed")]
        n = 0
        for fields in P.read_bed(bedf[0]) if bedf else []:
            n += 1
            blocks, prob = validate_bed12(fields, 5000)
            if prob:
                fails.append(("bed_invalid", fields[3], prob + " | line: " + "\t".join(fields)))
        if n == 0:
            fails.append(("pipeline_failed", None, "no BED records"))
        return fails
    finally:
        shutil.rmtree(d, ignore_errors=True)


def oracle(ctx, disagreements, broken):
    rng = ctx.rng
    quick = ctx.tier == "quick"
    n_unit = 0
    # 1. disagreeing inputs first
    for dis in disagreements:
        op, inp = dis["op"], dis["input"]
        try:
            if op == "correct_assigned_read" and isinstance(inp, dict) and "exons" in inp:
                case = _case_from_kw(inp)
                if case:
                    for kind, detail in unit_case_problems(case):
                        ctx.fail(kind, {"level": "unit", "case": case}, detail)
            elif op in ("add_read_info", "bed_record") and isinstance(inp, dict):
                ex = inp.get("corrected") or inp.get("exons") or []
                if ex and is_sd([tuple(e) for e in ex]) and ex[0][0] >= 1:
                    for kind, detail in bed_printer_problems(ex):
                        ctx.fail(kind, {"level": "bed", "exons": ex}, detail)
            elif op == "ill_correct_exons" and isinstance(inp, dict) and "exons" in inp:
                case = {"exons": inp["exons"], "short": inp["short"], "ordered": True}
                for kind, detail in illumina_problems(case):
                    ctx.fail(kind, {"level": "illumina", "case": case}, detail)
        except Exception as ex:   # the oracle must survive malformed disagreement records
            ctx.notes.append("oracle: could not evaluate disagreement %s: %r" % (op, ex))
        n_unit += 1
    # 2. in-process generators
    presets = list(strategy_flags().items())
    kt = ["extra_intron_known", "intron_alternation_known", "exon_skipping_known", "alternative_structure_novel"]
    for _ in range(1500 if quick else 20000):
        case = G.corrector_case(rng, presets, kt, small=rng.random() < 0.4, malformed=False)
        for kind, detail in unit_case_problems(case):
            ctx.fail(kind, {"level": "unit", "case": case}, detail)
        n_unit += 1
    for _ in range(300 if quick else 3000):
        ex = G.rand_blocks(rng)
        for kind, detail in bed_printer_problems(ex):
            ctx.fail(kind, {"level": "bed", "exons": ex}, detail)
        n_unit += 1
    n_ill = 0
    n_ill_changed = 0
    for k_ in range(3000 if quick else 40000):
        case = G.illumina_case2(rng) if k_ % 2 else G.illumina_case(rng)
        probs = illumina_problems(case)
        for kind, detail in probs:
            ctx.fail(kind, {"level": "illumina", "case": case}, detail)
        n_ill += 1
        if ILL_LAST.get("changed"):
            n_ill_changed += 1
    # 3. the real pipeline on synthetic noisy data, all six strategies
    import pipeline as P
    flags_by = strategy_flags()
    plan = []
    base = ctx.seed % 100000
    fuzzy3 = ["default_ont", "default_pacbio", "none"]
    if quick:
        plan = [(base * 10 + 1, 6, "nanopore", STRATEGIES), (base * 10 + 2, rng.choice([4, 12]), "nanopore", STRATEGIES),
                (base * 10 + 3, 4, "pacbio_ccs", STRATEGIES),
                # explicit boundary tolerances: --delta 0 (exact comparison) and --delta 2
                (base * 10 + 4, 0, "nanopore", fuzzy3), (base * 10 + 5, 2, "pacbio_ccs", ["conservative_ont", "default_pacbio"])]
    else:
        plan = [(base * 10 + k, d, ("pacbio_ccs" if k % 3 == 0 else "nanopore"), STRATEGIES)
                for k, d in enumerate([6, 6, 6, 4, 4, 12, 12, 0, 2, 6, 8, 6, 6, 4, 6, 12, 1, 6, 3, 6, 6, 4, 6, 6, 0, 0, 2, 2], 1)]
    # regression of a corrected false alarm (audit 2-C C14 GAP 2): data set 555, read r00041 is reported `noninformative`
    # (additional_info `*`) with an A-rich 8-bp exon trimmed together with its polyA tail exon
    plan.append((555, 6, "nanopore", ["none"], {}))
    pstats = {"runs": 0, "records": 0, "changed": 0, "trimmed": 0}
    for entry in plan:
        ds_seed, delta, dtype, strategies = entry[:4]
        kw = entry[4] if len(entry) > 4 else ({} if quick else {"n_genes": 7, "reads_per_iso": 14})
        ds, truth = G.noisy_dataset(ds_seed, delta=delta, **kw)
        d = P.scratch("isoverif_c14_")
        try:
            paths = ds.write(os.path.join(d, "data"))
            for strat in strategies:
                fails, st = check_pipeline_run(P, d, paths, ds, truth, delta, strat, flags_by, data_type=dtype)
                pstats["runs"] += 1
                pstats["trimmed"] += st.get("trimmed", 0)
                pstats["records"] += st["records"]
                pstats["changed"] += st["changed"]
                pstats["corrector_calls_monitored"] = pstats.get("corrector_calls_monitored", 0) + st.get("corrector_calls", 0)
                pstats["assigner_calls_monitored"] = pstats.get("assigner_calls_monitored", 0) + st.get("assigner_calls", 0)
                ctx.count("pipeline:%s:records" % strat, st["records"])
                ctx.count("pipeline:%s:changed" % strat, st["changed"])
                per_kind = {}
                for kind, name, detail in fails:
                    per_kind.setdefault(kind, 0)
                    per_kind[kind] += 1
                    if per_kind[kind] <= 3:
                        ctx.fail(kind, {"level": "pipeline", "ds_seed": ds_seed, "delta": delta, "strategy": strat,
                                        "read": name, "dataset_kw": kw, "data_type": dtype}, detail)
        finally:
            shutil.rmtree(d, ignore_errors=True)
    # 4. deterministic regression input (tiny terminal exons) and the short-read pipeline path
    for strat in (["default_ont"] if quick else ["default_ont", "default_pacbio", "all"]):
        for kind, name, detail in run_tiny_case(strat):
            ctx.fail(kind, {"level": "tiny", "strategy": strat, "read": name}, detail)
        pstats["runs"] += 1
    ill_plan = [(base * 10 + 5, "default_ont"), (base * 10 + 6, "none")] if quick else \
        [(base * 10 + k, s_) for k, s_ in enumerate(["default_ont", "none", "all", "default_pacbio", "default_ont", "assembly"], 20)]
    istats = {"runs": 0, "records": 0, "changed": 0}
    for iseed, strat in ill_plan:
        fails, st = run_illumina_pipeline(iseed, strat, flags_by)
        istats["runs"] += 1
        istats["records"] += st["records"]
        istats["changed"] += st["changed"]
        istats["corrector_calls_monitored"] = istats.get("corrector_calls_monitored", 0) + st.get("corrector_calls", 0)
        per_kind = {}
        for kind, name, detail in fails:
            per_kind[kind] = per_kind.get(kind, 0) + 1
            if per_kind[kind] <= 3:
                ctx.fail(kind, {"level": "illumina_pipeline", "seed": iseed, "strategy": strat, "read": name}, detail)
    # 5. the hypothesis monitor itself (G3): it must have been reached, and its predicate must reject what it is there to
    #    reject (the inputs of `process_events_terminates`'s counterexample class: a range that ends before it starts,
    #    an index beyond the read introns, touching exons)
    import mon_wrap
    und, absent = (G.UNDEF, G.UNDEF), G.ABSENT
    selftest = [
        (([(10, 20), (31, 40), (61, 70)], 10, 70, [("intron_shift", (0, 1)), ("fake_micro_intron_retention", (absent, 1)),
                                                   ("none", und)], 2, (5, 90), 100), []),
        (([(10, 20), (31, 40), (61, 70)], 10, 70, [("intron_retention", (0, -1))], 2, (5, 90), 100), ["event_malformed"]),
        (([(10, 20), (31, 40), (61, 70)], 10, 70, [("intron_shift", (1, 2))], 2, (5, 90), 100), ["event_malformed"]),
        (([(10, 20), (21, 40)], 10, 40, [], 1, (5, 90), 100), ["exons_not_spaced"]),
        (([(10, 20), (31, 40)], 12, 40, [], 1, (0, 90), 80), ["read_region_stale", "isoform_outside_chromosome"]),
    ]
    for args, want in selftest:
        got = [k for k, _ in mon_wrap.c14_event_problems(*args, und, absent)]
        if got != want:
            ctx.notes.append("C14 hypothesis monitor self-test: %s gives %s, expected %s" % (args, got, want))
            ctx.fail("monitor_selftest", {"level": "monitor", "args": vlib.canon(args)}, "predicate gives %s, expected %s" % (got, want))
    monitored = pstats.get("corrector_calls_monitored", 0) + istats.get("corrector_calls_monitored", 0)
    if pstats["records"] and not monitored:
        ctx.notes.append("C14 hypothesis monitor: %d BED records but no monitored correct_assigned_read call: the hypotheses "
                         "WellFormedRegions / Spaced / read region were NOT checked on the real events in this run" % pstats["records"])
    ctx.extra["oracle"] = {"unit_cases": n_unit, "illumina_cases": n_ill, "illumina_changed": n_ill_changed,
                           "pipeline": pstats, "illumina_pipeline": istats,
                           "hypothesis_monitor": {"what": "WellFormedRegions / Spaced exons / read region = exon ends / intron count / "
                                                  "isoform inside the chromosome, on every real correct_assigned_read call of the "
                                                  "pipeline runs (harness/mon_wrap.py)", "calls": monitored}}


def _case_from_kw(kw):
    """rebuild a generator case from the model kwargs of a correct_assigned_read disagreement"""
    try:
        fam = [_exons_from_introns(kw["iso_region"], kw["iso_introns"])]
        extra = [k for k in kw["known"] if k not in kw["iso_introns"]]
        for k in extra:
            fam.append([[max(1, k[0] - 10), k[0] - 1], [k[1] + 1, k[1] + 10]])
        return {"family": fam, "iso_index": 0, "exons": kw["exons"], "delta": kw["delta"], "flags": kw["flags"],
                "err": kw["err"], "events": kw["events"] or [], "noninformative": kw["noninformative"],
                "no_match": kw["events"] is None}
    except Exception:
        return None


def _exons_from_introns(region, introns):
    ex = []
    s = region[0]
    for a, b in introns:
        ex.append([s, a - 1])
        s = b + 1
    ex.append([s, region[1]])
    return ex


def replay(ctx, failure):
    inp = failure["input"]
    lvl = inp.get("level")
    if lvl == "unit":
        return any(k == failure["kind"] for k, _ in unit_case_problems(inp["case"]))
    if lvl == "bed":
        return any(k == failure["kind"] for k, _ in bed_printer_problems(inp["exons"]))
    if lvl == "illumina":
        return any(k == failure["kind"] for k, _ in illumina_problems(inp["case"]))
    if lvl == "monitor":
        return True
    if lvl == "tiny":
        return any(k == failure["kind"] for k, _, _ in run_tiny_case(inp["strategy"]))
    if lvl == "illumina_pipeline":
        fails, _ = run_illumina_pipeline(inp["seed"], inp["strategy"])
        return any(k == failure["kind"] and (inp.get("read") is None or n == inp.get("read")) for k, n, _ in fails)
    if lvl == "pipeline":
        fails, _ = run_pipeline_case(inp["ds_seed"], inp["delta"], inp["strategy"], dataset_kw=inp.get("dataset_kw"),
                                     data_type=inp.get("data_type", "nanopore"))
        return any(k == failure["kind"] and (inp.get("read") is None or n == inp.get("read")) for k, n, _ in fails)
    return False


def matches_finding(failure, entry):
    return failure.get("kind") == entry.get("kind")
