"""C11 extension — multimapper resolver (Model/Resolver.lean, C08): translation of all records of a read.
Theorems: lean/IsoVerif/Props/C11Resolver.lean.  Real functions: src/multimap_resolver.py MultimapResolver.resolve,
src/dataset_processor.py ReadAssignmentLoader.get_next, src/intron_graph.py IntronCollector.collect_introns /
IntronGraph.construct (adapters of props/C08.py, props/C08flow.py; model through the C08 driver ops)."""
import itertools

import vlib
from gen import c11gen as T
from gen import resolver as G
from props.c11ext import Rel

PROPS = ["IsoVerif/Props/C11Resolver.lean"]
TARGETS = ["IsoVerif.Props.C11Resolver"]

KS = [1, 255, 256, 1000, -7, -95, -250]      # -95 / -250: region starts / read starts reach 0 and below


def _c08():
    from props import C08 as M
    return M


def _flow():
    from props import C08flow as M
    return M


# ------------------------------------------------------------------------------------------------
# transformations (Python twins of Model/C11SymGraph.lean: shiftRec, shiftFull, shiftDict)

def shift_rec(k, d):
    e = dict(d)
    e["start"] = d["start"] + k
    e["end"] = d["end"] + k
    e["region"] = [d["region"][0] + k, d["region"][1] + k]
    return e


def shift_recs(k, l):
    return [shift_rec(k, d) for d in l]


def shift_full(k, f):
    e = dict(f)
    e["introns"] = [[a + k, b + k] for a, b in f["introns"]]
    return e


def shift_dict(k, d):
    return [[rid, shift_recs(k, recs)] for rid, recs in d]


def shift_edges(k, edges):
    return [[[a[0] + k, a[1] + k], [b[0] + k, b[1] + k]] for a, b in edges]


def _retained(v):
    if vlib.is_err(v):
        return v
    return [r for r in v if r["atype"] != "suspended"]


def _retained_ids(v):
    if vlib.is_err(v):
        return v
    return [[r["aid"], r["atype"], r["gtype"], r["mm"], r["iso"]] for r in v if r["atype"] != "suspended"]


def _sorted(v):
    return v if vlib.is_err(v) else sorted(vlib.canon(v))


def _same_sorted(a, b):
    return vlib.same(_sorted(a), _sorted(b))


def _nontrivial_resolve(kw, v):
    return _c08()._nontrivial_resolve(v)


RELS = [
    Rel("S.resolve", "shift_equivariant_resolve",
        model=lambda kw: vlib.req("C08.resolve", **kw),
        impl=lambda kw: _c08().impl_resolve(kw["strategy"], kw["recs"]),
        tin=lambda par, kw: {"strategy": kw["strategy"], "recs": shift_recs(par["k"], kw["recs"])},
        tout=lambda par, kw, v: shift_recs(par["k"], v),
        nontrivial=_nontrivial_resolve),
    # the retained set alone (same indices / assignment ids / types) - the clause of the property
    Rel("S.resolve_retained", "shift_equivariant_retained / shift_equivariant_retained_ids",
        model=lambda kw: vlib.req("C08.resolve", **kw),
        impl=lambda kw: _c08().impl_resolve(kw["strategy"], kw["recs"]),
        tin=lambda par, kw: {"strategy": kw["strategy"], "recs": shift_recs(par["k"], kw["recs"])},
        tout=lambda par, kw, v: shift_recs(par["k"], v),
        eq=lambda a, b: vlib.same(_retained(a), _retained(b)) and vlib.same(_retained_ids(a), _retained_ids(b)),
        nontrivial=_nontrivial_resolve),
    Rel("S.resolver_load", "shift_equivariant_load",
        model=lambda kw: vlib.req("C08.load", **kw),
        impl=lambda kw: _flow().real_load(kw["dict"], kw["ras"]),
        tin=lambda par, kw: {"dict": shift_dict(par["k"], kw["dict"]), "ras": [shift_full(par["k"], f) for f in kw["ras"]]},
        tout=lambda par, kw, v: [shift_full(par["k"], f) for f in v],
        nontrivial=lambda kw, v: not vlib.is_err(v) and 0 < len(v) < len(kw["ras"]) and any(f["introns"] for f in v)),
    Rel("S.resolver_collect_introns", "shift_equivariant_collectIntrons",
        model=lambda kw: vlib.req("C08.collect_introns", **kw),
        impl=lambda kw: _flow().real_collect_introns(kw["storage"]),
        tin=lambda par, kw: {"storage": [shift_full(par["k"], f) for f in kw["storage"]]},
        tout=lambda par, kw, v: [[a + par["k"], b + par["k"]] for a, b in v],
        eq=_same_sorted,
        nontrivial=lambda kw, v: not vlib.is_err(v) and len(v) > 0),
    Rel("S.resolver_graph_edges", "shift_equivariant_graphEdges",
        model=lambda kw: vlib.req("C08.graph_edges", **kw),
        impl=lambda kw: _flow().real_graph_edges(kw["discarded"], kw["storage"]),
        tin=lambda par, kw: {"discarded": [[a + par["k"], b + par["k"]] for a, b in kw["discarded"]],
                             "storage": [shift_full(par["k"], f) for f in kw["storage"]]},
        tout=lambda par, kw, v: shift_edges(par["k"], v),
        eq=_same_sorted,
        nontrivial=lambda kw, v: not vlib.is_err(v) and len(v) > 0),
]


# ------------------------------------------------------------------------------------------------
# cases

def _tie_lists():
    """the tie-break of select_noninformative: equal overlap, the components of the key decide one after the other"""
    base = (0, 100, 140, (90, 200))
    variants = [base, (1, 100, 140, (90, 200)),        # chromosome decides
                (0, 100, 140, (80, 190)),               # region start decides (same overlap 41)
                (0, 95, 135, (90, 200)),                # start decides
                (0, 100, 140, (90, 260))]               # only the region end differs: a full tie on the key
    out = []
    for a, b in itertools.permutations(range(len(variants)), 2):
        out.append([G.rec(1, variants[a], "noninformative", True), G.rec(2, variants[b], "intergenic", False)])
    # region starts whose decimal representations change length under the shifts (95 / 105, read inside both regions)
    digits = [(0, 110, 150, (95, 200)), (0, 110, 150, (105, 210)), (0, 110, 150, (8, 160))]
    for a, b in itertools.permutations(range(len(digits)), 2):
        out.append([G.rec(1, digits[a], "noninformative", True), G.rec(2, digits[b], "noninformative", False)])
    for a, b, c in itertools.permutations(range(len(variants)), 3):
        out.append([G.rec(1, variants[a], "noninformative", False), G.rec(2, variants[b], "noninformative", True),
                    G.rec(3, variants[c], "noninformative", True)])
    return out


def cases(ctx):
    rng = ctx.rng
    quick = ctx.tier == "quick"
    out = []
    lists = []
    # exhaustive: pairs over the record universe (sampled in quick), typed triples over the layouts
    U = G.record_universe()
    pairs = list(itertools.product(U, U))
    for a, b in rng.sample(pairs, 1200 if quick else 12000):
        lists.append(G.build([a, b]))
    lay = G.layouts3()
    triples = list(G.all_typed_lists(3, lay if not quick else [lay[0], lay[2], lay[4]]))
    lists += rng.sample(triples, 800 if quick else 8000)
    ties = _tie_lists()
    lists += ties
    for _ in range(1200 if quick else 12000):
        lists.append(G.rand_list(rng, rng.randint(2, 6), G.TYPES if rng.random() < 0.85 else G.ALL_TYPES, dup_rate=0.25))
    lists.append([])                 # resolve([]) returns the list; one record likewise
    lists.append(G.build([U[0]]))
    ctx.extra["c11x_resolver"] = {"lists": len(lists), "tie_lists": len(ties), "shifts": KS}
    for i, l in enumerate(lists):
        k = KS[i % len(KS)] if rng.random() < 0.7 else rng.choice([2, 3, 4099, -1, -100, -141])
        r = rng.random()
        strategy = "take_best" if r < 0.8 else ("merge" if r < 0.9 else "ignore_multimapper")
        kw = {"strategy": strategy, "recs": l}
        out.append(("S.resolve", {"k": k}, kw))
        if i % 3 == 0:
            out.append(("S.resolve_retained", {"k": k}, kw))
    # loader / graph input
    flow = _flow()
    for _ in range(300 if quick else 3000):
        dict_, ras = flow.gen_loader_case(rng)
        k = rng.choice(KS)
        out.append(("S.resolver_load", {"k": k}, {"dict": dict_, "ras": ras}))
        introns = sorted(set(tuple(i) for f in ras for i in f["introns"]))
        disc = [list(i) for i in introns if rng.random() < 0.15]
        out.append(("S.resolver_collect_introns", {"k": k}, {"storage": ras}))
        out.append(("S.resolver_graph_edges", {"k": k}, {"discarded": disc, "storage": ras}))
    return out


# ------------------------------------------------------------------------------------------------
# the model's transformations are the harness's

def transformation_checks(ctx):
    rng = ctx.rng
    flow = _flow()
    lines, exp = [], []
    for _ in range(25):
        k = rng.choice(KS)
        recs = G.rand_list(rng, rng.randint(0, 5), G.ALL_TYPES)
        dict_, ras = flow.gen_loader_case(rng)
        edges = [[[a, a + 7], [a + 20, a + 30]] for a in (rng.randint(1, 500) for _ in range(3))]
        lines += [vlib.req("C11.T.shift_recs", k=k, recs=recs), vlib.req("C11.T.shift_fulls", k=k, ras=ras),
                  vlib.req("C11.T.shift_dict", k=k, dict=dict_), vlib.req("C11.T.shift_edges", k=k, edges=edges)]
        exp += [shift_recs(k, recs), [shift_full(k, f) for f in ras], shift_dict(k, dict_), shift_edges(k, edges)]
    outs = ctx.driver.run(lines)
    for ln, mo, io in zip(lines, outs, exp):
        ctx.evaluations += 1
        op = ln.split(" ", 1)[0]
        ctx.count("op:" + op[4:])
        ctx.traces_validated += 1
        if mo != vlib.canon(io):
            ctx.disagree(op[4:], ln.split(" ", 1)[1][:400], mo, vlib.canon(io))
        elif mo:
            ctx.mark_nontrivial([op, ln])
