"""C11 extension, part `lists` — the reflection theorems of Props/C11MirrorLists.lean (merge_ranges, split_exons,
truncate_read_to_polya, set_profiles).

The four relations `M.merge_ranges`, `M.split_exons`, `M.truncate_read_to_polya`, `M.isoform_profile` are already
evaluated by props/C11.py (`impl_rel`, `in_domain` = the hypotheses of the theorems).  This module adds, in the c11ext
framework (plain model values through C19's driver ops, real functions through C19's `impl_call`):

  * the `_witness` theorems, replayed on model AND real code (domain "witness": the relation must FAIL on both);
  * inputs that the theorems newly cover and C11.py's generator does not produce: both tails at once and unsorted /
    overlapping (well-formed) exon lists for truncate_read_to_polya; touching and nested-free merges; nested known
    features and genome-scale instances for set_profiles; exons with negative coordinates for split_exons
    (`SplitExonsMirror` holds without a sign condition);
  * the reflection of the GENE profile (and range) of the read-profile constructor `construct_profile_for_features`
    (Props/C11MirrorReadProfiles.lean, `mirror_dual_constructOverlapping_gene_partial`) in exactly the hypotheses of the
    theorem, with its two witnesses: a known feature strictly inside another, and the direction-dependent READ marks (relation `M.lists.overlapping_full`, evaluated on the witness only).
"""
import itertools

import vlib
from gen import intervals as G
from gen import c11gen as T
from props import c11ext as X

PROPS = ["IsoVerif/Props/C11MirrorLists.lean", "IsoVerif/Props/C11MirrorReadProfiles.lean"]
TARGETS = ["IsoVerif.Props.C11MirrorLists", "IsoVerif.Props.C11MirrorReadProfiles"]


def _c19():
    from props import C19 as M
    return M


def _tl(l):
    return [tuple(x) for x in l]


def _wf(r):
    return r[0] <= r[1]


def _impl(op):
    return lambda kw: _c19().impl_call(op, kw)


def _model(op):
    return lambda kw: vlib.req("C19." + op, **kw)


def _key(par, kw):
    return vlib.canon([par, kw])


def _mirror_prof(par, kw, r):
    n = len(r["profile"])
    return {"profile": r["profile"][::-1], "range": [n - r["range"][1], n - r["range"][0]]}


# ------------------------------------------------------------------------------------------------
# witnesses (the inputs of the `_witness` theorems; the relation must fail on model and code)

W_MERGE = [({"L": 20}, {"l1": [(5, 6), (1, 2)], "l2": [(3, 4)]}),             # merge_mirror_unsorted_witness
           ({"L": 20}, {"l1": [(1, 5), (3, 8)], "l2": [(2, 4)]})]             # merge_mirror_overlapping_witness
W_SPLIT = [({"L": 4}, {"l": [(1, 3), (2, 6)]})]                               # split_exons_mirror_sentinel_witness
W_TRUNC = [({"L": 40}, {"l": [(1, 5), (10, 12), (20, 30)], "a": 1, "t": -1}),     # truncate_mirror_tail_outside_witness
           ({"L": 40}, {"l": [(1, 5), (10, 12), (20, 30)], "a": 10, "t": 12}),    # truncate_mirror_crossed_tails_witness
           ({"L": 10}, {"l": [(1, 5), (8, 20)], "a": 12, "t": -1}),               # truncate_mirror_sentinel_witness
           ({"L": 40}, {"l": [(1, 2), (10, 5), (20, 30)], "a": 8, "t": 6})]       # truncate_mirror_malformed_witness
W_PROF = [({"L": 10}, {"features": [(5, 6)], "tf": [(1, 2), (5, 6)], "region": (1, 6), "cmp": "equal"}),      # …missing_feature…
          ({"L": 10}, {"features": [(1, 2), (3, 4), (1, 2)], "tf": [(1, 2)], "region": (1, 2), "cmp": "equal"}),  # …duplicate…
          ({"L": 10}, {"features": [(5, 6)], "tf": [(1, 2), (5, 6)], "region": (1, 6), "cmp": "contains"})]   # …empty_exon…

# the input of the former `intron_read_profile_end_tie_witness` (mapped span (1,5) sharing the LEFT end of the known intron
# (1,9), shorter than the absence threshold): since the repair of overlaps_at_least (audit2-C G7) an ordinary case of the
# relation -- it must HOLD on model and code (the pre-fix primitive keeps its witness: intron_read_profile_end_tie_buggy_witness)
REG_OVG = [({"L": 9}, {"kind": "intron", "known": [(1, 9)], "gene_region": (1, 9), "read": [], "mapped": (1, 5),
                       "polya": -1, "polyt": -1, "d": 0, "abs_d": 10}),
           ({"L": 9}, {"kind": "intron", "known": [(1, 9)], "gene_region": (1, 9), "read": [], "mapped": (5, 9),
                       "polya": -1, "polyt": -1, "d": 0, "abs_d": 10})]
W_OVG = [({"L": 100}, {"kind": "exon", "known": [(10, 60), (20, 30)], "gene_region": (10, 60), "read": [(2, 6), (51, 56)],   # overlapping_nested_features_witness
                       "mapped": (35, 36), "polya": -1, "polyt": -1, "d": 0, "abs_d": 0})]
W_OVF = [({"L": 100}, {"kind": "exon", "known": [(10, 20), (35, 60)], "gene_region": (35, 36), "read": [(30, 40)],           # overlapping_read_marks_direction_witness
                       "mapped": (30, 40), "polya": -1, "polyt": -1, "d": 0, "abs_d": 0})]

_WKEYS = {name: [_key(p, k) for p, k in ws] for name, ws in
          (("M.lists.merge_ranges", W_MERGE), ("M.lists.split_exons", W_SPLIT), ("M.lists.truncate_read_to_polya", W_TRUNC),
           ("M.lists.isoform_profile", W_PROF), ("M.lists.overlapping_gene", W_OVG), ("M.lists.overlapping_full", W_OVF))}


def _witness(name, par, kw):
    return _key(par, kw) in _WKEYS[name]


# ------------------------------------------------------------------------------------------------
# domains = hypotheses of the theorems

def dom_merge(par, kw):
    if _witness("M.lists.merge_ranges", par, kw):
        return "witness"
    return G.is_sd(kw["l1"]) and G.is_sd(kw["l2"])


def dom_split(par, kw):
    if _witness("M.lists.split_exons", par, kw):
        return "witness"
    l = _tl(kw["l"])
    return all(_wf(e) for e in l) and all(x != -1 and y + 1 != -1 for x, y in l + T.mirror_l(par["L"], l))


def dom_trunc(par, kw):
    if _witness("M.lists.truncate_read_to_polya", par, kw):
        return "witness"
    L, l, pa, pt = par["L"], _tl(kw["l"]), kw["a"], kw["t"]
    if not all(_wf(e) for e in l):
        return False
    if pa != -1 and not (any(e[0] < pa for e in l) and L + 1 - pa != -1):
        return False
    if pt != -1 and not (any(pt < e[1] for e in l) and L + 1 - pt != -1):
        return False
    return pa == -1 or pt == -1 or pt < pa


def dom_prof(par, kw):
    if _witness("M.lists.isoform_profile", par, kw):
        return "witness"
    feats, tf = _tl(kw["features"]), _tl(kw["tf"])
    if kw["cmp"] == "equal":
        it = iter(feats)
        return len(set(feats)) == len(feats) and all(f in it for f in tf)
    return G.is_sd(feats) and G.is_sd(tf) and all(any(f[0] <= k[0] and k[1] <= f[1] for k in feats) for f in tf)


def _mono(xs):
    return all(xs[i] <= xs[i + 1] for i in range(len(xs) - 1))


def ov_hypotheses(par, kw):
    """hypotheses of mirror_dual_constructOverlapping_gene_partial (+ the exon / intron instances)"""
    L, d = par["L"], kw["d"]
    known, read = _tl(kw["known"]), _tl(kw["read"])
    if d < 0:
        return False
    if not (_mono([k[0] for k in known]) and _mono([k[1] for k in known])):      # SortedStarts, SortedEnds
        return False
    if any(k[1] - k[0] < d for k in known):                                        # LongerThan
        return False
    if not all(_wf(r) for r in read):                                              # WFR
        return False
    if any(read[i][1] + d >= read[j][0] for i in range(len(read)) for j in range(i + 1, len(read))):   # SepBy
        return False
    if kw["kind"] == "intron":
        if not _wf(tuple(kw["mapped"])):
            return False
    return all(p == -1 or L + 1 - p != -1 for p in (kw["polya"], kw["polyt"]))


def dom_ovg(par, kw):
    if _witness("M.lists.overlapping_gene", par, kw):
        return "witness"
    return ov_hypotheses(par, kw)


def dom_ovf(par, kw):
    return "witness" if _witness("M.lists.overlapping_full", par, kw) else False


def _tin_ov(par, kw):
    L = par["L"]
    return dict(kw, known=_ml(L, kw["known"]), gene_region=T.mirror_iv(L, tuple(kw["gene_region"])), read=_ml(L, kw["read"]),
                mapped=T.mirror_iv(L, tuple(kw["mapped"])), polya=T.mirror_pos(L, kw["polyt"]), polyt=T.mirror_pos(L, kw["polya"]))


def _tout_ov(par, kw, r):
    n = len(r["gene"])
    return {"gene": r["gene"][::-1], "read": r["read"][::-1], "range": [n - r["range"][1], n - r["range"][0]]}


def _gene_only(r):
    return r if vlib.is_err(r) or not isinstance(r, dict) else {k: v for k, v in r.items() if k != "read"}


def _ml(L, l):
    return T.mirror_l(L, _tl(l))


RELS = [
    X.Rel("M.lists.merge_ranges", "mirror_dual_mergeRanges", _model("merge_ranges"), _impl("merge_ranges"),
          tin=lambda par, kw: {"l1": _ml(par["L"], kw["l1"]), "l2": _ml(par["L"], kw["l2"])},
          tout=lambda par, kw, v: _ml(par["L"], v), domain=dom_merge,
          nontrivial=lambda kw, v: not vlib.is_err(v) and len(v) < len(kw["l1"]) + len(kw["l2"])),
    X.Rel("M.lists.split_exons", "mirror_dual_splitExons", _model("split_exons"), _impl("split_exons"),
          tin=lambda par, kw: {"l": _ml(par["L"], kw["l"])},
          tout=lambda par, kw, v: _ml(par["L"], v), domain=dom_split,
          nontrivial=lambda kw, v: not vlib.is_err(v) and len(v) > 1),
    X.Rel("M.lists.truncate_read_to_polya", "mirror_dual_truncateReadToPolya", _model("truncate_read_to_polya"),
          _impl("truncate_read_to_polya"),
          tin=lambda par, kw: {"l": _ml(par["L"], kw["l"]), "a": T.mirror_pos(par["L"], kw["t"]),
                               "t": T.mirror_pos(par["L"], kw["a"])},
          tout=lambda par, kw, v: _ml(par["L"], v), domain=dom_trunc,
          nontrivial=lambda kw, v: not vlib.is_err(v) and vlib.canon(v) != vlib.canon(kw["l"])),
    X.Rel("M.lists.isoform_profile", "mirror_dual_isoform_profiles", _model("isoform_profile"), _impl("isoform_profile"),
          tin=lambda par, kw: dict(kw, features=_ml(par["L"], kw["features"]), tf=_ml(par["L"], kw["tf"]),
                                   region=T.mirror_iv(par["L"], tuple(kw["region"]))),
          tout=_mirror_prof, domain=dom_prof,
          nontrivial=lambda kw, v: not vlib.is_err(v) and 1 in v["profile"] and v["profile"] != v["profile"][::-1]),
    X.Rel("M.lists.overlapping_gene", "mirror_dual_constructOverlapping_gene_partial", _model("overlapping_profile"),
          _impl("overlapping_profile"), tin=_tin_ov, tout=_tout_ov, domain=dom_ovg,
          eq=lambda a, b: vlib.same(_gene_only(a), _gene_only(b)),
          nontrivial=lambda kw, v: not vlib.is_err(v) and len(set(v["gene"])) > 1 and v["gene"] != v["gene"][::-1]),
    X.Rel("M.lists.overlapping_full", "overlapping_read_marks_direction_witness", _model("overlapping_profile"),
          _impl("overlapping_profile"), tin=_tin_ov, tout=_tout_ov, domain=dom_ovf),
]


# ------------------------------------------------------------------------------------------------
# cases

def _rand_wf_list(rng, n, maxc):
    """well-formed blocks in arbitrary order, overlaps allowed"""
    out = []
    for _ in range(n):
        a = rng.randint(1, maxc)
        out.append((a, a + rng.choice([0, 1, 2, 3, 7])))
    return out


def _nested_features(rng):
    """distinct, lexicographically sorted, possibly nested known features (exons of several isoforms) and one
    transcript = a sorted disjoint selection of them"""
    n = rng.randint(2, 12)
    feats = set()
    pos = rng.randint(100, 10 ** 6)
    for _ in range(n):
        ln = rng.choice([30, 80, 150, 1000])
        feats.add((pos, pos + ln))
        if rng.random() < 0.4:
            feats.add((pos + rng.choice([0, 10]), pos + ln - rng.choice([0, 10, 20])))
        if rng.random() < 0.3:
            feats.add((pos - 15, pos + ln + 40))
        if rng.random() < 0.3:
            feats.add((pos + ln, pos + ln + 30))        # shares exactly its first base with the exon's last
        if rng.random() < 0.3:
            feats.add((pos - 30, pos))                  # shares exactly its last base with the exon's first
        pos += ln + rng.choice([1, 50, 500, 4000])
    feats = sorted(feats)
    tf = []
    for f in feats:
        if rng.random() < 0.5 and (not tf or tf[-1][1] < f[0]):
            tf.append(f)
    return feats, tf


def cases(ctx):
    rng = ctx.rng
    quick = ctx.tier == "quick"
    out = []
    for name, ws in (("M.lists.merge_ranges", W_MERGE), ("M.lists.split_exons", W_SPLIT),
                     ("M.lists.truncate_read_to_polya", W_TRUNC), ("M.lists.isoform_profile", W_PROF),
                     ("M.lists.overlapping_gene", W_OVG), ("M.lists.overlapping_full", W_OVF)):
        out += [(name, p, k) for p, k in ws]
    out += [("M.lists.overlapping_gene", p, k) for p, k in REG_OVG]
    # --- truncate_read_to_polya: both tails, exhaustive over all sorted disjoint lists <= 3 over 1..U
    U = 6 if quick else 8
    lists = [l for l in G.all_sd_lists(U, 3) if l]
    ctx.extra["lists_truncate_universe"] = {"max_coord": U, "max_len": 3, "lists": len(lists), "tails": "all pa, pt in -1..U+1"}
    for l in lists:
        for pa in range(-1, U + 2):
            for pt in range(-1, U + 2):
                if pa != -1 and pt != -1:
                    out.append(("M.lists.truncate_read_to_polya", {"L": U + 3}, {"l": l, "a": pa, "t": pt}))
    for _ in range(1500 if quick else 20000):      # unsorted / overlapping well-formed lists: the theorem needs no order
        l = _rand_wf_list(rng, rng.randint(1, 5), 30)
        pa = rng.choice([-1, rng.randint(0, 40)])
        pt = rng.choice([-1, rng.randint(0, 40)])
        out.append(("M.lists.truncate_read_to_polya", {"L": 60}, {"l": l, "a": pa, "t": pt}))
    for _ in range(600 if quick else 8000):      # genome scale, both tails inside the read
        l = G.rand_sd_list(rng, rng.randint(1, 30), 10 ** 9)
        pt = G.rand_point(rng, l[:max(1, len(l) // 2)])
        pa = G.rand_point(rng, l[len(l) // 2:])
        out.append(("M.lists.truncate_read_to_polya", {"L": 3 * 10 ** 9}, {"l": l, "a": pa, "t": rng.choice([pt, pt, -1])}))
    # --- merge_ranges: touching blocks (not fused) next to overlapping ones (fused)
    for _ in range(600 if quick else 8000):
        l1 = G.rand_sd_list(rng, rng.randint(1, 12), 10 ** 6)
        l2 = []
        for a, b in l1:
            r = rng.random()
            if r < 0.3:
                l2.append((b + 1, b + rng.choice([1, 5])))          # touches the end of a block of l1
            elif r < 0.5:
                l2.append((b, b + rng.choice([0, 3])))              # shares exactly one base
        l2 = [x for i, x in enumerate(l2) if i == 0 or l2[i - 1][1] < x[0]]
        out.append(("M.lists.merge_ranges", {"L": 2 * 10 ** 6}, {"l1": l1, "l2": l2}))
        out.append(("M.lists.merge_ranges", {"L": 2 * 10 ** 6}, {"l1": l2, "l2": l1}))
    out.append(("M.lists.merge_ranges", {"L": 9}, {"l1": [], "l2": []}))       # assertion error on both sides
    # --- split_exons: negative coordinates (SplitExonsMirror has no sign condition), nested / abutting / duplicated borders
    for _ in range(500 if quick else 6000):
        off = rng.choice([0, -50, -10 ** 6])
        ex = [(a + off, b + off) for a, b in G.rand_exon_set(rng, rng.randint(1, 12), 100)]
        out.append(("M.lists.split_exons", {"L": rng.choice([-3, 7, 200])}, {"l": ex}))
    # --- set_profiles: nested known features (exact comparator); split-exon blocks of real split_exons (containment)
    GI = _c19()._impl()[1]
    for _ in range(600 if quick else 8000):
        feats, tf = _nested_features(rng)
        if tf:
            region = (tf[0][0], tf[-1][1])
            out.append(("M.lists.isoform_profile", {"L": 2 * 10 ** 6},
                        {"features": feats, "tf": tf, "region": region, "cmp": "equal"}))
            sd = [f for i, f in enumerate(feats) if all(g[1] < f[0] for g in feats[:i])]
            exons = sorted(set(sd + tf))
            blocks = _tl(GI.GeneInfo.split_exons(exons))
            out.append(("M.lists.isoform_profile", {"L": 2 * 10 ** 6},
                        {"features": blocks, "tf": tf, "region": region, "cmp": "contains"}))
    # --- read profiles (gene part): C19's small universe filtered by the hypotheses + genome-like instances with ties,
    #     skipped / extra features, tails; known features with variant starts / ends but none strictly inside another
    small = G.overlapping_profile_cases(rng, True)
    for op, kw in rng.sample(small, min(len(small), 4000 if quick else len(small))):
        mx = max([x for l_ in (kw["known"], kw["read"]) for r in l_ for x in r] + [10])
        out.append(("M.lists.overlapping_gene", {"L": mx + rng.randint(1, 5)}, kw))
    for _ in range(800 if quick else 10000):
        out += [("M.lists.overlapping_gene", p, k) for p, k in _genome_read_profile_cases(rng)]
    return out


def _genome_read_profile_cases(rng):
    d = rng.choice([0, 4, 6, 12])
    exons = G.rand_sd_list(rng, rng.randint(2, 10), 10 ** 6)
    fixed, pos = [], 0
    for a, b in exons:                       # features and gaps longer than delta
        a = max(a, pos + 40)
        b = max(b, a + 29)
        fixed.append((a, b))
        pos = b
    exons = fixed
    known = set(exons)
    for a, b in exons:                       # variants: shifted start or end (never strictly nested)
        r = rng.random()
        if r < 0.25:
            known.add((a + rng.choice([1, 2, 3, 5]), b + rng.choice([0, 1, 4])))
        elif r < 0.4:
            known.add((a - rng.choice([1, 3]), b - rng.choice([0, 2])))
    known = sorted(known)
    read = []
    for a, b in exons:
        if rng.random() < 0.2:
            continue
        read.append((a + rng.choice([0, 0, 0, 2, -2, 5, -7, 11]), b + rng.choice([0, 0, 0, 2, -2, 5, -7, 11])))
    if not read:
        read = [exons[0]]
    L = known[-1][1] + 10 ** 4
    pa = rng.choice([-1, -1, read[-1][1], read[-1][1] - 3, read[len(read) // 2][1]])
    pt = rng.choice([-1, -1, read[0][0], read[0][0] + 3])
    out = []
    ex = {"kind": "exon", "known": known, "gene_region": (known[0][0], known[-1][1]), "read": read,
          "mapped": (read[0][1] + d, read[-1][0] - d), "polya": pa, "polyt": pt, "d": d, "abs_d": 0}
    out.append(({"L": L}, ex))
    ik = sorted(set((known[i][1] + 1, known[j][0] - 1) for i in range(len(known)) for j in range(i + 1, min(i + 3, len(known)))
                    if known[i][1] + 30 < known[j][0]))
    ir = [(read[i][1] + 1, read[i + 1][0] - 1) for i in range(len(read) - 1)]
    if ik and ir:
        iv = {"kind": "intron", "known": ik, "gene_region": (known[0][0], known[-1][1]), "read": ir,
              "mapped": (read[0][0], read[-1][1]), "polya": pa, "polyt": pt, "d": d, "abs_d": rng.choice([5, 20])}
        out.append(({"L": L}, iv))
    return out
