"""C09, option strings of --read_group (audit-2 B: GAP C09-1, C09-2, C09-4): `file:FILE:READ_COL:GROUP_COL:DELIM` with any
subset of the optional fields, `read_id:DELIM` with delimiters that are / contain a colon, per-chromosome tables for
reference sequences that no BAM header lists.  Called from props/C09.py.

correspondence (model = Model/C09Options.lean, Model/C09.lean `parseReadGroupL`):
  * `py_int`          Python int(text) on ASCII texts (blanks, signs, underscores, junk) vs `pyInt`;
  * `file_props`      the REAL prepare_read_groups (split_read_group_table replaced by a recorder): the tuple
                      (FILE, READ_COL, GROUP_COL, DELIM) handed to the splitter, None for another mode, the exception class;
  * `parse_read_group` create_read_grouper on option strings with 0..4 colons after the keyword (class, tag, delimiter);
  * `split_file_map`  split_read_group_table on BAM files with different headers + create_read_grouper for every sequence of
                      a reference that has one more sequence than any header: read_map per sequence (or the exception).
oracle (no model): a user table in a documented layout, the option string spelled in every documented way (trailing fields
  omitted, fields left empty), 1-2 BAM files whose headers differ, a reference sequence absent from every header:
  prepare_read_groups + create_read_grouper for every reference sequence must not raise (`abort`) and every read must get the
  group an independent parse of the table gives it (`wrong_group`); `read_id:DELIM` through create_read_grouper for
  delimiters with colons.
"""
import contextlib
import io
import json
import os
import shutil
import tempfile

import vlib


def req(op, **kw):
    return "C09." + op + " " + json.dumps(kw, separators=(",", ":"))


class _NS:
    def __init__(self, **kw):
        self.__dict__.update(kw)


def _rg():
    vlib.repo_on_path()
    import logging
    logging.getLogger("IsoQuant").disabled = True
    import src.read_groups as RG
    return RG


def _err(ex):
    return {"error": "error", "exc": type(ex).__name__}


# ---- real code adapters -------------------------------------------------------------------------------------------

def real_file_props(opt):
    """what the real prepare_read_groups hands to split_read_group_table for --read_group `opt`"""
    RG = _rg()
    got = []
    orig = RG.split_read_group_table
    RG.split_read_group_table = lambda table, sample, rc, gc, delim, chr_ids=None: got.append([table, rc, gc, delim])   # chr_ids: /repo fa8aeb9
    try:
        try:
            RG.prepare_read_groups(_NS(read_group=opt), _NS(file_list=[], read_group_file="unused"))
        except (ValueError, IndexError, AssertionError, TypeError) as ex:
            return _err(ex)
    finally:
        RG.split_read_group_table = orig
    return got[0] if got else None


def real_parse(opt, tmp):
    RG = _rg()
    args = _NS(read_group=opt, input_data=_NS(samples=[]))
    sample = _NS(readable_names_dict={"x": "y"}, file_list=[], read_group_file=os.path.join(tmp, "rgf"))
    try:
        with contextlib.redirect_stdout(io.StringIO()):
            g = RG.create_read_grouper(args, sample, "chrZ")
        cls = type(g).__name__
        return {"DefaultReadGrouper": {"kind": "default"}, "FileNameGrouper": {"kind": "file_name"},
                "AlignmentTagReadGrouper": {"kind": "tag", "tag": getattr(g, "tag", None)},
                "ReadIdSplitReadGrouper": {"kind": "read_id", "delim": getattr(g, "delim", None)},
                "ReadTableGrouper": {"kind": "table"}}[cls]
    except (IndexError, ValueError, KeyError) as ex:
        return _err(ex)


# ---- generators ---------------------------------------------------------------------------------------------------

INT_TEXTS = ["0", "1", "2", "10", "007", " 1", "1 ", "\t3\n", "+2", "-1", "-0", "1_0", "1__0", "_1", "1_", "1 2", "", " ", "-", "+",
             "+-1", "x", "1x", "0x10", "1.0", "1e3", "\x0b4\x0c", "\x1c5", "\x1d7", "7\x1f", "\x855", "5\u2003", "\u30006", "12345678901234567890", "--1", "+ 1", "1\xa0", "\xa06"]


def option_strings(rng, quick):
    """--read_group values: every keyword with 0..4 further fields, fields empty / numeric / junk, delimiters with colons"""
    res = [None, "", "file", "file:", "file:T", "file:T:", "file:T:2", "file:T:2:", "file:T:2:1", "file:T::2", "file:T:::", "file:T::::",
           "file:T:0:1:,", "file:T:::;", "file:T:0:1::", "file:T:0:1:::", "file:T:0:1:a:b", "file:T:2::,", "file:T:x", "file:T:1:y",
           "file:T: 1 :+2", "file:T:1_0:0", "file:T:-1:3", "file:/a/b.tsv.gz:3:0: ", "file::1", "filex:T:2", "File:T:2", ":file:T",
           "read_id", "read_id:", "read_id::", "read_id:::", "read_id:_", "read_id:__:x", "read_id:a:b", "read_id: ", "read_id:_:",
           "read_idx:_", "tag", "tag:", "tag:CB", "tag:CB:x", "tag::", "file_name", "file_name:x", "bogus", ":tag", "Tag:CB"]
    fields = ["", "0", "1", "2", "3", "10", " 2", "x", "-1", "+1", "1_1", ",", ";", "\t", " ", "ab", "T", "/d/t.tsv"]
    for _ in range(150 if quick else 3000):
        kw = rng.choice(["file", "file", "file", "read_id", "tag", "file_name", "fil", ""])
        n = rng.randint(0, 6)
        res.append(":".join([kw] + [rng.choice(fields) for _ in range(n)]))
    return res


# table layouts: (delimiter, read column, group column, row template, the option suffixes after `file:FILE` that are documented
# to describe this layout: fields left out at the end or left empty take the defaults 0 / 1 / tab)
LAYOUTS = [
    ("\t", 0, 1, "{r}\t{g}", ["", ":0", ":0:1", ":", "::", ":::", "::1", ":0:1:\t"]),
    ("\t", 0, 1, "{r}\t{g}\tx", ["", ":0:1"]),
    ("\t", 2, 1, "x\t{g}\t{r}", [":2", ":2:1", ":2:", ":2::"]),
    ("\t", 1, 2, "x\t{r}\t{g}", [":1:2", ":1:2:"]),
    ("\t", 0, 2, "{r}\tx\t{g}", ["::2", ":0:2", "::2:"]),
    (",", 0, 1, "{r},{g},x", [":0:1:,", ":::,", ":0::,"]),
    (",", 1, 0, "{g},{r},extra", [":1:0:,"]),
    (";", 2, 1, "x;{g};{r}", [":2:1:;", ":2::;"]),
    (":", 0, 1, "{r}:{g}", [":0:1::", "::::"]),
    ("::", 1, 0, "{g}::{r}", [":1:0:::"]),
]
OPTION_GROUPS = ["gA", "gB", "g C", "count_x", "NA", "10"]


def doc_table_map(lines, delim, rc, gc):
    """the table as documented: '#' lines and blank lines skipped, the read in column rc, its group in column gc, last row wins"""
    m = {}
    for line in lines:
        l = line.strip()
        if not l or l.startswith("#"):
            continue
        cols = l.split(delim)
        if len(cols) > max(rc, gc):
            m[cols[rc]] = cols[gc]
    return m


def option_case(rng, i, layout=None, form=None):
    layout = rng.randrange(len(LAYOUTS)) if layout is None else layout
    delim, rc, gc, tmpl, forms = LAYOUTS[layout]
    form = rng.randrange(len(forms)) if form is None else form
    names = ["q%d" % j for j in range(rng.randint(3, 8))] + ["#hash"]
    # file 0 knows chr1 and chr2, file 1 (when present) only chr1; the reference has chr3 as well
    nfiles = rng.choice([1, 2, 2])
    files = [[] for _ in range(nfiles)]
    for nm in names:
        for _ in range(rng.choice([1, 1, 2])):
            fi = rng.randrange(nfiles)
            files[fi].append([nm, "chr1" if fi == 1 else rng.choice(["chr1", "chr2"]), rng.randint(10, 2000)])
    if not files[0]:
        files[0].append([names[0], "chr2", 40])
    for fl in files[1:]:
        if not fl:
            fl.append([names[0], "chr1", 50])
    table = [[nm, rng.choice(OPTION_GROUPS)] for nm in names if nm == "#hash" or rng.random() < 0.8] + [["ghost", "gZ"]]
    lines = ["# read / group table"] + [tmpl.format(r=r, g=g) for r, g in table]
    return {"layout": layout, "form": form, "files": files, "lines": lines, "seed": i, "ref": ["chr1", "chr2", "chr3"]}


def run_option_case(case, tmp, want_maps=False):
    """writes the BAM files and the user's table, runs the REAL prepare_read_groups with the option string of the case and
    builds the grouper of every reference sequence with the real create_read_grouper.
    Returns {"option", "abort" | None, "groups": {chr: {read: group}}, "maps": {chr: read_map | error}, "alns", "headers"}"""
    import pysam
    from gen import synth
    RG = _rg()
    delim, rc, gc, _, forms = LAYOUTS[case["layout"]]
    d = tempfile.mkdtemp(prefix="opt_", dir=tmp)
    try:
        paths, headers = [], []
        for i, reads in enumerate(case["files"]):
            ds = synth.Dataset(seed=case["seed"] * 10 + i)
            hdr = ["chr1", "chr2"] if i == 0 else ["chr1"]
            for c in hdr:
                ds.add_chrom(c, 3000)
            for nm, chrom, pos in reads:
                ds.add_read(nm, chrom, pos, "100M")
            paths.append(ds.write(d, bam_name="in%d.bam" % i, write_ref=False)["bam"])
            headers.append(hdr)
        tf = os.path.join(d, "tab.tsv")
        with open(tf, "w", newline="\n") as f:
            f.write("".join(l + "\n" for l in case["lines"]))
        opt = "file:" + tf + forms[case["form"]]
        sample = _NS(file_list=[[p] for p in paths], read_group_file=os.path.join(d, "rg"))
        args = _NS(read_group=opt, input_data=_NS(samples=[sample]))
        res = {"option": "file:<table>" + forms[case["form"]], "abort": None, "groups": {}, "maps": {}, "headers": headers}
        alns = []
        for p in paths:
            with pysam.AlignmentFile(p, "rb") as bam:
                alns += [[a.query_name, a.reference_name] for a in bam]
        res["alns"] = alns
        try:
            with contextlib.redirect_stdout(io.StringIO()):
                RG.prepare_read_groups(args, sample)
        except Exception as ex:
            res["abort"] = "prepare_read_groups raised %s: %s" % (type(ex).__name__, ex)
            return res
        for chrom in case["ref"]:
            try:
                with contextlib.redirect_stdout(io.StringIO()):
                    g = RG.create_read_grouper(args, sample, chrom)
            except Exception as ex:
                res["maps"][chrom] = dict(_err(ex), detail="%s: %s" % (type(ex).__name__, ex))
                if res["abort"] is None:
                    res["abort"] = ("create_read_grouper raised %s for reference sequence %s (listed in the header of %d of %d BAM "
                                    "files): %s" % (type(ex).__name__, chrom, sum(chrom in h for h in headers), len(headers), ex))
                continue
            res["maps"][chrom] = [[k, v] for k, v in g.read_map.items()]
            res["groups"][chrom] = {nm: g.get_group_id(_NS(query_name=nm)) for nm, c in alns if c == chrom}
        if want_maps:
            res["table"] = [[k, v] for k, v in RG.load_table(tf, rc, gc, delim).items()]
        return res
    finally:
        shutil.rmtree(d, ignore_errors=True)


def check_option_case(case, tmp):
    """the property on the real code: [(kind, detail)] - an exception while the option is read or while the grouper of a
    reference sequence is built (`abort`), and, on the sequences whose grouper could be built, a read that is not grouped
    as the table says (`wrong_group`)"""
    delim, rc, gc, _, _ = LAYOUTS[case["layout"]]
    r = run_option_case(case, tmp)
    layout = "READ_COL %d, GROUP_COL %d, DELIM %r" % (rc, gc, delim)
    res = []
    if r["abort"]:
        res.append(("abort", "--read_group %s (table layout: %s): %s" % (r["option"], layout, r["abort"])))
    doc = doc_table_map(case["lines"], delim, rc, gc)
    for chrom, m in r["groups"].items():
        for nm, g in m.items():
            want = doc.get(nm, "NA")
            if g != want:
                res.append(("wrong_group", "--read_group %s (table layout: %s): read %s is grouped under %r on %s, the table says %r"
                            % (r["option"], layout, nm, g, chrom, want)))
                return res
    return res


def failure_class(kind, det):
    """sub-class of an option failure (one recorded failure per class)"""
    if kind == "abort":
        return "option_refused" if "prepare_read_groups raised" in det else ("unlisted_sequence" if "(listed in the header of 0 of" in det else "grouper")
    return kind


def shrink_option_case(case, tmp, kind, cls=None):
    cur = case
    changed = True
    while changed:
        changed = False
        for i in range(1, len(cur["lines"])):
            c2 = dict(cur, lines=cur["lines"][:i] + cur["lines"][i + 1:])
            if any(k == kind and (cls is None or failure_class(k, d_) == cls) for k, d_ in check_option_case(c2, tmp)):
                cur, changed = c2, True
                break
        if changed:
            continue
        for fi, fl in enumerate(cur["files"]):
            for i in range(len(fl)):
                if len(fl) <= 1:
                    break
                c2 = dict(cur, files=[x if k != fi else x[:i] + x[i + 1:] for k, x in enumerate(cur["files"])])
                if any(k == kind and (cls is None or failure_class(k, d_) == cls) for k, d_ in check_option_case(c2, tmp)):
                    cur, changed = c2, True
                    break
            if changed:
                break
    return cur


READID_DELIMS = [":", "::", "a:b", ":x", "_:", "|", "/", "_"]


def readid_option_case(rng, delim):
    names = []
    for j in range(rng.randint(3, 8)):
        base = "m%d-%d" % (j, rng.randrange(100))
        x = rng.random()
        if x < 0.25:
            names.append(base)
        elif x < 0.35:
            names.append(base + delim)
        else:
            names.append(base + delim + rng.choice(["NEU", "B", "c" + delim + "d", "10"]))
    return {"delim": delim, "names": names}


def doc_readid(delim, name):
    """docs/cmd.md: the read id is split by DELIM, the group is the suffix; a set of acceptable answers"""
    if delim not in name:
        return {"NA"}
    return {name[i + len(delim):] for i in range(len(name)) if name.startswith(delim, i) and delim not in name[i + len(delim):]}


def check_readid_option(case, tmp):
    RG = _rg()
    opt = "read_id:" + case["delim"]
    try:
        with contextlib.redirect_stdout(io.StringIO()):
            g = RG.create_read_grouper(_NS(read_group=opt, input_data=_NS(samples=[])), _NS(readable_names_dict={}, file_list=[]), "chr1")
    except Exception as ex:
        return [("abort", "--read_group %s: create_read_grouper raised %s: %s" % (opt, type(ex).__name__, ex))]
    for nm in case["names"]:
        try:
            r = g.get_group_id(_NS(query_name=nm))
        except Exception as ex:
            return [("abort", "--read_group %s: get_group_id raised %s for read %s: %s" % (opt, type(ex).__name__, nm, ex))]
        want = doc_readid(case["delim"], nm)
        if r not in want:
            return [("wrong_group", "--read_group %s: read %s is grouped under %r, documented %s" % (opt, nm, r, sorted(want)))]
        if r not in g.read_groups:
            return [("group_missing_from_universe", "--read_group %s: %r returned for %s but not recorded" % (opt, r, nm))]
    return []


# ---- correspondence -----------------------------------------------------------------------------------------------

def correspondence(ctx, tmp):
    rng = ctx.rng
    quick = ctx.tier == "quick"
    drv = ctx.driver
    # int(text)
    texts = list(INT_TEXTS)
    for _ in range(60 if quick else 600):
        texts.append("".join(rng.choice("0123456789_+- \tx") for _ in range(rng.randint(0, 6))))
    outs = drv.run([req("py_int", s=t) for t in texts])
    for t, mo in zip(texts, outs):
        ctx.evaluations += 1
        ctx.count("op:py_int")
        try:
            io_ = int(t)
        except ValueError as ex:
            io_ = _err(ex)
        ctx.traces_validated += 1
        if not vlib.same(mo, io_):
            ctx.disagree("py_int", {"s": t}, mo, io_)
        elif not vlib.is_err(mo):
            ctx.mark_nontrivial(["py_int", t])
    # prepare_read_groups / create_read_grouper on option strings
    opts = option_strings(rng, quick)
    outs = drv.run([req("file_props", opt=o, orig=False) for o in opts])
    for o, mo in zip(opts, outs):
        ctx.evaluations += 1
        ctx.count("op:file_props")
        io_ = real_file_props(o)
        ctx.traces_validated += 1
        if not vlib.same(mo, io_):
            ctx.disagree("file_props", {"opt": o}, mo, io_)
        elif mo is not None and not vlib.is_err(mo):
            ctx.count("file_props:fields=%d" % min(len(o.split(":")), 6))
            ctx.mark_nontrivial(["file_props", o])
    popts = opts + ["file:" + os.path.join(tmp, "t.tsv") + ":2"]
    with open(os.path.join(tmp, "rgf_chrZ"), "w") as f:
        f.write("r1\tg1\n")
    outs = drv.run([req("parse_read_group", opt=o) for o in popts])
    for o, mo in zip(popts, outs):
        ctx.evaluations += 1
        ctx.count("op:parse_read_group")
        io_ = real_parse(o, tmp)
        ctx.traces_validated += 1
        if not vlib.same(mo, io_):
            ctx.disagree("parse_read_group", {"opt": o}, mo, io_)
        elif not vlib.is_err(mo) and mo["kind"] != "default":
            ctx.mark_nontrivial(["parse_read_group", o])
    # the set of per-chromosome tables: BAM files with different headers, one more reference sequence
    cases = [option_case(rng, i) for i in range(4 if quick else 30)]
    lines, meta = [], []
    for c in cases:
        r = run_option_case(c, tmp, want_maps=True)
        if r["abort"] and "table" not in r:
            # the option string itself was refused / misread so that nothing was split: nothing to compare at this level
            ctx.count("split_file_map:prepare_failed")
            continue
        for chrom in c["ref"]:
            kw = {"headers": r["headers"], "map": r["table"], "chr": chrom, "alns": r["alns"], "orig": False}
            lines.append(req("split_file_map", **kw))
            io_ = r["maps"].get(chrom)
            meta.append((kw, io_ if not vlib.is_err(io_) else {"error": "error", "exc": io_.get("exc")}))
    outs = drv.run(lines)
    for (kw, io_), mo in zip(meta, outs):
        ctx.evaluations += 1
        ctx.count("op:split_file_map")
        ctx.traces_validated += 1
        if not vlib.same(mo, io_):
            ctx.disagree("split_file_map", kw, mo, io_)
        elif not vlib.is_err(mo):
            ctx.count("split_file_map:%s" % ("listed" if any(kw["chr"] in h for h in kw["headers"]) else "unlisted"))
            if mo or not any(kw["chr"] in h for h in kw["headers"]):
                ctx.mark_nontrivial(["split_file_map", kw["chr"], kw["map"], kw["alns"]])


# ---- oracle -------------------------------------------------------------------------------------------------------

def oracle(ctx, disagreements, tmp):
    rng = ctx.rng
    quick = ctx.tier == "quick"
    n = 0
    recorded = {}

    def fail(kind, what, inp, det):
        # one recorded failure per class so that the replay file (first ten failures of the run) holds every class
        key = (what, failure_class(kind, det))
        recorded[key] = recorded.get(key, 0) + 1
        ctx.count("oracle_failure:%s:%s" % key)
        if recorded[key] <= 1:
            ctx.fail(kind, dict(inp, what=what), det)

    # every layout in every documented spelling of the option (exhaustive over LAYOUTS x forms), then random cases
    cases = [option_case(rng, 1000 + li * 10 + fi, layout=li, form=fi) for li, L in enumerate(LAYOUTS) for fi in range(len(L[4]))]
    cases += [option_case(rng, i) for i in range(6 if quick else 60)]
    ctx.extra["option_forms"] = sum(len(L[4]) for L in LAYOUTS)
    for c in cases:
        n += 1
        ctx.count("oracle:file_option:fields=%d" % (2 + LAYOUTS[c["layout"]][4][c["form"]].count(":")))
        for kind, det in check_option_case(c, tmp):
            small = c
            if recorded.get(("file_option", failure_class(kind, det)), 0) < 1:
                small = shrink_option_case(c, tmp, kind, failure_class(kind, det))
                det = ([d for k, d in check_option_case(small, tmp) if k == kind and failure_class(k, d) == failure_class(kind, det)] or [det])[0]
            fail(kind, "file_option", {"case": small, "family": LAYOUTS[c["layout"]][4][c["form"]], "cls": failure_class(kind, det)}, det)
    for delim in READID_DELIMS:
        for _ in range(2 if quick else 10):
            c = readid_option_case(rng, delim)
            n += 1
            ctx.count("oracle:read_id_option")
            for kind, det in check_readid_option(c, tmp):
                fail(kind, "read_id_option", {"case": c, "family": delim}, det)
    return n


def replay(ctx, failure):
    inp = failure["input"]
    tmp = tempfile.mkdtemp(prefix="isoverif_c09r_")
    try:
        if inp["what"] == "file_option":
            return any(k == failure["kind"] and (inp.get("cls") is None or failure_class(k, d_) == inp["cls"])
                       for k, d_ in check_option_case(inp["case"], tmp))
        if inp["what"] == "read_id_option":
            return any(k == failure["kind"] for k, _ in check_readid_option(inp["case"], tmp))
        return False
    finally:
        shutil.rmtree(tmp, ignore_errors=True)
