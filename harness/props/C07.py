"""C07 — resuming an interrupted run yields the outputs of an uninterrupted run.

Correspondence: the real pipeline is run under harness/c07_wrap.py (FS mutations counted, content commits observed,
a kill injected at mutation k, before or right after it).  Compared with the Lean model (Model/Resume.lean, variant
`fixed` = the current /repo) through the driver:
  * the mutation trace (op, path-class) of the uninterrupted run, and that every file the model declares complete at
    some point is complete on disk no later in the real run;
  * for crash points: the set of files present at the kill, the verdict of kill -> --resume (EQUAL / DIFF / FAIL), and
    the mutation trace of the resumed run;
  * process pool (--threads 2..4, Model/ResumePool.lean): the recorded global trace must be an interleaving of the model's
    per-task event lists with the stage barriers respected (the schedule is read off the trace and given to the model,
    then the sequences must be equal); sampled kill points of pool runs are compared in the same way.
Oracle: the same enumeration judged against the property itself on the real code: every kill point after `.params`
was saved must give EQUAL (resumed run exits 0 and every final file equals the uninterrupted run's).
"""
import json
import os
import shutil
import tempfile
from concurrent.futures import ThreadPoolExecutor

import vlib
from gen import c07_runs as R

ID = "C07"
PROPS = ["IsoVerif/Props/C07.lean", "IsoVerif/Props/C07Pool.lean", "IsoVerif/Props/C07Multi.lean", "IsoVerif/Props/C07Opts.lean",
         "IsoVerif/Props/C07Ref.lean"]
TARGETS = ["IsoVerif.Props.C07", "IsoVerif.Props.C07Pool", "IsoVerif.Props.C07Multi", "IsoVerif.Props.C07Opts",
           "IsoVerif.Props.C07Ref"]
GEN_DEPS = []
LEVEL = "proof"
RULE = ("a case = one (configuration, kill point k, phase before/after) of the real pipeline; non-trivial when the kill "
        "really interrupted the run, the model's crash file system has the same files as the real one, the verdicts agree "
        "and the resumed run's mutation trace equals the model's; distinct by (configuration, k, phase[, threads]); plus one "
        "case per uninterrupted-run trace comparison (--threads 1, each pool run under its observed schedule, the "
        "--sqanti_output run, the two-experiment invocation)")
TRUSTED = ["harness/c07_wrap.py observes open()/gzip.open()/os.remove()/os.replace()/os.rename() and flush/close of files opened through builtins.open; "
           "writes through other channels (sqlite, pysam, pyfaidx) are not observed and lie outside the modelled stages",
           "an index of the reference inside the output folder is modelled (Cfg.idx); an index next to a reference outside the "
           "folder is not observed (same code path), nor is the .gzi block index of a bgzip reference (written by pyfaidx in "
           "place); mtimes: the copy of a plain-gzip reference rewritten by a run is strictly newer than an index left by an "
           "earlier run (the code rebuilds an index that is older than its FASTA)",
           "SIGKILL of the whole process group (main process and pool workers together) stands for an interruption; data handed to "
           "the OS (flush/close) survives it; a kill of the main process alone, after which workers of the killed run keep writing "
           "while a resumed run starts, is not covered"]
ASSUMPTIONS = ["content tokens: a file is `good` iff it is the complete output of a correct computation; recomputing a stage "
               "from good inputs yields the same bytes (determinism is the subject of C06/C10)",
               "final files are compared modulo the `# Command line` / version header lines (a resumed run records its own command line)",
               "BAM input (or --read_assignments), default options except genedb / read_group / keep_tmp / sqanti_output / threads / "
               "count_exons / no_model_construction / gzipped outputs (final .gz files are compared by their decompressed content: the "
               "gzip header carries the time of the run) / high_memory (a resumed run is a --high_memory run iff the killed run was one "
               "or the flag is given on the resume command line: the harness tells the model what the resume command line carried; "
               "observed through the read accesses to the save files - a run that is not a --high_memory run reads them back after "
               "the collection); "
               "several experiments (--bam_list): every experiment is one run of the model in its own folder (`.params` shared, "
               "written once; a resumed invocation goes through every experiment again), the model configuration of a later "
               "experiment carries `carried` = an earlier experiment has unaligned reads; the tables combined over the experiments "
               "are outside the model and compared as final outputs",
               "a truncated pickle or terminated binary stream makes its reader raise (observed: AssertionError, EOFError)",
               "plain-gzip reference (GzRefSession): the copy unpacked into the output folder is path class `refFa`; kill phase `w` "
               "(inside the copy: the first 64 KiB piece is in the file) is the model state after `commit refFa stale` (a readable "
               "FASTA with fewer sequences); the index "
               "pyfaidx builds for the copy is written next to the compressed file, outside the output folder (every run works on "
               "its own copy of the compressed file)",
               "process pool (--threads 2..4): the model's pool run (Model/ResumePool.lean) takes the schedule of each parallel stage "
               "as an argument; the harness reads the schedule off the observed trace (which task performed the next mutation) and "
               "compares the whole global mutation sequence, the files at the kill, the verdict and the resumed run's sequence; in a "
               "killed pool run the last traced mutation of a task other than the killing one may not have been performed - it is "
               "resolved from the files found (a created file is missing / a removed file is still there), otherwise taken as performed "
               "(it changes no file's presence)",
               "kill points of pool runs are sampled (the mutation numbering is schedule dependent); all kill points of --threads 1 "
               "runs are enumerated in the thorough tier"]

VARIANT_FIXED = {"flushBeforeLock": True, "dropProcessed": True, "locksFirst": True, "countUnaligned": True,
                 "refRewrite": True, "faiAtomic": True, "paramsAtomic": True}
# development aid only (docs/C07.md, "the pinned variant against the pinned tree"): VERIF_C07_VARIANT=pinned compares a
# checkout of the tree before the fix: commits (VERIF_REPO) with the model's `pinned` variant
if os.environ.get("VERIF_C07_VARIANT") == "pinned":
    VARIANT_FIXED = {k: False for k in VARIANT_FIXED}
# development aid (docs/C07.md, "the unpacked reference: the old behaviour against the old tree"): VERIF_C07_REF_ORIG=1
# compares a tree without the repair of DatasetProcessor.__init__ with the model's `refRewrite = false` behaviour
if os.environ.get("VERIF_C07_REF_ORIG") == "1":
    VARIANT_FIXED = dict(VARIANT_FIXED, refRewrite=False)
# VERIF_C07_FAI_ORIG=1: a tree before eab0ef3 (pyfaidx writes the index in place; the index of an unpacked copy lies next to
# the compressed file, outside the folder) against the model's `faiAtomic = false` behaviour
# VERIF_C07_PARAMS_ORIG=1: a tree before ffd90d3 (`.params` rewritten in place) against the model's `paramsAtomic = false`
if os.environ.get("VERIF_C07_PARAMS_ORIG") == "1":
    VARIANT_FIXED = dict(VARIANT_FIXED, paramsAtomic=False)
FAI_ORIG = os.environ.get("VERIF_C07_FAI_ORIG") == "1"
if FAI_ORIG:
    VARIANT_FIXED = dict(VARIANT_FIXED, faiAtomic=False)

SUFFIX = {"corrected_reads.bed": "bed", "read_assignments.tsv": "assign", "transcript_models.gtf": "gtf",
          "transcript_model_reads.tsv": "r2t", "extended_annotation.gtf": "ext", "gene_counts.tsv": "gene",
          "transcript_counts.tsv": "tr", "transcript_model_counts.tsv": "model", "gene_grouped_counts.tsv": "geneG",
          "transcript_grouped_counts.tsv": "trG", "transcript_model_grouped_counts.tsv": "modelG",
          "novel_vs_known.SQANTI-like.tsv": "sq", "exon_counts.tsv": "exon", "intron_counts.tsv": "intron",
          "exon_grouped_counts.tsv": "exonG", "intron_grouped_counts.tsv": "intronG"}
GZIPPED = ("bed", "assign", "r2t")        # final files that may be gzip streams (`<name>.gz`, path class finalGz)
LINEAR = {"gene_grouped_counts_linear.tsv": "geneG", "transcript_grouped_counts_linear.tsv": "trG",
          "transcript_model_grouped_counts_linear.tsv": "modelG"}
TPM = {"gene_tpm.tsv": "gene", "transcript_tpm.tsv": "tr", "transcript_model_tpm.tsv": "model",
       "gene_grouped_tpm.tsv": "geneG", "transcript_grouped_tpm.tsv": "trG", "transcript_model_grouped_tpm.tsv": "modelG"}


class PathTable(dict):
    """relative file name -> model path; besides the exact names, names given by a pattern (a temporary file whose name
    contains a random hex string: `<index>.<uuid4 hex>.tmp`)"""

    def __init__(self, *a, **kw):
        dict.__init__(self, *a, **kw)
        self.patterns = list(getattr(a[0], "patterns", [])) if a and isinstance(a[0], PathTable) else []

    def _pat(self, rel):
        if isinstance(rel, str):
            for rx, mp in self.patterns:
                if rx.fullmatch(rel):
                    return mp
        return None

    def get(self, rel, default=None):
        if dict.__contains__(self, rel):
            return dict.__getitem__(self, rel)
        mp = self._pat(rel)
        return default if mp is None else mp

    def __contains__(self, rel):
        return dict.__contains__(self, rel) or self._pat(rel) is not None

    def __missing__(self, rel):
        mp = self._pat(rel)
        if mp is None:
            raise KeyError(rel)
        return mp

    def add_index(self, fasta_rel):
        """the index of `fasta_rel` inside the output folder and the temporary names it is built under"""
        import re
        self[fasta_rel + ".fai"] = ["refFai"]
        self.patterns.append((re.compile(re.escape(fasta_rel + ".fai.") + r"[0-9a-f]{32}\.tmp"), ["refFaiTmp"]))


def path_table(chrs, prefix=R.PREFIX):
    """relative file name -> model path (JSON list); chromosome = index in processing order"""
    P = prefix
    t = PathTable({".params": ["params"], ".params.tmp": ["paramsTmp"], "%s/aux/%s.read_group_lock" % (P, P): ["rgLock"],
                   "%s/aux/%s.save_info" % (P, P): ["info"], "%s/aux/%s.save_lock" % (P, P): ["lock"]})
    for suf, s in SUFFIX.items():
        t["%s/%s.%s" % (P, P, suf)] = ["final", s]
        if s in GZIPPED:
            t["%s/%s.%s.gz" % (P, P, suf)] = ["finalGz", s]
    for suf, s in LINEAR.items():
        t["%s/%s.%s" % (P, P, suf)] = ["finalLin", s]
    for suf, s in TPM.items():
        t["%s/%s.%s" % (P, P, suf)] = ["tpm", s]
    for i, c in enumerate(chrs):
        t["%s/aux/%s.read_group_%s" % (P, P, c)] = ["rgSplit", i]
        t["%s/aux/%s.save_%s" % (P, P, c)] = ["save", i]
        t["%s/aux/%s.save_multimappers_%s" % (P, P, c)] = ["multimap", i]
        for suf, k in [("groups", "groups"), ("bamstat", "bamstat"), ("collected", "collected"), ("read_stat", "readStat"),
                       ("transcript_stat", "trStat"), ("processed", "processed")]:
            t["%s/aux/%s.save_%s_%s" % (P, P, c, suf)] = [k, i]
        for suf, s in SUFFIX.items():
            t["%s/%s_%s.%s" % (P, P, c, suf)] = ["part", s, i]
            t["%s/%s_%s.%s.stats" % (P, P, c, suf)] = ["partStats", s, i]
        for suf, s in LINEAR.items():
            t["%s/%s_%s.%s" % (P, P, c, suf)] = ["partLin", s, i]
    return t


def saves_table(chrs, table):
    """`--read_assignments` scenario: the kept save files live in <out>/saves/ with the prefix S.save"""
    t = PathTable(table)
    t["saves/S.save_info"] = ["info"]
    t["saves/S.save_lock"] = ["lock"]
    for i, c in enumerate(chrs):
        t["saves/S.save_%s" % c] = ["save", i]
        t["saves/S.save_multimappers_%s" % c] = ["multimap", i]
        for suf, k in [("groups", "groups"), ("bamstat", "bamstat"), ("collected", "collected"), ("read_stat", "readStat"),
                       ("transcript_stat", "trStat"), ("processed", "processed")]:
            t["saves/S.save_%s_%s" % (c, suf)] = [k, i]
    return t


def is_log(rel):
    return rel.endswith("isoquant.log") or rel.endswith("isoquant.log.old")


def canon_trace(trace, table):
    """real trace -> (mutations, commits, unknown)
    mutations: list of (real number k, op, model path) without the log lines
    commits:   list of (gap, model path) for every '+' commit (gap = number of kept mutations before it)
    unknown:   relative paths that have no path class"""
    muts, commits, unknown = [], [], []
    for n, op, rel in trace:
        if is_log(rel) or (n is None and op == "read"):
            continue            # (read accesses are no mutations; those to the save files are compared by save_reads)
        mp = table.get(rel)
        if mp is None:
            unknown.append(rel)
            continue
        if n is None:
            if op.endswith("+"):
                commits.append((len(muts), mp))
            continue
        if op.startswith("open:") or op.startswith("gzip:"):
            mode = op.split(":", 1)[1]
            o = "append" if "a" in mode else "create"
            if op.startswith("gzip:") != (mp[0] == "finalGz"):
                unknown.append("%s opened with %s" % (rel, op))     # a gzip stream under a plain name, or the reverse
        else:
            # os.remove; os.replace(src, dst) (op `replace:<dst>`, path = src): the source name disappears - the model's
            # `remove src` - and the destination holds its content (the commits that follow that event in the model)
            o = "remove"
            if op.startswith("replace:") and table.get(op.split(":", 1)[1]) is None:
                unknown.append("%s renamed to %s" % (rel, op.split(":", 1)[1]))
        muts.append((n, o, mp))
    # the lock files removed by a fresh run before `.params` is written come from globs: order them as the model does
    pi = next((i for i, m in enumerate(muts) if is_params(m[2])), 0)
    if pi > 0 and all(m[1] == "remove" for m in muts[:pi]):
        rank = {"lock": 0, "rgLock": 1, "collected": 2, "processed": 3}
        head = sorted(muts[:pi], key=lambda m: (rank.get(m[2][0], 9), m[2][1:]))
        muts = [(muts[i][0], head[i][1], head[i][2]) for i in range(pi)] + muts[pi:]
    return muts, commits, unknown


def is_params(p):
    """`.params` or the temporary name it is written under (save_params since ffd90d3)"""
    return p[:1] in (["params"], ["paramsTmp"])


def save_reads(trace, table):
    """how often every save file was opened for reading (wrapper lines `- read <path>`): {json path: count}"""
    res = {}
    for n, op, rel in trace:
        if n is None and op == "read":
            mp = table.get(rel)
            if mp is not None and mp[0] == "save":
                res[json.dumps(mp)] = res.get(json.dumps(mp), 0) + 1
    return res


def model_save_reads(reads):
    res = {}
    for mp in reads or []:
        if mp[0] == "save":
            res[json.dumps(mp)] = res.get(json.dumps(mp), 0) + 1
    return res


def model_muts(evs):
    """model events -> (mutations [(event index, op, path)], commits [(gap, path, token)])"""
    muts, commits = [], []
    for i, e in enumerate(evs):
        if e[0] == "commit":
            commits.append((len(muts), e[1], e[2]))
        else:
            muts.append((i, e[0], e[1]))
    return muts, commits


def completion_check(real_muts, real_commits, m_muts, m_commits):
    """every model commit (file declared complete in gap g) must be matched by a real completion no later than g:
    the last '+' commit of that path inside the same epoch (between two mutations of the path), or the epoch's own
    opening mutation when nothing dirty was ever committed (empty content).  Returns a list of problems."""
    probs = []
    # epochs of each path in the real trace: mutation positions of that path
    pos = {}
    for i, (_, _, p) in enumerate(real_muts):
        pos.setdefault(json.dumps(p), []).append(i)
    rc = {}
    for g, p in real_commits:
        rc.setdefault(json.dumps(p), []).append(g)
    for g, p, tok in m_commits:
        if p[0] in ("refFaiData", "refFai") or (p[0] == "params" and VARIANT_FIXED.get("paramsAtomic", True)):
            continue            # installed by os.replace of a file that was completed under its temporary name
        key = json.dumps(p)
        ps = pos.get(key, [])
        start = max([i for i in ps if i < g], default=None)     # the mutation that opened the epoch
        if start is None:
            probs.append("model commits %s in gap %d but the real run never opened it before" % (p, g))
            continue
        nxt = min([i for i in ps if i >= g], default=len(real_muts))
        inside = [x for x in rc.get(key, []) if start < x <= nxt]
        done = max(inside) if inside else start + 1
        if done > g:
            probs.append("%s: the model declares it complete in gap %d, the real run completes it in gap %d" % (p, g, done))
    # a real file that receives data but is never declared complete by the model
    mc = {}
    for g, p, tok in m_commits:
        mc.setdefault(json.dumps(p), []).append(g)
    for key, gs in rc.items():
        if key not in mc:
            probs.append("%s is written by the real run but never committed in the model" % key)
    return probs


def configs(ctx):
    rng = ctx.rng
    quick = ctx.tier == "quick"
    cfgs = []
    seeds = [rng.randrange(10 ** 6) for _ in range(8)]
    if quick:
        cfgs.append({"n": rng.choice([2, 3]), "genedb": True, "rg": rng.choice(["file", "inline"]), "keep_tmp": False,
                     "unmapped": True, "seed": seeds[0]})
        cfgs.append({"n": rng.choice([1, 2]), "genedb": rng.random() < 0.5, "rg": rng.choice(["none", "file"]),
                     "keep_tmp": rng.random() < 0.5, "unmapped": rng.random() < 0.5, "seed": seeds[1]})
        # the options of the extended configuration space, mixed into the plain configurations by the seed
        # (the history / pool scenarios are built on these configurations and inherit them)
        cfgs[0].update({"gzip": rng.random() < 0.5, "count_exons": rng.random() < 0.3})
        cfgs[1].update({"gzip": rng.random() < 0.5, "no_model": rng.random() < 0.3, "high_memory": rng.random() < 0.3})
    else:
        cfgs.append({"toy": True, "n": 1, "genedb": True, "rg": "none", "keep_tmp": False, "unmapped": False, "seed": 0})
        cfgs.append({"n": 3, "genedb": True, "rg": "file", "keep_tmp": False, "unmapped": True, "seed": seeds[0]})
        cfgs.append({"n": 2, "genedb": False, "rg": "inline", "keep_tmp": True, "unmapped": True, "seed": seeds[1]})
        cfgs.append({"n": 4, "genedb": True, "rg": "none", "keep_tmp": False, "unmapped": False, "seed": seeds[2]})
        cfgs.append({"n": 1, "genedb": False, "rg": "none", "keep_tmp": False, "unmapped": True, "seed": seeds[3]})
        cfgs.append({"n": rng.choice([2, 3]), "genedb": rng.random() < 0.5, "rg": rng.choice(["none", "inline", "file"]),
                     "keep_tmp": rng.random() < 0.5, "unmapped": rng.random() < 0.5, "seed": seeds[5]})
        cfgs[1].update({"gzip": True, "count_exons": True})
        cfgs[2].update({"gzip": True, "no_model": True, "high_memory": True})
        cfgs[3].update({"high_memory": True, "resume_high_memory": True, "count_exons": True})
        cfgs[4].update({"no_model": True, "count_exons": True})           # --count_exons without an annotation: no effect
        cfgs[5].update({"gzip": rng.random() < 0.5, "count_exons": rng.random() < 0.5, "no_model": rng.random() < 0.5,
                        "high_memory": rng.random() < 0.5, "resume_high_memory": rng.random() < 0.5})
    return cfgs


def opts_configs(ctx):
    """the configurations dedicated to the options added to the model: --count_exons, --no_model_construction, gzipped
    outputs (no --no_gzip), --high_memory (kept or dropped by the resume command line).  Two small ones in the quick tier
    (every option is on in one of them whatever the seed), the same two + two random ones in the thorough tier"""
    rng = ctx.rng
    # A is always a --keep_tmp run continued with `--resume` alone (an option --resume must restore: its loss shows as
    # clean-up events of the resumed run), B always a --high_memory run continued with `--resume` alone (read accesses)
    a = {"n": rng.choice([1, 2]), "genedb": True, "rg": rng.choice(["inline", "file"]), "keep_tmp": True,
         "unmapped": rng.random() < 0.5, "seed": rng.randrange(10 ** 6), "opts": True,
         "count_exons": True, "gzip": True, "high_memory": rng.random() < 0.5, "resume_high_memory": rng.random() < 0.5}
    b = {"n": rng.choice([1, 2]), "genedb": rng.random() < 0.7, "rg": rng.choice(["none", "inline"]), "keep_tmp": False,
         "unmapped": rng.random() < 0.5, "seed": rng.randrange(10 ** 6), "opts": True,
         "no_model": True, "high_memory": True, "resume_high_memory": False, "gzip": rng.random() < 0.5,
         "count_exons": rng.random() < 0.5}
    res = [a, b]
    if ctx.tier != "quick":
        for _ in range(2):
            res.append({"n": rng.choice([2, 3]), "genedb": rng.random() < 0.8, "rg": rng.choice(["none", "inline", "file"]),
                        "keep_tmp": rng.random() < 0.3, "unmapped": rng.random() < 0.5, "seed": rng.randrange(10 ** 6),
                        "opts": True, "count_exons": rng.random() < 0.6, "no_model": rng.random() < 0.5,
                        "gzip": rng.random() < 0.6, "high_memory": rng.random() < 0.5,
                        "resume_high_memory": rng.random() < 0.5})
    return res


class Session:
    """one configuration: data set, uninterrupted run under the wrapper, its canonical trace"""
    kind = "plain"
    history = None           # description of the history scenario (replay)
    from_saves = False

    def __init__(self, base, idx, cfg, data=None):
        self.cfg = cfg
        self.dir = os.path.join(base, "cfg%d" % idx)
        self.data = data or R.make_dataset(cfg, os.path.join(self.dir, "data"))
        self.prefix = cfg.get("prefix", R.PREFIX)
        self.table = path_table(self.data["chrs"], self.prefix)
        self.fs0 = []
        self.setup()
        wd = os.path.join(self.dir, "clean")
        os.makedirs(wd, exist_ok=True)
        self.prepare(wd)
        rc, log, tr = R.run_wrapped(wd, cfg, self.data, args=self.args(wd))
        self.clean_rc, self.clean_log = rc, log[-1500:]
        self.trace = tr
        self.clean_outputs = R.final_outputs(os.path.join(wd, "out"), self.prefix) if rc == 0 else {}
        self.muts, self.commits, self.unknown = canon_trace(tr, self.table)
        self.results = {}

    # hooks of the history scenarios
    def setup(self):
        pass

    def prepare(self, wd):
        pass

    def args(self, wd, threads=1):
        return None

    def model_cfg(self):
        ix = {c: i for i, c in enumerate(self.data["chrs"])}
        return {"chrs": list(range(len(ix))), "mchrs": [ix[c] for c in self.data["mchrs"]],
                "bchrs": [ix[c] for c in self.data["bchrs"]], "genedb": bool(self.cfg.get("genedb", True)),
                "rg": self.cfg.get("rg", "none"), "keepTmp": bool(self.cfg.get("keep_tmp")),
                "unmapped": bool(self.cfg.get("unmapped")), "fromSaves": self.from_saves,
                "sqanti": bool(self.cfg.get("sqanti")), "countExons": bool(self.cfg.get("count_exons")),
                "noModel": bool(self.cfg.get("no_model")), "gzip": bool(self.cfg.get("gzip")),
                "highMemory": bool(self.cfg.get("high_memory")), "gzRef": bool(self.cfg.get("gz_ref")),
                "idx": bool(self.cfg.get("fai")) or (bool(self.cfg.get("gz_ref")) and not FAI_ORIG)}

    def resume_opts(self):
        """what the resume command line sets: `--resume [--high_memory]`; an option that is not repeated keeps the value of
        the killed run (development aid VERIF_C07_RESUME_ORIG=1: the resume parser before the repair, --high_memory always
        overridden)"""
        if os.environ.get("VERIF_C07_RESUME_ORIG") == "1":
            return {"resumeHM": bool(self.cfg.get("resume_high_memory")), "resumeKT": False, "resumeOrig": True}
        return {"resumeHM": bool(self.cfg.get("resume_high_memory")), "resumeKT": False}

    def leftover_fs(self, outdir, good=()):
        """model file system of the files found in a folder: complete files of another run are `stale`"""
        res = []
        for rel in R.snapshot(outdir):
            mp = self.table.get(rel)
            if mp is not None:
                res.append([mp, "good" if mp[0] in good else "stale"])
        return res

    def first_point(self):
        """first kill point inside the quantifier: the mutation after `.params` was written"""
        last = None
        for n, op, p in self.muts:
            if is_params(p):
                last = n            # `open` of .params.tmp, then the rename over .params (before ffd90d3: one `open` of .params)
            elif last is not None:
                break
        return None if last is None else last + 1

    def points(self, ctx):
        first = self.first_point()
        last = self.muts[-1][0]
        allp = [(k, ph) for k in range(first, last + 1) for ph in "ba"]
        if self.kind == "sqanti":
            # every per-chromosome / stage lock in both phases (right after a lock appeared is where unflushed data shows)
            locks = sorted({(n, x) for n, o, p in self.muts if n >= first and o == "create" and
                            p[0] in ("collected", "processed", "lock") for x in "ab"})
            rest = [p for p in allp if p not in locks]
            return sorted(set(locks + ctx.rng.sample(rest, min(len(rest), 6 if ctx.tier == "quick" else 40))))
        if ctx.tier != "quick":
            n = getattr(self, "sample_thorough", None)
            if n is None:
                return allp
            early = [(k, ph) for k in range(first, min(first + 30, last + 1)) for ph in "ba"]
            rest = [p for p in allp if p not in early]
            return sorted(set(early + ctx.rng.sample(rest, min(len(rest), n))))
        # quick: every lock / first-removal point + a seeded sample
        special = []
        for n, op, p in self.muts:
            if n >= first and (p[0] in ("collected", "processed", "lock", "rgLock") or (op == "remove" and p[0] in ("part", "info", "save"))):
                special += [(n, "a"), (n, "b")]
        special = sorted(set(special))
        if self.kind != "plain":
            # history scenarios: the kill points right after `.params` (stale locks not yet dealt with) + a small sample
            early = [(k, ph) for k in range(first, min(first + 7, last + 1)) for ph in "ba"]
            special = [p for p in special if p not in early]
            special = ctx.rng.sample(special, min(len(special), 8))
            rest = [p for p in allp if p not in special and p not in early]
            return sorted(set(early + special + ctx.rng.sample(rest, min(len(rest), 8))))
        if len(special) > 24:
            special = ctx.rng.sample(special, 24)
        rest = [p for p in allp if p not in special]
        return sorted(set(special + ctx.rng.sample(rest, min(len(rest), 14))))

    def run_point(self, k, ph, threads=1):
        key = (k, ph, threads)
        if key not in self.results:
            wd = os.path.join(self.dir, "t_%d%s_%d" % (k, ph, threads))
            r = R.crash_resume(wd, self.cfg, self.data, k, ph, self.clean_outputs, threads=threads,
                               prepare=self.prepare, args=lambda w: self.args(w, threads), prefix=self.prefix)
            shutil.rmtree(wd, ignore_errors=True)
            self.results[key] = r
        return self.results[key]

    def cleanup_order(self, muts):
        """directory order seen by the clean-up: the removals of auxiliary files after the last non-removal mutation"""
        tail = []
        for n, op, p in reversed(muts):
            if op == "remove" and p[0] in ("save", "groups", "bamstat", "collected", "multimap", "info", "lock", "readStat",
                                           "trStat", "processed", "rgSplit", "rgLock"):
                tail.append(p)
            else:
                break
        return list(reversed(tail))


class DirtySession(Session):
    """history: the output folder holds the remains of an earlier run on other input (the alternative alignment file),
    killed at mutation k1; the run under test is started over it with --force"""
    kind = "dirty"

    def __init__(self, base, idx, cfg, data, k1, ph1):
        self.k1, self.ph1 = k1, ph1
        self.history = {"kind": "dirty", "k1": k1, "ph1": ph1}
        Session.__init__(self, base, idx, cfg, data)

    def setup(self):
        self.tmpl = os.path.join(self.dir, "earlier")
        os.makedirs(self.tmpl, exist_ok=True)
        rc, log, tr = R.run_wrapped(self.tmpl, self.cfg, self.data, crash=(self.k1, self.ph1),
                                    args=R.cli_args(self.cfg, self.data, alt=True), state="state_earlier")
        self.earlier_rc = rc
        self.fs0 = self.leftover_fs(os.path.join(self.tmpl, "out"))

    def prepare(self, wd):
        shutil.copytree(os.path.join(self.tmpl, "out"), os.path.join(wd, "out"))

    def args(self, wd, threads=1):
        return R.cli_args(self.cfg, self.data, threads=threads, force=True)


class SavesSession(Session):
    """`--read_assignments`: an earlier --keep_tmp run (finished, or killed at mutation kA after its read collection)
    left its save files; the run under test is started from a copy of them in a fresh output folder"""
    kind = "saves"
    from_saves = True

    def __init__(self, base, idx, cfg, data, kA):
        self.kA = kA
        self.history = {"kind": "saves", "kA": kA}
        Session.__init__(self, base, idx, cfg, data)

    def setup(self):
        self.prefix = R.PREFIX + "0"
        self.table = saves_table(self.data["chrs"], path_table(self.data["chrs"], self.prefix))
        self.tmpl = os.path.join(self.dir, "earlier")
        os.makedirs(self.tmpl, exist_ok=True)
        cfgA = dict(self.cfg, keep_tmp=True)
        rc, log, tr = R.run_wrapped(self.tmpl, cfgA, self.data, crash=(self.kA, "a") if self.kA else None,
                                    state="state_earlier")
        self.earlier_rc = rc
        self.saves = os.path.join(self.tmpl, "out", R.PREFIX, "aux")
        tmp = os.path.join(self.dir, "fs0probe")
        self.prepare(tmp)
        self.fs0 = self.leftover_fs(os.path.join(tmp, "out"),
                                    good=("info", "multimap", "save", "lock", "collected", "groups", "bamstat"))
        shutil.rmtree(tmp, ignore_errors=True)

    def prepare(self, wd):
        os.makedirs(os.path.join(wd, "out"), exist_ok=True)
        shutil.copytree(self.saves, os.path.join(wd, "out", "saves"))

    def args(self, wd, threads=1):
        return R.cli_args(self.cfg, self.data, threads=threads, saves=os.path.join(wd, "out", "saves", R.PREFIX + ".save"))


class OptsSession(Session):
    """a configuration with the options added to the model (--count_exons / --no_model_construction / gzipped outputs /
    --high_memory); kill points: both phases of every lock, the first removal of every merged stream, a seeded sample"""
    kind = "opts"

    def points(self, ctx):
        first, last = self.first_point(), self.muts[-1][0]
        allp = [(k, ph) for k in range(first, last + 1) for ph in "ba"]
        if ctx.tier != "quick":
            return allp
        special, seen = [], set()
        for n, op, p in self.muts:
            if n < first:
                continue
            if op == "create" and p[0] in ("collected", "processed", "lock"):
                special += [(n, "a"), (n, "b")]
            if op == "remove" and p[0] == "part" and p[1] not in seen:      # merge of a stream starts
                seen.add(p[1])
                if p[1] in ("exon", "intronG", "bed", "gene"):
                    special.append((n, "a"))
        special = sorted(set(special))
        if len(special) > 16:
            special = sorted(ctx.rng.sample(special, 16))
        rest = [p for p in allp if p not in special]
        return sorted(set(special + ctx.rng.sample(rest, min(len(rest), 8))))


class GzRefSession(Session):
    """the reference is gzip- but not bgzip-compressed: DatasetProcessor.__init__ unpacks it into <out>/<name> right after
    `.params` was saved (path class `refFa`, model stage `refStage`).  Every run works on its own copy of the compressed
    file (pyfaidx writes the index of the unpacked copy next to the *compressed* file).  With `stale_ref` the output folder
    holds the remains of an earlier, finished run on ANOTHER reference with the same file name (the genome without one
    chromosome that has reads): its unpacked copy carries the name this run will use; the run under test is started
    over it with --force.  Kill points: around the unpack in all phases - before the open, right after it (empty file),
    inside the copy (phase `w`: the first 64 KiB piece is in the file), before the next mutation - + every lock + a sample"""
    kind = "gzref"

    def __init__(self, base, idx, cfg, data=None):
        if cfg.get("stale_ref"):
            self.history = {"kind": "stale_ref"}
        Session.__init__(self, base, idx, cfg, data)

    def setup(self):
        self.table = PathTable(self.table)
        self.table[R.GZ_REF_NAME] = ["refFa"]
        self.table.add_index(R.GZ_REF_NAME)
        if not self.cfg.get("stale_ref"):
            return
        # the earlier run: same flags, a reference of the same name without the first chromosome of the BAM header
        import gzip
        self.tmpl = os.path.join(self.dir, "earlier")
        os.makedirs(os.path.join(self.tmpl, "ref"), exist_ok=True)
        other = os.path.join(self.tmpl, "ref", R.GZ_REF_NAME + ".gz")
        drop = self.data["bchrs"][0]
        with open(self.data["paths"]["ref"]) as f, gzip.open(other, "wt") as g:
            keep = True
            for line in f:
                if line.startswith(">"):
                    keep = line[1:].split()[0] != drop
                if keep:
                    g.write(line)
        rc, log, tr = R.run_wrapped(self.tmpl, self.cfg, self.data, args=R.cli_args(self.cfg, self.data, ref=other),
                                    state="state_earlier")
        self.earlier_rc = rc
        self.fs0 = self.leftover_fs(os.path.join(self.tmpl, "out"))

    def prepare(self, wd):
        os.makedirs(os.path.join(wd, "ref"), exist_ok=True)
        shutil.copy(self.data["paths"]["ref_gz"], os.path.join(wd, "ref", R.GZ_REF_NAME + ".gz"))
        if self.cfg.get("stale_ref"):
            shutil.copytree(os.path.join(self.tmpl, "out"), os.path.join(wd, "out"))

    def args(self, wd, threads=1):
        return R.cli_args(self.cfg, self.data, threads=threads, force=bool(self.cfg.get("stale_ref")),
                          ref=os.path.join(wd, "ref", R.GZ_REF_NAME + ".gz"))

    def points(self, ctx):
        first, last = self.first_point(), self.muts[-1][0]
        kr = next((n for n, o, p in self.muts if p == ["refFa"] and o == "create"), None)
        around = [] if kr is None else [(kr, "b"), (kr, "a"), (kr, "w"), (kr + 1, "b")]
        allp = [(k, ph) for k in range(first, last + 1) for ph in "ba"]
        if ctx.tier != "quick":
            if self.cfg.get("stale_ref"):
                return sorted(set(around + allp))          # all kill points over the stale copy
            early = [(k, ph) for k in range(first, min(first + 30, last + 1)) for ph in "ba"]
            rest = [p for p in allp if p not in early]
            return sorted(set(around + early + ctx.rng.sample(rest, min(len(rest), 80))))
        locks = [(n, x) for n, o, p in self.muts if n >= first and o == "create" and p[0] in ("collected", "processed", "lock")
                 for x in "ab"]
        if len(locks) > 6:
            locks = ctx.rng.sample(locks, 6)
        rest = [p for p in allp if p not in locks and p not in around]
        return sorted(set(around + locks + ctx.rng.sample(rest, min(len(rest), 4))))


class FaiSession(Session):
    """a reference without index **inside** the output folder (`<out>/ref/genome.fa`): load_indexed_reference builds the index
    as `<fai>.<hex>.tmp` and renames it - mutations of the output folder the wrapper numbers like any other (model:
    `Cfg.idx`, `refIndexActs`).  Kill points: both phases of the `open` of the temporary index and of the rename, the next
    mutation, both phases of the first lock, a few sampled.  On a tree before eab0ef3 pyfaidx opens the index itself: the
    kill right after that `open` leaves an empty index every later run trusts (`fai_index_partial`)."""
    kind = "fai"
    FASTA = "ref/genome.fa"

    def setup(self):
        self.table = PathTable(self.table)
        self.table.add_index(self.FASTA)

    def prepare(self, wd):
        os.makedirs(os.path.join(wd, "out", "ref"), exist_ok=True)
        shutil.copy(self.data["paths"]["ref"], os.path.join(wd, "out", self.FASTA))

    def args(self, wd, threads=1):
        return R.cli_args(self.cfg, self.data, threads=threads, ref=os.path.join(wd, "out", self.FASTA))

    def points(self, ctx):
        first, last = self.first_point(), self.muts[-1][0]
        ks = [n for n, o, p in self.muts if p[0] in ("refFai", "refFaiTmp")]
        around = [(k, ph) for k in ks for ph in "ba"] + ([(max(ks) + 1, "b")] if ks else [])
        allp = [(k, ph) for k in range(first, last + 1) for ph in "ba"]
        if ctx.tier != "quick":
            return sorted(set(around + allp))
        lock = [(n, ph) for n, o, p in self.muts if o == "create" and p[0] in ("collected", "lock") for ph in "ab"][:2]
        rest = [p for p in allp if p not in around and p not in lock]
        return sorted(set(around + lock + ctx.rng.sample(rest, min(len(rest), 2))))


class ConvSession(Session):
    """oracle only: the annotation is given as GTF, the run converts it (gffutils -> sqlite, `<out>/<name>.db`) between `.params`
    and the first modelled stage.  sqlite does not write through `open()`: the wrapper sees no mutation there, so the kills
    are timed - `<k>:t<s>` = <s> seconds after the `.params` mutation returned.  Why this stage needs no place in the model
    (docs/C07.md): a converted database is registered in the per-user cache only after the conversion has finished (and the
    cache file is replaced atomically); `find_converted_db` trusts a database only with that entry and matching mtimes, so
    a partial `.db` is never read: the resumed run converts again (`create_db(force=True)` unlinks and refills the file)."""
    kind = "conv"
    DELAYS = (0.004, 0.01, 0.02, 0.04, 0.08, 0.3)      # the conversion of the small annotation takes 20-60 ms on a quiet machine

    def __init__(self, base, idx, cfg, data=None):
        Session.__init__(self, base, idx, cfg, data)
        dbs = [f for f in R.snapshot(os.path.join(self.dir, "clean", "out")).items() if f[0].endswith(".db")]
        self.db_size = dbs[0][1] if dbs else None

    def points(self, ctx):
        np_ = self.first_point() - 1
        return [(np_, "t%g" % d) for d in self.DELAYS]


class SqantiSession(Session):
    """`--sqanti_output` on the toy data (the synthetic transcripts give no rows for the SQANTI-like table); an output
    prefix that does not occur in `SQANTI` (merge_files replaces the last occurrence of the prefix in a file name)"""
    kind = "sqanti"


TOP_LEVEL = ("paramsTmp", "refFa", "refFai", "refFaiData", "refFaiTmp")


def tag(p, j):
    if p == ["params"]:
        return p
    # the model files `.params.tmp` under the first experiment; the files of the reference stage (the unpacked copy of a
    # plain-gzip reference, the index inside the folder) belong to the invocation: the driver lists them under experiment 0
    return p + ["@%d" % (0 if p[0] in TOP_LEVEL else j)]


def untag(p):
    if p and isinstance(p[-1], str) and p[-1].startswith("@"):
        return int(p[-1][1:]), p[:-1]
    return None, p


class MultiSession(Session):
    """two experiments in one invocation (--bam_list), both alignment files with unaligned reads.  Every experiment is a
    run of the model in its own folder (`.params` is shared and written once); the model configuration of the second
    one says `carried`: the process-wide alignment counter is not zero when it starts.  Paths are tagged with the
    experiment's index.  `gz_ref`: the invocation's reference is plain-gzip compressed - unpacked and indexed **once**, in the
    top-level folder, before the first experiment (DatasetProcessor.__init__; model: `runRef`); `fai`: the reference lies in
    the output folder without an index (`<out>/ref/genome.fa`), the index is built once.  Both experiments read these files."""
    kind = "multi"
    FASTA = "ref/genome.fa"

    def __init__(self, base, idx, cfg, data=None):
        self.prefixes = list(R.MULTI_PREFIXES)
        Session.__init__(self, base, idx, cfg, data)

    def setup(self):
        self.prefix = self.prefixes
        self.table = {}
        for j, px in enumerate(self.prefixes):
            for rel, mp in path_table(self.data["chrs"], px).items():
                self.table[rel] = tag(mp, j)
        # the tables combined over the experiments, written by isoquant.py after the last experiment of every (also a
        # resumed) invocation from the experiments' final count tables: not part of the model, compared as final outputs
        for nm in ("gene_counts", "gene_tpm", "transcript_counts", "transcript_tpm"):
            self.table["combined_%s.tsv" % nm] = ["combined", nm]
        if self.cfg.get("gz_ref") or self.cfg.get("fai"):
            self.table = PathTable(self.table)
            fasta = R.GZ_REF_NAME if self.cfg.get("gz_ref") else self.FASTA
            if self.cfg.get("gz_ref"):
                self.table[fasta] = tag(["refFa"], 0)
            self.table.add_index(fasta)
            self.table[fasta + ".fai"] = tag(["refFai"], 0)
            self.table.patterns = [(rx, tag(mp, 0)) for rx, mp in self.table.patterns]

    def prepare(self, wd):
        if self.cfg.get("gz_ref"):
            os.makedirs(os.path.join(wd, "ref"), exist_ok=True)
            shutil.copy(self.data["paths"]["ref_gz"], os.path.join(wd, "ref", R.GZ_REF_NAME + ".gz"))
        elif self.cfg.get("fai"):
            os.makedirs(os.path.join(wd, "out", "ref"), exist_ok=True)
            shutil.copy(self.data["paths"]["ref"], os.path.join(wd, "out", self.FASTA))

    def args(self, wd, threads=1):
        if self.cfg.get("gz_ref"):
            return R.cli_args(self.cfg, self.data, threads=threads, ref=os.path.join(wd, "ref", R.GZ_REF_NAME + ".gz"))
        if self.cfg.get("fai"):
            return R.cli_args(self.cfg, self.data, threads=threads, ref=os.path.join(wd, "out", self.FASTA))
        return None

    def split(self, muts):
        """tagged mutations [(n, op, path)] -> per experiment [(n, op, path)]; `.params` goes to experiment 0"""
        res = [[] for _ in self.prefixes]
        for n, o, p in muts:
            j, q = untag(p)
            res[j or 0].append((n, o, q))
        return res

    def points(self, ctx):
        first, last = self.first_point(), self.muts[-1][0]
        second = [n for n, o, p in self.muts if untag(p)[0] == 1]
        lock2 = next((n for n, o, p in self.muts if untag(p) == (1, ["lock"]) and o == "create"), None)
        firstp = [n for n, o, p in self.muts if n >= first and untag(p)[0] in (0, None)]
        after = [n for n in second if lock2 is not None and n > lock2]
        before = [n for n in second if lock2 is None or n < lock2]
        quick = ctx.tier == "quick"
        ks = ctx.rng.sample(firstp, min(len(firstp), 3 if quick else 20)) + \
            ctx.rng.sample(before, min(len(before), 3 if quick else 20)) + \
            ctx.rng.sample(after, min(len(after), 4 if quick else 30))
        pts = {(k, ctx.rng.choice("ab")) for k in ks}
        if lock2 is not None:
            pts |= {(lock2, "a"), (lock2, "b")}
        # the reference stage of the invocation: around the unpacking (before the open, right after it, inside the copy,
        # before the next mutation), both phases of the index's temporary file and of its rename, the mutation after it
        kr = next((n for n, o, p in self.muts if untag(p)[1] == ["refFa"] and o == "create"), None)
        if kr is not None:
            pts |= {(kr, "b"), (kr, "a"), (kr, "w"), (kr + 1, "b")}
        ki = [n for n, o, p in self.muts if untag(p)[1][0] in ("refFai", "refFaiTmp")]
        if ki:
            pts |= {(k, ph) for k in ki for ph in "ba"} | {(max(ki) + 1, "b")}
        return sorted(pts)


GLOB_PREFIX = "run[1]"      # an experiment name that is a glob pattern not matching itself


def pick_earlier_kill(sess, rng, what):
    """a kill point of the earlier run, by class, from the mutation trace of the plain session"""
    def first(pred):
        return next((n for n, o, p in sess.muts if pred(o, p)), None)
    if what == "collection":     # a random point of the read collection (seed C07_a; audit 2 GAP C07-3): some chromosomes have
        kl = next((n for n, o, p in sess.muts if o == "create" and p[0] == "lock"), 10 ** 9)      # their _collected lock,
        k0 = next((n for n, o, p in sess.muts if o == "create" and p[0] == "collected"), 0)     # no stage lock yet
        ks = [n for n, o, p in sess.muts if o != "remove" and k0 <= n < kl and p[0] in ("save", "groups", "bamstat", "collected")]
        return (rng.choice(ks), "a") if ks else (None, "a")
    if what == "collected":      # during read collection: one chromosome has its _collected lock, no stage lock yet
        return first(lambda o, p: o == "create" and p[0] == "collected"), "a"
    if what == "lock":           # read collection finished
        return first(lambda o, p: o == "create" and p[0] == "lock"), "a"
    if what == "processed":      # model construction: one chromosome has its _processed lock
        return first(lambda o, p: o == "create" and p[0] == "processed"), "a"
    if what == "merge":          # merging in progress
        return first(lambda o, p: o == "remove" and p[0] == "part"), "a"
    ks = [n for n, o, p in sess.muts if n >= sess.first_point()]
    return rng.choice(ks), rng.choice("ab")


def history_sessions(ctx, plain):
    """history scenarios built on the data of the plain sessions"""
    st = _state(ctx)
    quick = ctx.tier == "quick"
    res = []
    cand = [s for s in plain if s.clean_rc == 0 and not s.cfg.get("toy")]
    if not cand:
        return res
    multi = sorted([s for s in cand if len(s.data["chrs"]) >= 2], key=lambda s: len(s.muts)) or cand
    base_s = multi[0]
    idx = 100
    # quick: one dirty folder - the earlier run (other input) killed at a random point of its read collection (60 %) or at
    # a lock / merge point -, always under an experiment name with glob metacharacters (GLOB_PREFIX: remove_previous_run_locks
    # and the clean-up find their files through glob patterns built from the name); thorough: four histories
    kinds = [ctx.rng.choice(["collection"] * 3 + ["lock", "processed"])] if quick else ["collected", "collection", "processed", "random"]
    for what in kinds:
        k1, ph1 = pick_earlier_kill(base_s, ctx.rng, what)
        if k1 is None:
            continue
        globp = quick or what == "collection"
        res.append(DirtySession(st["base"], idx, dict(base_s.cfg, prefix=GLOB_PREFIX) if globp else dict(base_s.cfg),
                                base_s.data, k1, ph1))
        if not globp:
            res[-1].ref_outputs = base_s.clean_outputs
        if what != "collected":
            res[-1].sample_thorough = 80      # all kill points for the first history, a sample for the others
        ctx.count("history:dirty:earlier_killed_at_" + what)
        idx += 1
    # --read_assignments (no per-chromosome read-group table there: the split needs the alignment files)
    scfg = dict(base_s.cfg)
    if scfg.get("rg") == "file":
        scfg["rg"] = "inline"
    scfg["keep_tmp"] = False
    kproc, _ = pick_earlier_kill(base_s, ctx.rng, "processed")
    # the earlier run is a --keep_tmp run of the same flags: its own trace has the same numbering up to the merges
    for kA in ([ctx.rng.choice([None, kproc])] if quick else [None, kproc]):
        if scfg != base_s.cfg and kA is not None:
            # numbering of the earlier run differs from the plain session's: find the first _processed lock by a dry trace
            probe = Session(st["base"], idx + 50, dict(scfg, keep_tmp=True), base_s.data)
            kA = pick_earlier_kill(probe, ctx.rng, "processed")[0]
        res.append(SavesSession(st["base"], idx, scfg, base_s.data, kA))
        ctx.count("history:saves:" + ("earlier_finished" if kA is None else "earlier_killed_after_processed"))
        idx += 1
    return res


def _state(ctx):
    st = getattr(ctx, "_c07", None)
    if st is None:
        base = tempfile.mkdtemp(prefix="isoverif_c07_")
        st = {"base": base, "sessions": None, "workers": max(2, min(14, (os.cpu_count() or 4) - 2))}
        ctx._c07 = st
    return st


def sessions(ctx):
    st = _state(ctx)
    if st["sessions"] is None:
        st["sessions"] = []
        for i, cfg in enumerate(configs(ctx)):
            st["sessions"].append(Session(st["base"], i, cfg))
            ctx.count("config:n=%d,genedb=%s,rg=%s,keep_tmp=%s,unmapped=%s%s" % (
                cfg["n"], cfg.get("genedb"), cfg.get("rg"), cfg.get("keep_tmp"), cfg.get("unmapped"),
                "".join(",%s" % x for x in ("count_exons", "no_model", "gzip", "high_memory", "resume_high_memory") if cfg.get(x))))
        if os.environ.get("VERIF_C07_VARIANT") != "pinned":     # (the development aid compares the plain scenarios only)
            st["sessions"] += history_sessions(ctx, list(st["sessions"]))
            for i, cfg in enumerate(opts_configs(ctx)):
                st["sessions"].append(OptsSession(st["base"], 300 + i, cfg))
                ctx.count("config:opts:count_exons=%s,no_model=%s,gzip=%s,high_memory=%s,resume_high_memory=%s" % tuple(
                    bool(cfg.get(x)) for x in ("count_exons", "no_model", "gzip", "high_memory", "resume_high_memory")))
            # a plain-gzip reference, unpacked into the output folder after `.params` (quick: over the remains of a run on
            # another reference of the same name or in a fresh folder, by the seed; thorough: both)
            for gi, stale in enumerate([ctx.rng.random() < 0.5] if ctx.tier == "quick" else [False, True]):
                gcfg = {"n": 4, "genedb": ctx.rng.random() < 0.7, "rg": ctx.rng.choice(["none", "inline", "file"]),
                        "keep_tmp": ctx.rng.random() < 0.3, "unmapped": ctx.rng.random() < 0.5,
                        "seed": ctx.rng.randrange(10 ** 6), "gz_ref": True, "stale_ref": stale}
                st["sessions"].append(GzRefSession(st["base"], 400 + gi, gcfg))
                ctx.count("config:gz_ref,stale_ref=%s,genedb=%s,rg=%s,keep_tmp=%s" % (stale, gcfg["genedb"], gcfg["rg"], gcfg["keep_tmp"]))
            # the FASTA index written by pyfaidx after `.params` (oracle only; known finding `fai_index_partial`); off by
            # default until known_findings.json has the entry (VERIF_C07_FAI_PROBE=1 switches it on)
            if True:
                st["sessions"].append(FaiSession(st["base"], 450, {"n": 2, "genedb": False, "rg": "none", "keep_tmp": False,
                                                                    "unmapped": False, "seed": 4711, "fai": True}))
                ctx.count("config:fai_index_inside_output_folder")
            # GTF input: timed kills inside the annotation conversion (oracle only)
            st["sessions"].append(ConvSession(st["base"], 460, {"n": 2, "genedb": True, "rg": "none", "keep_tmp": False,
                                                                 "unmapped": False, "seed": 4712, "gtf_input": True}))
            ctx.count("config:gtf_input_conversion_inside_the_run")
            # --sqanti_output (toy data) and a two-experiment invocation with unaligned reads in both alignment files
            st["sessions"].append(SqantiSession(st["base"], 200, {"toy": True, "n": 1, "genedb": True, "rg": "none",
                                                                  "keep_tmp": False, "unmapped": False, "seed": 0,
                                                                  "sqanti": True, "prefix": "Q7x"}))
            ctx.count("config:sqanti_output,toy")
            # the invocation's reference: read directly / plain-gzip (unpacked + indexed once, top-level folder) / inside
            # the output folder without an index (quick: one of the three by the seed; thorough: all three)
            refs = [ctx.rng.choice(["plain", "gz_ref", "fai"])] if ctx.tier == "quick" else ["plain", "gz_ref", "fai"]
            if os.environ.get("VERIF_C07_MULTI_REF"):       # development aid: the reference(s) of the two-experiment sessions
                refs = os.environ["VERIF_C07_MULTI_REF"].split(",")
            for mi, ref in enumerate(refs):
                mcfg = {"n": ctx.rng.choice([1, 2]), "genedb": True, "rg": ctx.rng.choice(["none", "inline"]),
                        "keep_tmp": ctx.rng.random() < 0.3, "unmapped": True, "seed": ctx.rng.randrange(10 ** 6), "multi": True}
                if ref != "plain":
                    mcfg[ref] = True
                # the resume command line of the invocation: `--resume` alone or `--resume --high_memory`
                mcfg["resume_high_memory"] = ctx.rng.random() < 0.5
                st["sessions"].append(MultiSession(st["base"], 201 + mi, mcfg))
                ctx.count("config:two_experiments,n=%d,rg=%s,keep_tmp=%s,reference=%s,resume_high_memory=%s" % (
                    mcfg["n"], mcfg["rg"], mcfg["keep_tmp"], ref, mcfg["resume_high_memory"]))
    return st["sessions"]


def second_kill_points(ctx, sess):
    """two interruptions (plain sessions): the first kill right after the first `_collected` lock, the second one inside the
    resumed run - before / right after its own `open` of `.params` (save_params rewrites the file), before its next
    mutation, and at sampled later mutations.  -> [(k1, ph1, k2, ph2)], numbering of the resumed run from the trace of an
    uninterrupted resume after the same first kill"""
    key = ("second", id(sess))
    st = _state(ctx)
    if key in st:
        return st[key]
    st[key] = []
    k1 = next((n for n, o, p in sess.muts if o == "create" and p[0] == "collected"), None)
    if k1 is None:
        return st[key]
    r1 = sess.run_point(k1, "a")
    if r1["verdict"] != "EQUAL":
        return st[key]
    rt = canon_trace(r1.get("resume_trace", []), sess.table)[0]
    ps = [n for n, o, p in rt if is_params(p)]          # `open` of .params.tmp, rename over .params (old: `open` of .params)
    if not ps:
        return st[key]
    np_ = ps[0]
    around = [(k1, "a", n, ph) for n in ps for ph in "ba"] + [(k1, "a", ps[-1] + 1, "b")]
    later = [n for n, o, p in rt if n > ps[-1] + 1]
    extra = ctx.rng.sample(later, min(len(later), 2 if ctx.tier == "quick" else 12))
    st[key] = around + [(k1, "a", n, ctx.rng.choice("ab")) for n in sorted(extra)]
    sess.second_resume_muts = rt
    return st[key]


def run_second(ctx, sess, pts):
    st = _state(ctx)

    def one(p):
        key = ("second_res", id(sess), p)
        if key not in st:
            k1, ph1, k2, ph2 = p
            wd = os.path.join(sess.dir, "t2_%d%s_%d%s" % p)
            st[key] = R.crash_resume_twice(wd, sess.cfg, sess.data, k1, ph1, k2, ph2, sess.clean_outputs, prepare=sess.prepare,
                                           args=lambda w: sess.args(w), prefix=sess.prefix)
            shutil.rmtree(wd, ignore_errors=True)
        return st[key]
    with ThreadPoolExecutor(st["workers"]) as ex:
        return list(ex.map(one, pts))


def second_kill_check(ctx, sess, tag, mcfg, ord1, m_muts, evs1):
    """verdicts of two interruptions against the model (driver op C07.verdict2 = `verdictTwice`)"""
    pts = second_kill_points(ctx, sess)
    if not pts:
        return
    res = run_second(ctx, sess, pts)
    off = sess.muts[0][0] - 1
    rt = sess.second_resume_muts
    off2 = rt[0][0] - 1
    k1, ph1 = pts[0][0], pts[0][1]
    idx1 = model_index(m_muts, k1 - off, ph1, evs1)
    mo1 = ctx.driver.run([vlib.req("C07.verdict", variant=VARIANT_FIXED, cfg=mcfg, ord=ord1, ord2=sess.cleanup_order(rt), k=idx1,
                                   fs0=sess.fs0, **sess.resume_opts())])[0]
    if isinstance(mo1, dict) and "driver_error" in mo1:
        ctx.disagree("second_kill", {"config": sess.cfg}, mo1, None)
        return
    evs2 = mo1["resumed"]["evs"]
    m2 = model_muts(evs2)[0]
    lines, keep = [], []
    for p, r in zip(pts, res):
        j2 = p[2] - off2
        if r["verdict"] == "NOCRASH" or j2 < 1 or j2 > len(m2):
            ctx.count("second_kill_not_reached")
            continue
        idx2 = model_index(m2, j2, p[3], evs2)
        lines.append(vlib.req("C07.verdict2", variant=VARIANT_FIXED, cfg=mcfg, ord=ord1, ord2=sess.cleanup_order(rt),
                              ord3=sess.cleanup_order(canon_trace(r.get("resume_trace", []), sess.table)[0]), k=idx1, k2=idx2,
                              fs0=sess.fs0, **sess.resume_opts()))
        keep.append((p, r, idx2))
    for mo, (p, r, idx2) in zip(ctx.driver.run(lines), keep):
        ctx.evaluations += 1
        inp = {"config": sess.cfg, "history": sess.history, "k": p[0], "phase": p[1], "k2": p[2], "phase2": p[3],
               "model_index": [idx1, idx2]}
        if isinstance(mo, dict) and "driver_error" in mo:
            ctx.disagree("second_kill", inp, mo, None)
            continue
        ctx.count("second_kill:" + r["verdict"])
        bad = []
        if mo["verdict"] != r["verdict"]:
            bad.append("verdict after two interruptions: model %s, real %s (%s)" % (mo["verdict"], r["verdict"], r["detail"][:200]))
        real_files = {json.dumps(sess.table[f]) for f in r["snapshot"] if f in sess.table}
        model_files = {json.dumps(q) for q, _ in mo["crash2"]}
        if real_files != model_files:
            bad.append("files after the second kill differ: only real %s, only model %s" %
                       (sorted(real_files - model_files)[:4], sorted(model_files - real_files)[:4]))
        if bad:
            ctx.disagree("second_kill", inp, bad, r["verdict"])
        else:
            ctx.mark_nontrivial([tag, "second"] + list(p))


def run_points(ctx, sess, pts):
    st = _state(ctx)
    with ThreadPoolExecutor(st["workers"]) as ex:
        return list(ex.map(lambda p: sess.run_point(p[0], p[1]), pts))


def model_index(m_muts, j, ph, evs=None):
    """number of model events executed when the run is killed before ('b') / right after ('a') its j-th mutation (1-based);
    'w' = inside the write session the mutation opened (part of the content is in the file): in the model the state after
    the partial commit that follows the open (`commit refFa stale`: the first pieces of the copy are in the file)"""
    i = m_muts[j - 1][0]
    if ph == "b":
        return i
    if ph == "w":
        return i + 2
    k = i + 1
    if evs is not None and evs[i][0] == "remove" and evs[i][1][0] in ("refFaiTmp", "paramsTmp"):
        # the mutation is os.replace(temporary file, final name): one atomic step = `remove refFaiTmp`, `commit refFaiData`,
        # `commit refFai` / `remove paramsTmp`, `commit params` in the model
        inst = ("refFaiData", "refFai") if evs[i][1][0] == "refFaiTmp" else ("params",)
        while k < len(evs) and evs[k][0] == "commit" and evs[k][1][0] in inst:
            k += 1
    return k


def correspondence(ctx):
    for si, sess in enumerate(sessions(ctx)):
        tag = "cfg%d" % si
        ctx.evaluations += 1
        if sess.clean_rc != 0:
            ctx.disagree("clean_run", {"config": sess.cfg, "history": sess.history}, "ok", {"rc": sess.clean_rc, "log": sess.clean_log})
            continue
        # monitor of the theorems' hypothesis WF.b_sub (every reference contig is in the BAM header) and WF.m_iff
        d = sess.data
        if not set(d["chrs"]) <= set(d["bchrs"]) or set(d["chrs"]) != set(d["mchrs"]):
            ctx.disagree("wf_monitor", {"config": sess.cfg, "history": sess.history},
                         "reference contigs %s, BAM header %s, merge order %s" % (d["chrs"], d["bchrs"], d["mchrs"]), None)
            continue
        ctx.count("monitor:reference_contigs_subset_of_bam_header")
        if sess.kind == "multi":
            multi_check(ctx, sess, tag)
            continue
        if sess.kind == "conv":
            ctx.count("oracle_only_session:conv")      # the conversion writes through sqlite: no trace to compare
            continue
        mcfg = sess.model_cfg()
        ord1 = sess.cleanup_order(sess.muts)
        out = ctx.driver.run([vlib.req("C07.run", variant=VARIANT_FIXED, cfg=mcfg, ord=ord1, resume=False, fs=sess.fs0)])[0]
        if "driver_error" in out:
            ctx.disagree("clean_trace", {"config": sess.cfg, "history": sess.history}, out, None)
            continue
        m_muts, m_commits = model_muts(out["evs"])
        real_seq = [[o, p] for _, o, p in sess.muts]
        model_seq = [[o, p] for _, o, p in m_muts]
        ctx.traces_validated += 1
        probs = []
        if sess.unknown:
            probs.append("files without a path class: %s" % sorted(set(sess.unknown))[:5])
        if not out["ok"]:
            probs.append("the model's uninterrupted run raises")
        if real_seq != model_seq:
            d = next((i for i, (a, b) in enumerate(zip(real_seq, model_seq)) if a != b), min(len(real_seq), len(model_seq)))
            probs.append("mutation traces differ at position %d: real %s, model %s (lengths %d / %d)" %
                         (d, real_seq[d:d + 2], model_seq[d:d + 2], len(real_seq), len(model_seq)))
        else:
            probs += completion_check(sess.muts, sess.commits, m_muts, m_commits)[:5]
            # the save files are read back by prepare_multimapper_dict unless --high_memory (no mutation: seen as reads)
            if save_reads(sess.trace, sess.table) != model_save_reads(out.get("reads")):
                probs.append("read accesses to the save files differ: real %s, model %s" %
                             (save_reads(sess.trace, sess.table), model_save_reads(out.get("reads"))))
        ctx.count("clean_trace_mutations", len(real_seq))
        if probs:
            ctx.disagree("clean_trace", {"config": sess.cfg, "history": sess.history}, probs, None)
            continue
        ctx.mark_nontrivial([tag, "clean_trace"])
        ctx.count("clean_trace:" + sess.kind)
        ctx.sample({"op": "clean_trace", "config": sess.cfg, "history": sess.history, "mutations": len(real_seq),
                    "model_events": len(out["evs"])})
        # --- kill points
        pts = sess.points(ctx)
        res = run_points(ctx, sess, pts)
        off = sess.muts[0][0] - 1            # numbered log lines before the first modelled mutation
        lines, keep = [], []
        for (k, ph), r in zip(pts, res):
            j = k - off
            if r["verdict"] == "NOCRASH" or j < 1 or j > len(m_muts):
                ctx.count("point_not_reached")
                continue
            idx = model_index(m_muts, j, ph, out["evs"])
            cm, _, _ = canon_trace(r["trace"], sess.table)
            ordc = sess.cleanup_order(cm)
            ordk = ordc + [p for p in ord1 if p not in ordc] if ordc else ord1
            rm = canon_trace(r.get("resume_trace", []), sess.table)[0]
            lines.append(vlib.req("C07.verdict", variant=VARIANT_FIXED, cfg=mcfg, ord=ordk, ord2=sess.cleanup_order(rm), k=idx,
                                  fs0=sess.fs0, **sess.resume_opts()))
            lines.append(vlib.req("C07.crash", variant=VARIANT_FIXED, cfg=mcfg, ord=ordk, k=idx, fs0=sess.fs0))
            keep.append(((k, ph), r, rm, idx))
        outs = ctx.driver.run(lines)
        for i, ((k, ph), r, rm, idx) in enumerate(keep):
            mo, mfs = outs[2 * i], outs[2 * i + 1]
            ctx.evaluations += 1
            ctx.traces_validated += 1
            inp = {"config": sess.cfg, "history": sess.history, "k": k, "phase": ph, "model_index": idx}
            if isinstance(mo, dict) and "driver_error" in mo:
                ctx.disagree("verdict", inp, mo, None)
                continue
            ctx.count("verdict:" + r["verdict"])
            ctx.count("phase:" + ph)
            ctx.count("kill_points:" + sess.kind)
            bad = []
            # files present at the kill
            real_files = {json.dumps(sess.table[f]) for f in r["snapshot"] if f in sess.table}
            model_files = {json.dumps(p) for p, _ in mfs}
            if real_files != model_files:
                bad.append("files at the kill differ: only real %s, only model %s" %
                           (sorted(real_files - model_files)[:4], sorted(model_files - real_files)[:4]))
            if mo["verdict"] != r["verdict"]:
                bad.append("verdict: model %s, real %s (%s)" % (mo["verdict"], r["verdict"], r["detail"][:300]))
            mr = [[o, p] for _, o, p in model_muts(mo["resumed"]["evs"])[0]]
            rr = [[o, p] for _, o, p in rm]
            if mr != rr and r["verdict"] != "FAIL":
                d = next((x for x, (a, b) in enumerate(zip(rr, mr)) if a != b), min(len(rr), len(mr)))
                bad.append("resumed traces differ at %d: real %s, model %s" % (d, rr[d:d + 2], mr[d:d + 2]))
            # the memory mode of the resumed run (restored from `.params` unless the resume command line switches it on):
            # a run that is not a --high_memory run reads every save file back after the collection
            if r["verdict"] != "FAIL" and save_reads(r.get("resume_trace", []), sess.table) != model_save_reads(mo["resumed"].get("reads")):
                bad.append("resumed run, read accesses to the save files: real %s, model %s (memory mode of the resumed run)" %
                           (save_reads(r.get("resume_trace", []), sess.table), model_save_reads(mo["resumed"].get("reads"))))
            if sess.cfg.get("high_memory"):
                ctx.count("kill_points:killed_run_high_memory,resume_cmdline_high_memory=%s" % bool(sess.cfg.get("resume_high_memory")))
            if bad:
                ctx.disagree("crash_point", inp, bad, r["verdict"])
            else:
                ctx.mark_nontrivial([tag, k, ph])
                if len(ctx.samples) < 8 and ctx.rng.random() < 0.1:
                    ctx.sample({"op": "crash_point", "input": inp, "killed_at": [o for n, o, p in sess.muts if n == k] +
                                [p for n, o, p in sess.muts if n == k], "verdict": r["verdict"], "resumed_mutations": len(rr)})
        if sess.kind == "plain" and (ctx.tier != "quick" or si == 0):
            second_kill_check(ctx, sess, tag, mcfg, ord1, m_muts, out["evs"])
    # --- process pool: the global trace is an interleaving of the model's per-task lists; kill points of pool runs
    pool_checks(ctx)


# ------------------------------------------------------------------------------------------------
# several experiments in one invocation

def multi_check(ctx, sess, tagname):
    """two experiments against the model's invocation (Model/ResumeMulti.lean `runMulti`: lock removal for every
    experiment, `.params` once, then every experiment in its own folder; `carried` is set by the model from the
    configurations before): the global mutation sequence of the uninterrupted invocation; kill points: the files at the
    kill in every folder, the verdict, the resumed invocation's global sequence"""
    inp0 = {"config": sess.cfg, "history": sess.history}
    nexp = len(sess.prefixes)

    def body(muts, what, probs):
        """the mutations without the trailing block that writes the combined tables"""
        core = [m for m in muts if m[2][0] != "combined"]
        if [m for m in muts[:len(core)] if m[2][0] == "combined"]:
            probs.append("%s: a combined table is written before the last experiment has finished" % what)
        return core

    def tagged(mevs):
        return [[e[0], tag(e[1], x)] + e[2:] for x, e in mevs]
    probs = []
    sess_muts = body(sess.muts, "uninterrupted run", probs)
    sess_commits = [(min(g, len(sess_muts)), p) for g, p in sess.commits if p[0] != "combined"]
    cfgs = [sess.model_cfg() for _ in range(nexp)]
    ords = [sess.cleanup_order(r) for r in sess.split(sess_muts)]
    out = ctx.driver.run([vlib.req("C07.multiRun", variant=VARIANT_FIXED, cfgs=cfgs, ords=ords)])[0]
    if isinstance(out, dict) and "driver_error" in out:
        ctx.disagree("multi_clean_trace", inp0, out, None)
        return
    m_evs = tagged(out["evs"])
    m_muts, m_commits = model_muts(m_evs)
    real_seq = [[o, p] for _, o, p in sess_muts]
    model_seq = [[o, p] for _, o, p in m_muts]
    ctx.traces_validated += 1
    if sess.unknown:
        probs.append("files without a path class: %s" % sorted(set(sess.unknown))[:5])
    if not out["ok"]:
        probs.append("the model's uninterrupted invocation raises")
    if real_seq != model_seq:
        d = next((i for i, (a, b) in enumerate(zip(real_seq, model_seq)) if a != b), min(len(real_seq), len(model_seq)))
        probs.append("mutation traces differ at position %d: real %s, model %s (lengths %d / %d)" %
                     (d, real_seq[d:d + 2], model_seq[d:d + 2], len(real_seq), len(model_seq)))
    else:
        probs += completion_check(sess_muts, sess_commits, m_muts, m_commits)[:5]
    ctx.count("clean_trace_mutations", len(real_seq))
    if probs:
        ctx.disagree("multi_clean_trace", inp0, probs, None)
        return
    ctx.mark_nontrivial([tagname, "clean_trace"])
    ctx.count("clean_trace:multi")
    # --- kill points
    pts = sess.points(ctx)
    res = run_points(ctx, sess, pts)
    off = sess.muts[0][0] - 1
    lines, keep = [], []
    for (k, ph), r in zip(pts, res):
        j = k - off
        if r["verdict"] == "NOCRASH" or j < 1 or j > len(m_muts):
            ctx.count("point_not_reached")
            continue
        idx = model_index(m_muts, j, ph, m_evs)
        pr = []
        cm = sess.split(body(canon_trace(r["trace"], sess.table)[0], "killed run", pr))
        rm_all = body(canon_trace(r.get("resume_trace", []), sess.table)[0], "resumed run", pr)
        rm = sess.split(rm_all)
        ordk = []
        for x in range(nexp):
            ordc = sess.cleanup_order(cm[x])
            ordk.append(ordc + [p for p in ords[x] if p not in ordc] if ordc else ords[x])
        lines.append(vlib.req("C07.multiVerdict", variant=VARIANT_FIXED, cfgs=cfgs, ords=ordk,
                              ords2=[sess.cleanup_order(rm[x]) for x in range(nexp)], k=idx, **sess.resume_opts()))
        keep.append(((k, ph), r, rm_all, idx, pr))
    mouts = ctx.driver.run(lines)
    for mo, ((k, ph), r, rm_all, idx, pr) in zip(mouts, keep):
        ctx.evaluations += 1
        ctx.traces_validated += 1
        inp = {"config": sess.cfg, "history": sess.history, "k": k, "phase": ph, "model_index": idx}
        if isinstance(mo, dict) and "driver_error" in mo:
            ctx.disagree("verdict", inp, mo, None)
            continue
        ctx.count("verdict:" + r["verdict"])
        ctx.count("phase:" + ph)
        ctx.count("kill_points:multi")
        bad = list(pr)
        real_files = {json.dumps(sess.table[f]) for f in r["snapshot"] if f in sess.table and sess.table[f][0] != "combined"}
        model_files = {json.dumps(tag(p, x)) for x, p, _ in mo["crash"]}
        if real_files != model_files:
            bad.append("files at the kill differ: only real %s, only model %s" %
                       (sorted(real_files - model_files)[:4], sorted(model_files - real_files)[:4]))
        if mo["verdict"] != r["verdict"]:
            bad.append("verdict: model %s, real %s (%s)" % (mo["verdict"], r["verdict"], r["detail"][:300]))
        mr = [[o, p] for _, o, p in model_muts(tagged(mo["resumed"]["evs"]))[0]]
        rr = [[o, p] for _, o, p in rm_all]
        if mr != rr and r["verdict"] != "FAIL":
            d = next((x for x, (a, b) in enumerate(zip(rr, mr)) if a != b), min(len(rr), len(mr)))
            bad.append("resumed traces differ at %d: real %s, model %s" % (d, rr[d:d + 2], mr[d:d + 2]))
        if bad:
            ctx.disagree("crash_point", inp, bad, r["verdict"])
        else:
            ctx.mark_nontrivial([tagname, k, ph])
            if ctx.rng.random() < 0.2:
                ctx.sample({"op": "crash_point_two_experiments", "input": inp, "verdict": r["verdict"],
                            "resumed_mutations": len(rr)}, cap=16)


# ------------------------------------------------------------------------------------------------
# process pool: the observed global trace is an interleaving of the model's per-task lists (stage barriers respected)

def chr_of(p):
    """chromosome index of a per-chromosome path, None for a global one"""
    if p[0] in ("part", "partLin", "partStats"):
        return p[2]
    if p[0] in ("rgSplit", "save", "groups", "bamstat", "collected", "multimap", "readStat", "trStat", "processed"):
        return p[1]
    return None


def next_mut(evs, j):
    return next((x for x in range(j, len(evs)) if evs[x][0] != "commit"), None)


def derive_schedules(phases, real, killed=False, pending=None):
    """phases: the phases of the model's pool run on the same file system (driver op C07.poolRun; the per-task lists and
    the main-process phases do not depend on the schedule); real: the *performed* mutations [(n, op, path)] of the real
    run in the order of their global numbers; killed: the real run was interrupted; pending: [op, path] of the mutation
    the killing process was about to perform (kill phase 'b').
    -> (s1, s2, n_events, problems): the event-level schedules of the two parallel stages that reproduce the observed
    order (a commit is placed right before the next mutation of its own task: the latest point the real run can
    have reached it), the number of model events the observed run has performed, structural problems (a mutation of a
    task outside its stage, of an unknown task, ...)"""
    i, nev, scheds, probs = 0, 0, [], []
    stopped, pend = False, pending
    for ph in phases:
        evs = ph["evs"]
        if ph["kind"] == "seq":
            j = 0
            while not stopped and j < len(evs):
                m = next_mut(evs, j)
                if m is None:                                  # trailing commits of the phase
                    if not killed or i < len(real) or pend is not None:
                        nev += len(evs) - j
                    break
                if i >= len(real):
                    stopped = True
                    if pend is not None and [evs[m][0], evs[m][1]] == pend:
                        nev += m - j                           # the commits before the mutation that was about to happen
                        pend = None
                    break
                if [real[i][1], real[i][2]] != [evs[m][0], evs[m][1]]:
                    probs.append("main-process mutation %d: real %s, model %s" % (i, [real[i][1], real[i][2]], evs[m][:2]))
                nev += m - j + 1
                i += 1
                j = m + 1
            continue
        tasks = {t[0]: t[1] for t in ph["tasks"]}
        ptr = {c: 0 for c in tasks}
        total = sum(1 for ev in tasks.values() for e in ev if e[0] != "commit")
        sched, cnt = [], 0
        while not stopped and cnt < total and i < len(real):
            n, o, p = real[i]
            c = chr_of(p)
            i += 1
            cnt += 1
            if c not in tasks:
                probs.append("mutation %s %s inside a parallel stage belongs to no task" % (o, p))
                continue
            m = next_mut(tasks[c], ptr[c])
            if m is None:
                probs.append("task %s has no mutation left for %s %s" % (c, o, p))
                continue
            if [o, p] != tasks[c][m][:2]:
                probs.append("task %s: real %s, model %s" % (c, [o, p], tasks[c][m][:2]))
            sched += [c] * (m - ptr[c] + 1)
            nev += m - ptr[c] + 1
            ptr[c] = m + 1
        if not stopped:
            if cnt < total:                                    # the trace ends inside the stage
                stopped = True
                if pend is not None and chr_of(pend[1]) in tasks:
                    c = chr_of(pend[1])
                    m = next_mut(tasks[c], ptr[c])
                    if m is not None and tasks[c][m][:2] == pend:
                        sched += [c] * (m - ptr[c])
                        nev += m - ptr[c]
                        pend = None
            else:                                              # barrier: what is left (trailing commits) is done by now
                nev += sum(len(tasks[c]) - ptr[c] for c in tasks)
        scheds.append(sched)
    if i < len(real):
        probs.append("%d observed mutations after the end of the model's run (first: %s)" % (len(real) - i, real[i][1:]))
    if pend is not None and killed:
        probs.append("the mutation the killed process was about to perform (%s) is not the model's next one" % (pend,))
    while len(scheds) < 2:
        scheds.append([])
    return scheds[0], scheds[1], nev, probs


def performed_mutations(muts, snap_keys, fs0_keys, k, ph):
    """the mutations of a killed run that were really performed.  A trace line is written *before* its mutation: the
    line of the killing process (number k) is decided by the kill phase; the last traced mutation of every other
    path may have been cut short by the kill - decided by the files found where that is visible (a created file that
    did not exist before / a removed file), else taken as performed."""
    last = {}
    for i, (n, o, p) in enumerate(muts):
        last[json.dumps(p)] = i
    exists = set(fs0_keys)
    res = []
    for i, (n, o, p) in enumerate(muts):
        key = json.dumps(p)
        drop = False
        if n == k:
            drop = ph == "b"
        elif last[key] == i:
            if o == "create" and key not in exists and key not in snap_keys:
                drop = True
            if o == "remove" and key in snap_keys:
                drop = True
        if not drop:
            res.append((n, o, p))
            if o == "remove":
                exists.discard(key)
            else:
                exists.add(key)
    return res


def pool_sessions(ctx):
    ss = [s for s in sessions(ctx) if s.clean_rc == 0 and len(s.data["chrs"]) >= 2]
    plain = [s for s in ss if s.kind == "plain"]
    hist = [s for s in ss if s.kind in ("dirty", "saves")]
    if ctx.tier == "quick":
        # one plain configuration and one history scenario (dirty folder / --read_assignments by the seed)
        return plain[:1], ([hist[ctx.seed % len(hist)]] if hist else [])
    return plain, hist


def pool_points(ctx, sess):
    """sampled kill points of pool runs: [(k, phase, threads)]; half of them inside the two parallel stages"""
    st = _state(ctx)
    key = ("pool_points", id(sess))
    if key in st:
        return st[key]
    first, last = sess.first_point(), sess.muts[-1][0]
    inside = [n for n, o, p in sess.muts if n >= first and o != "remove" and
              p[0] in ("save", "groups", "bamstat", "collected", "part", "partLin", "partStats", "readStat", "trStat", "processed")]
    allk = list(range(first, last + 1))
    if ctx.tier == "quick":
        n_in, n_any = (4, 2) if sess.kind == "plain" else (2, 1)
    else:
        n_in, n_any = (10, 5) if sess.kind == "plain" else (3, 2)
    ks = ctx.rng.sample(inside, min(len(inside), n_in)) + ctx.rng.sample(allk, min(len(allk), n_any))
    pts = {(k, ctx.rng.choice("ab"), ctx.rng.choice([2, 3, 4])) for k in ks}
    # right after every per-chromosome lock of the two parallel stages appeared: the states in which a resumed pool run
    # has a task to skip while the others recompute (in the thorough tier also right before, and for the history scenarios)
    locks = [n for n, o, p in sess.muts if n >= first and o == "create" and p[0] in ("collected", "processed")]
    if ctx.tier == "quick":
        if sess.kind == "plain":
            pts |= {(n, "a", ctx.rng.choice([2, 3, 4])) for n in locks}
    else:
        pts |= {(n, x, ctx.rng.choice([2, 3, 4])) for n in locks for x in ("ab" if sess.kind == "plain" else "a")}
    pts = sorted(pts)
    st[key] = pts
    return pts


def run_pool_points(ctx, sess, pts):
    st = _state(ctx)
    with ThreadPoolExecutor(max(2, st["workers"] // 2)) as ex:
        return list(ex.map(lambda p: sess.run_point(p[0], p[1], threads=p[2]), pts))


def pool_clean_check(ctx, sess, threads):
    """uninterrupted run with a process pool: same outputs as --threads 1, and the recorded global trace is an interleaving
    of the model's per-task lists with the stage barriers respected"""
    wd = os.path.join(sess.dir, "pool%d" % threads)
    shutil.rmtree(wd, ignore_errors=True)
    os.makedirs(wd)
    sess.prepare(wd)
    rc, log, tr = R.run_wrapped(wd, sess.cfg, sess.data, threads=threads, args=sess.args(wd, threads))
    outs = R.final_outputs(os.path.join(wd, "out"), sess.prefix) if rc == 0 else None
    shutil.rmtree(wd, ignore_errors=True)
    ctx.evaluations += 1
    inp = {"config": sess.cfg, "history": sess.history, "threads": threads}
    if rc != 0 or outs != sess.clean_outputs:
        ctx.disagree("pool_run", inp, "same outputs as --threads 1", {"rc": rc, "log": log[-400:]})
        return
    muts, commits, unknown = canon_trace(tr, sess.table)
    mcfg = sess.model_cfg()
    ord1 = sess.cleanup_order(muts) or sess.cleanup_order(sess.muts)
    base = ctx.driver.run([vlib.req("C07.poolRun", variant=VARIANT_FIXED, cfg=mcfg, ord=ord1, resume=False, fs=sess.fs0)])[0]
    if "driver_error" in base:
        ctx.disagree("pool_trace", inp, base, None)
        return
    s1, s2, nev, probs = derive_schedules(base["phases"], muts)
    out = ctx.driver.run([vlib.req("C07.poolRun", variant=VARIANT_FIXED, cfg=mcfg, ord=ord1, resume=False, fs=sess.fs0, s1=s1, s2=s2)])[0]
    ctx.traces_validated += 1
    m_muts, m_commits = model_muts(out["evs"])
    real_seq = [[o, p] for _, o, p in muts]
    model_seq = [[o, p] for _, o, p in m_muts]
    if unknown:
        probs.append("files without a path class: %s" % sorted(set(unknown))[:5])
    if not out["ok"]:
        probs.append("the model's pool run raises")
    if real_seq != model_seq:
        d = next((i for i, (a, b) in enumerate(zip(real_seq, model_seq)) if a != b), min(len(real_seq), len(model_seq)))
        probs.append("the global trace is not the interleaving the model gives for its own schedule: position %d, real %s, model %s "
                     "(lengths %d / %d)" % (d, real_seq[d:d + 2], model_seq[d:d + 2], len(real_seq), len(model_seq)))
    elif nev != len(out["evs"]):
        probs.append("the observed run covers %d of the model's %d events" % (nev, len(out["evs"])))
    # an executor with `threads` workers has at most that many tasks in progress (Model/ResumePool.lean maxInProgress)
    need = max([x.get("workers", 0) for x in out.get("phases", []) if x["kind"] == "pool"] or [0])
    ctx.count("pool_workers_needed:%d_of_%d" % (need, threads))
    if need > threads:
        probs.append("the observed schedule has %d tasks in progress at once, the executor has %d workers" % (need, threads))
    else:
        probs += completion_check(muts, commits, m_muts, m_commits)[:5]
    # how much the tasks really interleaved: number of task switches inside the parallel stages
    sw = sum(1 for s in (s1, s2) for a, b in zip(s, s[1:]) if a != b)
    ctx.count("pool_clean_trace:threads=%d" % threads)
    ctx.count("pool_task_switches", sw)
    if probs:
        ctx.disagree("pool_trace", inp, probs[:6], None)
        return
    if sw > len(sess.data["chrs"]) - 1 + len(sess.data["chrs"]) - 1:
        ctx.count("pool_clean_trace:really_interleaved")
    ctx.mark_nontrivial(["pool_trace", sess.kind, sess.cfg["seed"], threads])
    if len(ctx.samples) < 10:
        ctx.sample({"op": "pool_trace", "input": inp, "mutations": len(real_seq), "task_switches": sw,
                    "schedule_collect": s1[:24], "schedule_construct": s2[:24]})


def pool_kill_check(ctx, sess, pts, res):
    """kill points of pool runs against the model's pool run under the observed schedules"""
    mcfg = sess.model_cfg()
    ord1 = sess.cleanup_order(sess.muts)
    base = ctx.driver.run([vlib.req("C07.poolRun", variant=VARIANT_FIXED, cfg=mcfg, ord=ord1, resume=False, fs=sess.fs0)])[0]
    if "driver_error" in base:
        ctx.disagree("pool_trace", {"config": sess.cfg, "history": sess.history}, base, None)
        return
    fs0_keys = {json.dumps(p) for p, _ in sess.fs0}
    prep, lines = [], []
    for (k, ph, th), r in zip(pts, res):
        if r["verdict"] == "NOCRASH":
            ctx.count("pool_point_not_reached")
            continue
        cm, _, _ = canon_trace(r["trace"], sess.table)
        cm.sort(key=lambda x: x[0])
        snap_keys = {json.dumps(sess.table[f]) for f in r["snapshot"] if f in sess.table}
        killer = next(([o, p] for n, o, p in cm if n == k), None)
        perf = performed_mutations(cm, snap_keys, fs0_keys, k, ph)
        ordc = sess.cleanup_order(perf)
        ordk = ordc + [p for p in ord1 if p not in ordc] if ordc else ord1
        s1, s2, kidx, probs = derive_schedules(base["phases"], perf, killed=True, pending=killer if ph == "b" else None)
        rm = canon_trace(r.get("resume_trace", []), sess.table)[0]
        rm.sort(key=lambda x: x[0])
        common = dict(variant=VARIANT_FIXED, cfg=mcfg, ord=ordk, ord2=sess.cleanup_order(rm), k=kidx, fs0=sess.fs0, s1=s1, s2=s2,
                      **sess.resume_opts())
        lines.append(vlib.req("C07.poolVerdict", **common))
        lines.append(vlib.req("C07.poolCrash", variant=VARIANT_FIXED, cfg=mcfg, ord=ordk, k=kidx, fs0=sess.fs0, s1=s1, s2=s2))
        prep.append(((k, ph, th), r, rm, common, probs, snap_keys, killer is None))
    outs = ctx.driver.run(lines)
    # second round: the schedules of the resumed run, read off its trace against the phases of the model's resumed run
    lines2 = []
    for i, (pt, r, rm, common, probs, snap_keys, nokiller) in enumerate(prep):
        mo = outs[2 * i]
        if isinstance(mo, dict) and "driver_error" in mo:
            lines2.append(vlib.req("C07.poolVerdict", **common))
            continue
        r1, r2, nev2, probs2 = derive_schedules(mo["resumed"]["phases"], rm, killed=r["verdict"] == "FAIL")
        if r["verdict"] != "FAIL":
            probs += ["resumed run: " + x for x in probs2]
        lines2.append(vlib.req("C07.poolVerdict", r1=r1, r2=r2, **common))
    outs2 = ctx.driver.run(lines2)
    for i, ((k, ph, th), r, rm, common, probs, snap_keys, nokiller) in enumerate(prep):
        mo, mfs = outs2[i], outs[2 * i + 1]
        ctx.evaluations += 1
        ctx.traces_validated += 1
        inp = {"config": sess.cfg, "history": sess.history, "k": k, "phase": ph, "threads": th, "model_index": common["k"],
               "s1": common["s1"], "s2": common["s2"]}
        if isinstance(mo, dict) and "driver_error" in mo:
            ctx.disagree("pool_verdict", inp, mo, None)
            continue
        ctx.count("pool_verdict:" + r["verdict"])
        ctx.count("pool_kill_points:%s:threads=%d" % (sess.kind, th))
        bad = list(probs)
        if nokiller:
            bad.append("the trace of the killed run has no line for mutation %d" % k)
        model_files = {json.dumps(p) for p, _ in mfs}
        if snap_keys != model_files:
            bad.append("files at the kill differ: only real %s, only model %s" %
                       (sorted(snap_keys - model_files)[:4], sorted(model_files - snap_keys)[:4]))
        if mo["verdict"] != r["verdict"]:
            bad.append("verdict: model %s, real %s (%s)" % (mo["verdict"], r["verdict"], r["detail"][:300]))
        mr = [[o, p] for _, o, p in model_muts(mo["resumed"]["evs"])[0]]
        rr = [[o, p] for _, o, p in rm]
        if mr != rr and r["verdict"] != "FAIL":
            d = next((x for x, (a, b) in enumerate(zip(rr, mr)) if a != b), min(len(rr), len(mr)))
            bad.append("resumed traces differ at %d: real %s, model %s" % (d, rr[d:d + 2], mr[d:d + 2]))
        # a kill point of interest: at least two tasks partially executed (no --threads 1 run passes through such a state)
        pools = [x for x in base["phases"] if x["kind"] == "pool"]
        for sc, ph_ in zip((common["s1"], common["s2"]), pools):
            partial = sum(1 for t in ph_["tasks"] if 0 < sc.count(t[0]) < len(t[1]))
            if partial >= 2:
                ctx.count("pool_kill_points:two_or_more_tasks_in_progress")
        if bad:
            ctx.disagree("pool_crash_point", inp, bad[:6], r["verdict"])
        else:
            ctx.mark_nontrivial(["pool", sess.kind, sess.cfg["seed"], k, ph, th])
            if ctx.rng.random() < 0.15:
                ctx.sample({"op": "pool_crash_point", "input": {x: inp[x] for x in ("k", "phase", "threads", "model_index")},
                            "verdict": r["verdict"], "resumed_mutations": len(rr)}, cap=16)


def pool_checks(ctx):
    import time
    t0 = time.time()
    try:
        _pool_checks(ctx)
    finally:
        ctx.count("wall_s:pool_checks", int(time.time() - t0))


def _pool_checks(ctx):
    plain, hist = pool_sessions(ctx)
    if not plain and not hist:
        return
    for sess in plain:
        for th in ([2, 3, 4] if ctx.tier != "quick" or sess is plain[0] else [2]):
            pool_clean_check(ctx, sess, th)
    for sess in hist:
        pool_clean_check(ctx, sess, ctx.rng.choice([2, 3, 4]))
    for sess in plain + hist:
        pts = pool_points(ctx, sess)
        res = run_pool_points(ctx, sess, pts)
        pool_kill_check(ctx, sess, pts, res)


# ------------------------------------------------------------------------------------------------
# oracle: the property itself on the real code

def classify(sess, k, ph):
    """failure class of a kill point: what the interrupted run was doing"""
    m = [(o, p) for n, o, p in sess.muts if n == k]
    if not m:
        return "unknown"
    o, p = m[0]
    if ph.startswith("t"):
        return "inside_conversion"
    when = {"a": "after", "w": "during_write"}.get(ph, "before")
    return "%s_%s_%s" % (when, o, p[0])


def judge(ctx, sess, k, ph, r, threads=1):
    if r["verdict"] in ("EQUAL", "NOCRASH"):
        return
    kind = ("resume_silently_wrong:" if r["verdict"] == "DIFF" else "resume_fails:") + \
        ("" if sess.kind == "plain" else sess.kind + ":") + classify(sess, k, ph)
    if sess.kind == "fai" and classify(sess, k, ph) == "after_create_refFai":
        kind = "fai_index_partial"                   # the known finding: an index left empty by the kill is trusted
    ctx.fail(kind, {"config": sess.cfg, "history": sess.history, "k": k, "phase": ph, "threads": threads},
             "kill %s mutation %d %s; --resume: %s %s" % ({"a": "after", "w": "inside the write session of"}.get(ph, "before"), k,
                                                          [[o, p] for n, o, p in sess.muts if n == k], r["verdict"], r["detail"][:400]))


def oracle(ctx, disagreements, broken):
    try:
        for sess in sessions(ctx):
            if sess.clean_rc != 0:
                ctx.fail("clean_run_fails", {"config": sess.cfg, "history": sess.history, "k": 0, "phase": "b", "threads": 1},
                         sess.clean_log[-500:])
                continue
            if sess.kind == "dirty" and getattr(sess, "ref_outputs", None) not in (None, sess.clean_outputs):
                # the uninterrupted fresh run over the leftovers must give what it gives in an empty folder
                ctx.fail("fresh_run_over_leftovers_differs", {"config": sess.cfg, "history": sess.history, "k": 0, "phase": "b",
                                                               "threads": 1}, "final files differ from those of a run in an empty folder")
            pts = sess.points(ctx)
            # the disagreeing kill points first (they are cached when the correspondence ran them)
            first = [(d["input"]["k"], d["input"]["phase"]) for d in disagreements
                     if d["op"] == "crash_point" and d["input"].get("config") == vlib.canon(sess.cfg)
                     and d["input"].get("history") == vlib.canon(sess.history)]
            pts = first + [p for p in pts if p not in first]
            mine = [d for d in disagreements if isinstance(d.get("input"), dict) and
                    d["input"].get("config") == vlib.canon(sess.cfg) and d["input"].get("history") == vlib.canon(sess.history)]
            general = [b for b in broken if not b.startswith("correspondence:")]
            if ctx.tier == "quick" and (mine or general):
                # something no longer checks (for this scenario, or a proof / the driver): look at every kill point
                allp = [(k, ph) for k in range(sess.first_point(), sess.muts[-1][0] + 1) for ph in "ba"]
                pts = pts + [p for p in allp if p not in pts]
            res = run_points(ctx, sess, pts)
            for (k, ph), r in zip(pts, res):
                judge(ctx, sess, k, ph, r)
                if sess.kind == "conv" and r["verdict"] != "NOCRASH":
                    dbs = [(f, sz) for f, sz in r["snapshot"].items() if ".db" in os.path.basename(f)]
                    part = [x for x in dbs if x[0].endswith(".tmp") or x[1] != sess.db_size]     # (since c8cdda4: <db>.<hex>.tmp)
                    ctx.count("conversion_kill:" + ("no_db_yet" if not dbs else "db_partial" if part else "db_complete"))
            ctx.count("oracle_points", len(pts))
            # two interruptions: the resumed run is killed as well (plain sessions; the first one in the quick tier)
            if sess.kind == "plain" and (ctx.tier != "quick" or sess is sessions(ctx)[0]):
                pts2 = second_kill_points(ctx, sess)
                for p, r in zip(pts2, run_second(ctx, sess, pts2)):
                    if r["verdict"] in ("EQUAL", "NOCRASH"):
                        continue
                    m = [(o, q) for n, o, q in sess.second_resume_muts if n == p[2]]
                    cls = "%s_%s_%s" % ("after" if p[3] == "a" else "before", m[0][0], m[0][1][0]) if m else "unknown"
                    ctx.fail(("resume_silently_wrong:" if r["verdict"] == "DIFF" else "resume_fails:") + "second:" + cls,
                             {"config": sess.cfg, "history": sess.history, "k": p[0], "phase": p[1], "k2": p[2], "phase2": p[3],
                              "threads": 1},
                             "first kill %s mutation %d, the resumed run killed %s its mutation %d %s; --resume: %s %s" %
                             (p[1], p[0], "after" if p[3] == "a" else "before", p[2], m[:1], r["verdict"], r["detail"][:300]))
                ctx.count("oracle_second_kill_points", len(pts2))
        # sampled kill points of pool runs (--threads 2..4; cached when the correspondence ran them), judged by the property
        plain, hist = pool_sessions(ctx)
        for sess in plain + hist:
            pts = pool_points(ctx, sess)
            if ctx.tier == "quick" and broken:
                # something no longer checks: more pool kill points, around every lock of the parallel stages
                extra = [(n, phs, th) for n, o, p in sess.muts if p[0] in ("collected", "processed") and o == "create"
                         for phs in "ab" for th in (2, 3)]
                pts = pts + [x for x in extra if x not in pts]
            res = run_pool_points(ctx, sess, pts)
            for (k, ph, th), r in zip(pts, res):
                if r["verdict"] not in ("EQUAL", "NOCRASH"):
                    ctx.fail(("resume_silently_wrong:" if r["verdict"] == "DIFF" else "resume_fails:") + "pool" +
                             ("" if sess.kind == "plain" else ":" + sess.kind),
                             {"config": sess.cfg, "history": sess.history, "k": k, "phase": ph, "threads": th},
                             "--threads %d, kill %s mutation %d; --resume: %s %s" %
                             (th, "after" if ph == "a" else "before", k, r["verdict"], r["detail"][:400]))
            ctx.count("oracle_pool_points", len(pts))
    finally:
        st = getattr(ctx, "_c07", None)
        if st:
            shutil.rmtree(st["base"], ignore_errors=True)
            ctx._c07 = None


def replay(ctx, failure):
    inp = failure["input"]
    cfg = inp["config"]
    base = tempfile.mkdtemp(prefix="isoverif_c07_replay_")
    try:
        h = inp.get("history")
        data = R.make_dataset(cfg, os.path.join(base, "data"))
        if h and h["kind"] == "dirty":
            sess = DirtySession(base, 0, cfg, data, h["k1"], h["ph1"])
        elif h and h["kind"] == "saves":
            sess = SavesSession(base, 0, cfg, data, h["kA"])
        elif cfg.get("multi"):
            sess = MultiSession(base, 0, cfg, data)
        elif cfg.get("sqanti"):
            sess = SqantiSession(base, 0, cfg, data)
        elif cfg.get("opts"):
            sess = OptsSession(base, 0, cfg, data)
        elif cfg.get("gz_ref"):
            sess = GzRefSession(base, 0, cfg, data)
        elif cfg.get("fai"):
            sess = FaiSession(base, 0, cfg, data)
        elif cfg.get("gtf_input"):
            sess = ConvSession(base, 0, cfg, data)
        else:
            sess = Session(base, 0, cfg, data)
        if sess.clean_rc != 0:
            return True
        if inp["k"] == 0:
            if h and h["kind"] == "dirty":
                return Session(base, 1, cfg, data).clean_outputs != sess.clean_outputs
            return False
        wd = os.path.join(base, "replay")
        if "k2" in inp:
            r = R.crash_resume_twice(wd, cfg, sess.data, inp["k"], inp["phase"], inp["k2"], inp["phase2"], sess.clean_outputs,
                                     prepare=sess.prepare, args=lambda w: sess.args(w), prefix=sess.prefix)
            print("  kill %s mutation %d, resumed run killed %s its mutation %d, --resume: %s %s" %
                  (inp["phase"], inp["k"], inp["phase2"], inp["k2"], r["verdict"], r["detail"][:300]))
            return r["verdict"] not in ("EQUAL", "NOCRASH")
        r = R.crash_resume(wd, cfg, sess.data, inp["k"], inp["phase"], sess.clean_outputs, threads=inp.get("threads", 1),
                           prepare=sess.prepare, args=lambda w: sess.args(w, inp.get("threads", 1)), prefix=sess.prefix)
        print("  kill %s mutation %d, --resume: %s %s" % (inp["phase"], inp["k"], r["verdict"], r["detail"][:300]))
        return r["verdict"] not in ("EQUAL", "NOCRASH")
    finally:
        shutil.rmtree(base, ignore_errors=True)


def matches_finding(failure, entry):
    return failure["kind"] == entry.get("kind")
