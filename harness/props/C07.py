"""C07 — resuming an interrupted run yields the outputs of an uninterrupted run.

Correspondence: the real pipeline is run under harness/c07_wrap.py (FS mutations counted, content commits observed,
a kill injected at mutation k, before or right after it).  Compared with the Lean model (Model/Resume.lean, variant
`fixed` = the current /repo) through the driver:
  * the mutation trace (op, path-class) of the uninterrupted run, and that every file the model declares complete at
    some point is complete on disk no later in the real run;
  * for crash points: the set of files present at the kill, the verdict of kill -> --resume (EQUAL / DIFF / FAIL), and
    the mutation trace of the resumed run.
Oracle: the same enumeration judged against the property itself on the real code: every kill point after `.params`
was saved must give EQUAL (resumed run exits 0 and every final file equals the uninterrupted run's).
"""
import json
import os
import shutil
import tempfile
from concurrent.futures import ThreadPoolExecutor

import vlib
from gen import c07_runs as R

ID = "C07"
PROPS = ["IsoVerif/Props/C07.lean"]
TARGETS = ["IsoVerif.Props.C07"]
GEN_DEPS = []
LEVEL = "proof"
RULE = ("a case = one (configuration, kill point k, phase before/after) of the real pipeline; non-trivial when the kill "
        "really interrupted the run, the model's crash file system has the same files as the real one, the verdicts agree "
        "and the resumed run's mutation trace equals the model's; distinct by (configuration, k, phase); plus one case per "
        "uninterrupted-run trace comparison")
TRUSTED = ["harness/c07_wrap.py observes open()/gzip.open()/os.remove() and flush/close of files opened through builtins.open; "
           "writes through other channels (sqlite, pysam, pyfaidx) are not observed and lie outside the modelled stages",
           "SIGKILL of the process group stands for an interruption; data handed to the OS (flush/close) survives it"]
ASSUMPTIONS = ["content tokens: a file is `good` iff it is the complete output of a correct computation; recomputing a stage "
               "from good inputs yields the same bytes (determinism is the subject of C06/C10)",
               "final files are compared modulo the `# Command line` / version header lines (a resumed run records its own command line)",
               "the first run starts in a fresh output directory; one sample, BAM input, default options except genedb / read_group / keep_tmp",
               "a truncated pickle or terminated binary stream makes its reader raise (observed: AssertionError, EOFError)",
               "crash points are enumerated with --threads 1 (deterministic mutation order); pool schedules are covered by a trace "
               "comparison per chromosome and by sampled kill points judged by the oracle only"]

VARIANT_FIXED = {"flushBeforeLock": True, "dropProcessed": True, "locksFirst": True, "countUnaligned": True}
# development aid only (docs/C07.md, "the pinned variant against the pinned tree"): VERIF_C07_VARIANT=pinned compares a
# checkout of the tree before the fix: commits (VERIF_REPO) with the model's `pinned` variant
if os.environ.get("VERIF_C07_VARIANT") == "pinned":
    VARIANT_FIXED = {k: False for k in VARIANT_FIXED}

SUFFIX = {"corrected_reads.bed": "bed", "read_assignments.tsv": "assign", "transcript_models.gtf": "gtf",
          "transcript_model_reads.tsv": "r2t", "extended_annotation.gtf": "ext", "gene_counts.tsv": "gene",
          "transcript_counts.tsv": "tr", "transcript_model_counts.tsv": "model", "gene_grouped_counts.tsv": "geneG",
          "transcript_grouped_counts.tsv": "trG", "transcript_model_grouped_counts.tsv": "modelG"}
LINEAR = {"gene_grouped_counts_linear.tsv": "geneG", "transcript_grouped_counts_linear.tsv": "trG",
          "transcript_model_grouped_counts_linear.tsv": "modelG"}
TPM = {"gene_tpm.tsv": "gene", "transcript_tpm.tsv": "tr", "transcript_model_tpm.tsv": "model",
       "gene_grouped_tpm.tsv": "geneG", "transcript_grouped_tpm.tsv": "trG", "transcript_model_grouped_tpm.tsv": "modelG"}


def path_table(chrs, prefix=R.PREFIX):
    """relative file name -> model path (JSON list); chromosome = index in processing order"""
    P = prefix
    t = {".params": ["params"], "%s/aux/%s.read_group_lock" % (P, P): ["rgLock"],
         "%s/aux/%s.save_info" % (P, P): ["info"], "%s/aux/%s.save_lock" % (P, P): ["lock"]}
    for suf, s in SUFFIX.items():
        t["%s/%s.%s" % (P, P, suf)] = ["final", s]
    for suf, s in LINEAR.items():
        t["%s/%s.%s" % (P, P, suf)] = ["finalLin", s]
    for suf, s in TPM.items():
        t["%s/%s.%s" % (P, P, suf)] = ["tpm", s]
    for i, c in enumerate(chrs):
        t["%s/aux/%s.read_group_%s" % (P, P, c)] = ["rgSplit", i]
        t["%s/aux/%s.save_%s" % (P, P, c)] = ["save", i]
        t["%s/aux/%s.save_multimappers_%s" % (P, P, c)] = ["multimap", i]
        for suf, k in [("groups", "groups"), ("bamstat", "bamstat"), ("collected", "collected"), ("read_stat", "readStat"),
                       ("transcript_stat", "trStat"), ("processed", "processed")]:
            t["%s/aux/%s.save_%s_%s" % (P, P, c, suf)] = [k, i]
        for suf, s in SUFFIX.items():
            t["%s/%s_%s.%s" % (P, P, c, suf)] = ["part", s, i]
            t["%s/%s_%s.%s.stats" % (P, P, c, suf)] = ["partStats", s, i]
        for suf, s in LINEAR.items():
            t["%s/%s_%s.%s" % (P, P, c, suf)] = ["partLin", s, i]
    return t


def saves_table(chrs, table):
    """`--read_assignments` scenario: the kept save files live in <out>/saves/ with the prefix S.save"""
    t = dict(table)
    t["saves/S.save_info"] = ["info"]
    t["saves/S.save_lock"] = ["lock"]
    for i, c in enumerate(chrs):
        t["saves/S.save_%s" % c] = ["save", i]
        t["saves/S.save_multimappers_%s" % c] = ["multimap", i]
        for suf, k in [("groups", "groups"), ("bamstat", "bamstat"), ("collected", "collected"), ("read_stat", "readStat"),
                       ("transcript_stat", "trStat"), ("processed", "processed")]:
            t["saves/S.save_%s_%s" % (c, suf)] = [k, i]
    return t


def is_log(rel):
    return rel.endswith("isoquant.log") or rel.endswith("isoquant.log.old")


def canon_trace(trace, table):
    """real trace -> (mutations, commits, unknown)
    mutations: list of (real number k, op, model path) without the log lines
    commits:   list of (gap, model path) for every '+' commit (gap = number of kept mutations before it)
    unknown:   relative paths that have no path class"""
    muts, commits, unknown = [], [], []
    for n, op, rel in trace:
        if is_log(rel):
            continue
        mp = table.get(rel)
        if mp is None:
            unknown.append(rel)
            continue
        if n is None:
            if op.endswith("+"):
                commits.append((len(muts), mp))
            continue
        if op.startswith("open:") or op.startswith("gzip:"):
            mode = op.split(":", 1)[1]
            o = "append" if "a" in mode else "create"
        else:
            o = "remove"
        muts.append((n, o, mp))
    # the lock files removed by a fresh run before `.params` is written come from globs: order them as the model does
    pi = next((i for i, m in enumerate(muts) if m[2] == ["params"]), 0)
    if pi > 0 and all(m[1] == "remove" for m in muts[:pi]):
        rank = {"lock": 0, "rgLock": 1, "collected": 2, "processed": 3}
        head = sorted(muts[:pi], key=lambda m: (rank.get(m[2][0], 9), m[2][1:]))
        muts = [(muts[i][0], head[i][1], head[i][2]) for i in range(pi)] + muts[pi:]
    return muts, commits, unknown


def model_muts(evs):
    """model events -> (mutations [(event index, op, path)], commits [(gap, path, token)])"""
    muts, commits = [], []
    for i, e in enumerate(evs):
        if e[0] == "commit":
            commits.append((len(muts), e[1], e[2]))
        else:
            muts.append((i, e[0], e[1]))
    return muts, commits


def completion_check(real_muts, real_commits, m_muts, m_commits):
    """every model commit (file declared complete in gap g) must be matched by a real completion no later than g:
    the last '+' commit of that path inside the same epoch (between two mutations of the path), or the epoch's own
    opening mutation when nothing dirty was ever committed (empty content).  Returns a list of problems."""
    probs = []
    # epochs of each path in the real trace: mutation positions of that path
    pos = {}
    for i, (_, _, p) in enumerate(real_muts):
        pos.setdefault(json.dumps(p), []).append(i)
    rc = {}
    for g, p in real_commits:
        rc.setdefault(json.dumps(p), []).append(g)
    for g, p, tok in m_commits:
        key = json.dumps(p)
        ps = pos.get(key, [])
        start = max([i for i in ps if i < g], default=None)     # the mutation that opened the epoch
        if start is None:
            probs.append("model commits %s in gap %d but the real run never opened it before" % (p, g))
            continue
        nxt = min([i for i in ps if i >= g], default=len(real_muts))
        inside = [x for x in rc.get(key, []) if start < x <= nxt]
        done = max(inside) if inside else start + 1
        if done > g:
            probs.append("%s: the model declares it complete in gap %d, the real run completes it in gap %d" % (p, g, done))
    # a real file that receives data but is never declared complete by the model
    mc = {}
    for g, p, tok in m_commits:
        mc.setdefault(json.dumps(p), []).append(g)
    for key, gs in rc.items():
        if key not in mc:
            probs.append("%s is written by the real run but never committed in the model" % key)
    return probs


def configs(ctx):
    rng = ctx.rng
    quick = ctx.tier == "quick"
    cfgs = []
    seeds = [rng.randrange(10 ** 6) for _ in range(8)]
    if quick:
        cfgs.append({"n": rng.choice([2, 3]), "genedb": True, "rg": rng.choice(["file", "inline"]), "keep_tmp": False,
                     "unmapped": True, "seed": seeds[0]})
        cfgs.append({"n": rng.choice([1, 2]), "genedb": rng.random() < 0.5, "rg": rng.choice(["none", "file"]),
                     "keep_tmp": rng.random() < 0.5, "unmapped": rng.random() < 0.5, "seed": seeds[1]})
    else:
        cfgs.append({"toy": True, "n": 1, "genedb": True, "rg": "none", "keep_tmp": False, "unmapped": False, "seed": 0})
        cfgs.append({"n": 3, "genedb": True, "rg": "file", "keep_tmp": False, "unmapped": True, "seed": seeds[0]})
        cfgs.append({"n": 2, "genedb": False, "rg": "inline", "keep_tmp": True, "unmapped": True, "seed": seeds[1]})
        cfgs.append({"n": 4, "genedb": True, "rg": "none", "keep_tmp": False, "unmapped": False, "seed": seeds[2]})
        cfgs.append({"n": 1, "genedb": False, "rg": "none", "keep_tmp": False, "unmapped": True, "seed": seeds[3]})
        cfgs.append({"n": rng.choice([2, 3]), "genedb": rng.random() < 0.5, "rg": rng.choice(["none", "inline", "file"]),
                     "keep_tmp": rng.random() < 0.5, "unmapped": rng.random() < 0.5, "seed": seeds[5]})
    return cfgs


class Session:
    """one configuration: data set, uninterrupted run under the wrapper, its canonical trace"""
    kind = "plain"
    history = None           # description of the history scenario (replay)
    from_saves = False

    def __init__(self, base, idx, cfg, data=None):
        self.cfg = cfg
        self.dir = os.path.join(base, "cfg%d" % idx)
        self.data = data or R.make_dataset(cfg, os.path.join(self.dir, "data"))
        self.prefix = R.PREFIX
        self.table = path_table(self.data["chrs"], self.prefix)
        self.fs0 = []
        self.setup()
        wd = os.path.join(self.dir, "clean")
        os.makedirs(wd, exist_ok=True)
        self.prepare(wd)
        rc, log, tr = R.run_wrapped(wd, cfg, self.data, args=self.args(wd))
        self.clean_rc, self.clean_log = rc, log[-1500:]
        self.trace = tr
        self.clean_outputs = R.final_outputs(os.path.join(wd, "out"), self.prefix) if rc == 0 else {}
        self.muts, self.commits, self.unknown = canon_trace(tr, self.table)
        self.results = {}

    # hooks of the history scenarios
    def setup(self):
        pass

    def prepare(self, wd):
        pass

    def args(self, wd):
        return None

    def model_cfg(self):
        ix = {c: i for i, c in enumerate(self.data["chrs"])}
        return {"chrs": list(range(len(ix))), "mchrs": [ix[c] for c in self.data["mchrs"]],
                "bchrs": [ix[c] for c in self.data["bchrs"]], "genedb": bool(self.cfg.get("genedb", True)),
                "rg": self.cfg.get("rg", "none"), "keepTmp": bool(self.cfg.get("keep_tmp")),
                "unmapped": bool(self.cfg.get("unmapped")), "fromSaves": self.from_saves}

    def leftover_fs(self, outdir, good=()):
        """model file system of the files found in a folder: complete files of another run are `stale`"""
        res = []
        for rel in R.snapshot(outdir):
            mp = self.table.get(rel)
            if mp is not None:
                res.append([mp, "good" if mp[0] in good else "stale"])
        return res

    def first_point(self):
        """first kill point inside the quantifier: the mutation after `.params` was written"""
        for n, op, p in self.muts:
            if p == ["params"]:
                return n + 1
        return None

    def points(self, ctx):
        first = self.first_point()
        last = self.muts[-1][0]
        allp = [(k, ph) for k in range(first, last + 1) for ph in "ba"]
        if ctx.tier != "quick":
            n = getattr(self, "sample_thorough", None)
            if n is None:
                return allp
            early = [(k, ph) for k in range(first, min(first + 30, last + 1)) for ph in "ba"]
            rest = [p for p in allp if p not in early]
            return sorted(set(early + ctx.rng.sample(rest, min(len(rest), n))))
        # quick: every lock / first-removal point + a seeded sample
        special = []
        for n, op, p in self.muts:
            if n >= first and (p[0] in ("collected", "processed", "lock", "rgLock") or (op == "remove" and p[0] in ("part", "info", "save"))):
                special += [(n, "a"), (n, "b")]
        special = sorted(set(special))
        if self.kind != "plain":
            # history scenarios: the kill points right after `.params` (stale locks not yet dealt with) + a small sample
            early = [(k, ph) for k in range(first, min(first + 7, last + 1)) for ph in "ba"]
            special = [p for p in special if p not in early]
            special = ctx.rng.sample(special, min(len(special), 8))
            rest = [p for p in allp if p not in special and p not in early]
            return sorted(set(early + special + ctx.rng.sample(rest, min(len(rest), 8))))
        if len(special) > 28:
            special = ctx.rng.sample(special, 28)
        rest = [p for p in allp if p not in special]
        return sorted(set(special + ctx.rng.sample(rest, min(len(rest), 36))))

    def run_point(self, k, ph, threads=1):
        key = (k, ph, threads)
        if key not in self.results:
            wd = os.path.join(self.dir, "t_%d%s_%d" % (k, ph, threads))
            r = R.crash_resume(wd, self.cfg, self.data, k, ph, self.clean_outputs, threads=threads,
                               prepare=self.prepare, args=self.args, prefix=self.prefix)
            shutil.rmtree(wd, ignore_errors=True)
            self.results[key] = r
        return self.results[key]

    def cleanup_order(self, muts):
        """directory order seen by the clean-up: the removals of auxiliary files after the last non-removal mutation"""
        tail = []
        for n, op, p in reversed(muts):
            if op == "remove" and p[0] in ("save", "groups", "bamstat", "collected", "multimap", "info", "lock", "readStat",
                                           "trStat", "processed", "rgSplit", "rgLock"):
                tail.append(p)
            else:
                break
        return list(reversed(tail))


class DirtySession(Session):
    """history: the output folder holds the remains of an earlier run on other input (the alternative alignment file),
    killed at mutation k1; the run under test is started over it with --force"""
    kind = "dirty"

    def __init__(self, base, idx, cfg, data, k1, ph1):
        self.k1, self.ph1 = k1, ph1
        self.history = {"kind": "dirty", "k1": k1, "ph1": ph1}
        Session.__init__(self, base, idx, cfg, data)

    def setup(self):
        self.tmpl = os.path.join(self.dir, "earlier")
        os.makedirs(self.tmpl, exist_ok=True)
        rc, log, tr = R.run_wrapped(self.tmpl, self.cfg, self.data, crash=(self.k1, self.ph1),
                                    args=R.cli_args(self.cfg, self.data, alt=True), state="state_earlier")
        self.earlier_rc = rc
        self.fs0 = self.leftover_fs(os.path.join(self.tmpl, "out"))

    def prepare(self, wd):
        shutil.copytree(os.path.join(self.tmpl, "out"), os.path.join(wd, "out"))

    def args(self, wd):
        return R.cli_args(self.cfg, self.data, force=True)


class SavesSession(Session):
    """`--read_assignments`: an earlier --keep_tmp run (finished, or killed at mutation kA after its read collection)
    left its save files; the run under test is started from a copy of them in a fresh output folder"""
    kind = "saves"
    from_saves = True

    def __init__(self, base, idx, cfg, data, kA):
        self.kA = kA
        self.history = {"kind": "saves", "kA": kA}
        Session.__init__(self, base, idx, cfg, data)

    def setup(self):
        self.prefix = R.PREFIX + "0"
        self.table = saves_table(self.data["chrs"], path_table(self.data["chrs"], self.prefix))
        self.tmpl = os.path.join(self.dir, "earlier")
        os.makedirs(self.tmpl, exist_ok=True)
        cfgA = dict(self.cfg, keep_tmp=True)
        rc, log, tr = R.run_wrapped(self.tmpl, cfgA, self.data, crash=(self.kA, "a") if self.kA else None,
                                    state="state_earlier")
        self.earlier_rc = rc
        self.saves = os.path.join(self.tmpl, "out", R.PREFIX, "aux")
        tmp = os.path.join(self.dir, "fs0probe")
        self.prepare(tmp)
        self.fs0 = self.leftover_fs(os.path.join(tmp, "out"),
                                    good=("info", "multimap", "save", "lock", "collected", "groups", "bamstat"))
        shutil.rmtree(tmp, ignore_errors=True)

    def prepare(self, wd):
        os.makedirs(os.path.join(wd, "out"), exist_ok=True)
        shutil.copytree(self.saves, os.path.join(wd, "out", "saves"))

    def args(self, wd):
        return R.cli_args(self.cfg, self.data, saves=os.path.join(wd, "out", "saves", R.PREFIX + ".save"))


def pick_earlier_kill(sess, rng, what):
    """a kill point of the earlier run, by class, from the mutation trace of the plain session"""
    def first(pred):
        return next((n for n, o, p in sess.muts if pred(o, p)), None)
    if what == "collected":      # during read collection: one chromosome has its _collected lock, no stage lock yet
        return first(lambda o, p: o == "create" and p[0] == "collected"), "a"
    if what == "lock":           # read collection finished
        return first(lambda o, p: o == "create" and p[0] == "lock"), "a"
    if what == "processed":      # model construction: one chromosome has its _processed lock
        return first(lambda o, p: o == "create" and p[0] == "processed"), "a"
    if what == "merge":          # merging in progress
        return first(lambda o, p: o == "remove" and p[0] == "part"), "a"
    ks = [n for n, o, p in sess.muts if n >= sess.first_point()]
    return rng.choice(ks), rng.choice("ab")


def history_sessions(ctx, plain):
    """history scenarios built on the data of the plain sessions"""
    st = _state(ctx)
    quick = ctx.tier == "quick"
    res = []
    cand = [s for s in plain if s.clean_rc == 0 and not s.cfg.get("toy")]
    if not cand:
        return res
    multi = sorted([s for s in cand if len(s.data["chrs"]) >= 2], key=lambda s: len(s.muts)) or cand
    base_s = multi[0]
    idx = 100
    kinds = [ctx.rng.choice(["collected", "lock", "processed", "merge"])] if quick else ["collected", "processed", "random"]
    if quick and ctx.rng.random() < 0.5:
        kinds = ["collected"]
    for what in kinds:
        k1, ph1 = pick_earlier_kill(base_s, ctx.rng, what)
        if k1 is None:
            continue
        res.append(DirtySession(st["base"], idx, dict(base_s.cfg), base_s.data, k1, ph1))
        res[-1].ref_outputs = base_s.clean_outputs
        if what != "collected":
            res[-1].sample_thorough = 80      # all kill points for the first history, a sample for the others
        ctx.count("history:dirty:earlier_killed_at_" + what)
        idx += 1
    # --read_assignments (no per-chromosome read-group table there: the split needs the alignment files)
    scfg = dict(base_s.cfg)
    if scfg.get("rg") == "file":
        scfg["rg"] = "inline"
    scfg["keep_tmp"] = False
    kproc, _ = pick_earlier_kill(base_s, ctx.rng, "processed")
    # the earlier run is a --keep_tmp run of the same flags: its own trace has the same numbering up to the merges
    for kA in ([ctx.rng.choice([None, kproc])] if quick else [None, kproc]):
        if scfg != base_s.cfg and kA is not None:
            # numbering of the earlier run differs from the plain session's: find the first _processed lock by a dry trace
            probe = Session(st["base"], idx + 50, dict(scfg, keep_tmp=True), base_s.data)
            kA = pick_earlier_kill(probe, ctx.rng, "processed")[0]
        res.append(SavesSession(st["base"], idx, scfg, base_s.data, kA))
        ctx.count("history:saves:" + ("earlier_finished" if kA is None else "earlier_killed_after_processed"))
        idx += 1
    return res


def _state(ctx):
    st = getattr(ctx, "_c07", None)
    if st is None:
        base = tempfile.mkdtemp(prefix="isoverif_c07_")
        st = {"base": base, "sessions": None, "workers": max(2, min(14, (os.cpu_count() or 4) - 2))}
        ctx._c07 = st
    return st


def sessions(ctx):
    st = _state(ctx)
    if st["sessions"] is None:
        st["sessions"] = []
        for i, cfg in enumerate(configs(ctx)):
            st["sessions"].append(Session(st["base"], i, cfg))
            ctx.count("config:n=%d,genedb=%s,rg=%s,keep_tmp=%s,unmapped=%s" % (cfg["n"], cfg.get("genedb"), cfg.get("rg"),
                                                                               cfg.get("keep_tmp"), cfg.get("unmapped")))
        if os.environ.get("VERIF_C07_VARIANT") != "pinned":     # (the development aid compares the plain scenarios only)
            st["sessions"] += history_sessions(ctx, list(st["sessions"]))
    return st["sessions"]


def run_points(ctx, sess, pts):
    st = _state(ctx)
    with ThreadPoolExecutor(st["workers"]) as ex:
        return list(ex.map(lambda p: sess.run_point(p[0], p[1]), pts))


def model_index(m_muts, j, ph):
    """number of model events executed when the run is killed before ('b') / right after ('a') its j-th mutation (1-based)"""
    i = m_muts[j - 1][0]
    return i if ph == "b" else i + 1


def correspondence(ctx):
    for si, sess in enumerate(sessions(ctx)):
        tag = "cfg%d" % si
        ctx.evaluations += 1
        if sess.clean_rc != 0:
            ctx.disagree("clean_run", {"config": sess.cfg, "history": sess.history}, "ok", {"rc": sess.clean_rc, "log": sess.clean_log})
            continue
        mcfg = sess.model_cfg()
        ord1 = sess.cleanup_order(sess.muts)
        out = ctx.driver.run([vlib.req("C07.run", variant=VARIANT_FIXED, cfg=mcfg, ord=ord1, resume=False, fs=sess.fs0)])[0]
        if "driver_error" in out:
            ctx.disagree("clean_trace", {"config": sess.cfg, "history": sess.history}, out, None)
            continue
        m_muts, m_commits = model_muts(out["evs"])
        real_seq = [[o, p] for _, o, p in sess.muts]
        model_seq = [[o, p] for _, o, p in m_muts]
        ctx.traces_validated += 1
        probs = []
        if sess.unknown:
            probs.append("files without a path class: %s" % sorted(set(sess.unknown))[:5])
        if not out["ok"]:
            probs.append("the model's uninterrupted run raises")
        if real_seq != model_seq:
            d = next((i for i, (a, b) in enumerate(zip(real_seq, model_seq)) if a != b), min(len(real_seq), len(model_seq)))
            probs.append("mutation traces differ at position %d: real %s, model %s (lengths %d / %d)" %
                         (d, real_seq[d:d + 2], model_seq[d:d + 2], len(real_seq), len(model_seq)))
        else:
            probs += completion_check(sess.muts, sess.commits, m_muts, m_commits)[:5]
        ctx.count("clean_trace_mutations", len(real_seq))
        if probs:
            ctx.disagree("clean_trace", {"config": sess.cfg, "history": sess.history}, probs, None)
            continue
        ctx.mark_nontrivial([tag, "clean_trace"])
        ctx.count("clean_trace:" + sess.kind)
        ctx.sample({"op": "clean_trace", "config": sess.cfg, "history": sess.history, "mutations": len(real_seq),
                    "model_events": len(out["evs"])})
        # --- kill points
        pts = sess.points(ctx)
        res = run_points(ctx, sess, pts)
        off = sess.muts[0][0] - 1            # numbered log lines before the first modelled mutation
        lines, keep = [], []
        for (k, ph), r in zip(pts, res):
            j = k - off
            if r["verdict"] == "NOCRASH" or j < 1 or j > len(m_muts):
                ctx.count("point_not_reached")
                continue
            idx = model_index(m_muts, j, ph)
            cm, _, _ = canon_trace(r["trace"], sess.table)
            ordc = sess.cleanup_order(cm)
            ordk = ordc + [p for p in ord1 if p not in ordc] if ordc else ord1
            rm = canon_trace(r.get("resume_trace", []), sess.table)[0]
            lines.append(vlib.req("C07.verdict", variant=VARIANT_FIXED, cfg=mcfg, ord=ordk, ord2=sess.cleanup_order(rm), k=idx,
                                  fs0=sess.fs0))
            lines.append(vlib.req("C07.crash", variant=VARIANT_FIXED, cfg=mcfg, ord=ordk, k=idx, fs0=sess.fs0))
            keep.append(((k, ph), r, rm, idx))
        outs = ctx.driver.run(lines)
        for i, ((k, ph), r, rm, idx) in enumerate(keep):
            mo, mfs = outs[2 * i], outs[2 * i + 1]
            ctx.evaluations += 1
            ctx.traces_validated += 1
            inp = {"config": sess.cfg, "history": sess.history, "k": k, "phase": ph, "model_index": idx}
            if isinstance(mo, dict) and "driver_error" in mo:
                ctx.disagree("verdict", inp, mo, None)
                continue
            ctx.count("verdict:" + r["verdict"])
            ctx.count("phase:" + ph)
            ctx.count("kill_points:" + sess.kind)
            bad = []
            # files present at the kill
            real_files = {json.dumps(sess.table[f]) for f in r["snapshot"] if f in sess.table}
            model_files = {json.dumps(p) for p, _ in mfs}
            if real_files != model_files:
                bad.append("files at the kill differ: only real %s, only model %s" %
                           (sorted(real_files - model_files)[:4], sorted(model_files - real_files)[:4]))
            if mo["verdict"] != r["verdict"]:
                bad.append("verdict: model %s, real %s (%s)" % (mo["verdict"], r["verdict"], r["detail"][:300]))
            mr = [[o, p] for _, o, p in model_muts(mo["resumed"]["evs"])[0]]
            rr = [[o, p] for _, o, p in rm]
            if mr != rr and r["verdict"] != "FAIL":
                d = next((x for x, (a, b) in enumerate(zip(rr, mr)) if a != b), min(len(rr), len(mr)))
                bad.append("resumed traces differ at %d: real %s, model %s" % (d, rr[d:d + 2], mr[d:d + 2]))
            if bad:
                ctx.disagree("crash_point", inp, bad, r["verdict"])
            else:
                ctx.mark_nontrivial([tag, k, ph])
                if len(ctx.samples) < 8 and ctx.rng.random() < 0.1:
                    ctx.sample({"op": "crash_point", "input": inp, "killed_at": [o for n, o, p in sess.muts if n == k] +
                                [p for n, o, p in sess.muts if n == k], "verdict": r["verdict"], "resumed_mutations": len(rr)})
    # --- pool schedule: per-chromosome / global projections of the trace equal the model's
    pool_trace_check(ctx)


def projections(seq):
    """mutation list [[op, path]] -> {chromosome index or 'global': subsequence}"""
    res = {}
    for o, p in seq:
        key = "global"
        if p[0] in ("rgSplit", "save", "groups", "bamstat", "collected", "multimap", "readStat", "trStat", "processed"):
            key = p[1]
        elif p[0] in ("part", "partLin", "partStats"):
            key = p[2]
        res.setdefault(key, []).append([o, p])
    return res


def pool_trace_check(ctx):
    ss = [s for s in sessions(ctx) if s.kind == "plain" and s.clean_rc == 0 and len(s.data["chrs"]) >= 2]
    if not ss:
        return
    sess = ss[0]
    wd = os.path.join(sess.dir, "pool")
    rc, log, tr = R.run_wrapped(wd, sess.cfg, sess.data, threads=3)
    outs3 = R.final_outputs(os.path.join(wd, "out")) if rc == 0 else None
    shutil.rmtree(wd, ignore_errors=True)
    ctx.evaluations += 1
    if rc != 0 or outs3 != sess.clean_outputs:
        ctx.disagree("pool_run", sess.cfg, "same outputs as --threads 1", {"rc": rc})
        return
    muts, _, unknown = canon_trace(tr, sess.table)
    # worker processes number their mutations concurrently: order the lines by their global number
    muts.sort(key=lambda x: x[0])
    a = projections([[o, p] for _, o, p in muts])
    b = projections([[o, p] for _, o, p in sess.muts])
    # multimapper files and removals are global steps executed by the parent; only the two per-chromosome worker
    # stages interleave.  Compare per chromosome and the rest.
    ctx.traces_validated += 1
    if a != b or unknown:
        keys = [k for k in set(a) | set(b) if a.get(k) != b.get(k)]
        ctx.disagree("pool_trace", sess.cfg, "per-chromosome projections equal those of --threads 1", {"differs_for": keys[:5]})
    else:
        ctx.mark_nontrivial(["pool_trace", sess.cfg["seed"]])


# ------------------------------------------------------------------------------------------------
# oracle: the property itself on the real code

def classify(sess, k, ph):
    """failure class of a kill point: what the interrupted run was doing"""
    m = [(o, p) for n, o, p in sess.muts if n == k]
    if not m:
        return "unknown"
    o, p = m[0]
    when = "after" if ph == "a" else "before"
    return "%s_%s_%s" % (when, o, p[0])


def judge(ctx, sess, k, ph, r, threads=1):
    if r["verdict"] in ("EQUAL", "NOCRASH"):
        return
    kind = ("resume_silently_wrong:" if r["verdict"] == "DIFF" else "resume_fails:") + \
        ("" if sess.kind == "plain" else sess.kind + ":") + classify(sess, k, ph)
    ctx.fail(kind, {"config": sess.cfg, "history": sess.history, "k": k, "phase": ph, "threads": threads},
             "kill %s mutation %d %s; --resume: %s %s" % ("after" if ph == "a" else "before", k,
                                                          [[o, p] for n, o, p in sess.muts if n == k], r["verdict"], r["detail"][:400]))


def oracle(ctx, disagreements, broken):
    try:
        for sess in sessions(ctx):
            if sess.clean_rc != 0:
                ctx.fail("clean_run_fails", {"config": sess.cfg, "history": sess.history, "k": 0, "phase": "b", "threads": 1},
                         sess.clean_log[-500:])
                continue
            if sess.kind == "dirty" and getattr(sess, "ref_outputs", None) not in (None, sess.clean_outputs):
                # the uninterrupted fresh run over the leftovers must give what it gives in an empty folder
                ctx.fail("fresh_run_over_leftovers_differs", {"config": sess.cfg, "history": sess.history, "k": 0, "phase": "b",
                                                               "threads": 1}, "final files differ from those of a run in an empty folder")
            pts = sess.points(ctx)
            # the disagreeing kill points first (they are cached when the correspondence ran them)
            first = [(d["input"]["k"], d["input"]["phase"]) for d in disagreements
                     if d["op"] == "crash_point" and d["input"].get("config") == vlib.canon(sess.cfg)
                     and d["input"].get("history") == vlib.canon(sess.history)]
            pts = first + [p for p in pts if p not in first]
            mine = [d for d in disagreements if isinstance(d.get("input"), dict) and
                    d["input"].get("config") == vlib.canon(sess.cfg) and d["input"].get("history") == vlib.canon(sess.history)]
            general = [b for b in broken if not b.startswith("correspondence:")]
            if ctx.tier == "quick" and (mine or general):
                # something no longer checks (for this scenario, or a proof / the driver): look at every kill point
                allp = [(k, ph) for k in range(sess.first_point(), sess.muts[-1][0] + 1) for ph in "ba"]
                pts = pts + [p for p in allp if p not in pts]
            res = run_points(ctx, sess, pts)
            for (k, ph), r in zip(pts, res):
                judge(ctx, sess, k, ph, r)
            ctx.count("oracle_points", len(pts))
        # sampled kill points under a process pool (mutation numbering is schedule dependent: judged by the property only)
        multi = [s for s in sessions(ctx) if s.kind == "plain" and s.clean_rc == 0 and len(s.data["chrs"]) >= 2]
        if multi:
            sess = multi[0]
            last = sess.muts[-1][0]
            ks = ctx.rng.sample(range(sess.first_point(), last + 1), min(6 if ctx.tier == "quick" else 40, last - sess.first_point()))
            st = _state(ctx)
            with ThreadPoolExecutor(st["workers"]) as ex:
                rs = list(ex.map(lambda k: sess.run_point(k, "a", threads=2), ks))
            for k, r in zip(ks, rs):
                if r["verdict"] not in ("EQUAL", "NOCRASH"):
                    ctx.fail(("resume_silently_wrong:" if r["verdict"] == "DIFF" else "resume_fails:") + "pool",
                             {"config": sess.cfg, "history": None, "k": k, "phase": "a", "threads": 2},
                             "%s %s" % (r["verdict"], r["detail"][:400]))
            ctx.count("oracle_pool_points", len(ks))
    finally:
        st = getattr(ctx, "_c07", None)
        if st:
            shutil.rmtree(st["base"], ignore_errors=True)
            ctx._c07 = None


def replay(ctx, failure):
    inp = failure["input"]
    cfg = inp["config"]
    base = tempfile.mkdtemp(prefix="isoverif_c07_replay_")
    try:
        h = inp.get("history")
        data = R.make_dataset(cfg, os.path.join(base, "data"))
        if h and h["kind"] == "dirty":
            sess = DirtySession(base, 0, cfg, data, h["k1"], h["ph1"])
        elif h and h["kind"] == "saves":
            sess = SavesSession(base, 0, cfg, data, h["kA"])
        else:
            sess = Session(base, 0, cfg, data)
        if sess.clean_rc != 0:
            return True
        if inp["k"] == 0:
            if h and h["kind"] == "dirty":
                return Session(base, 1, cfg, data).clean_outputs != sess.clean_outputs
            return False
        wd = os.path.join(base, "replay")
        r = R.crash_resume(wd, cfg, sess.data, inp["k"], inp["phase"], sess.clean_outputs, threads=inp.get("threads", 1),
                           prepare=sess.prepare, args=sess.args, prefix=sess.prefix)
        print("  kill %s mutation %d, --resume: %s %s" % (inp["phase"], inp["k"], r["verdict"], r["detail"][:300]))
        return r["verdict"] not in ("EQUAL", "NOCRASH")
    finally:
        shutil.rmtree(base, ignore_errors=True)


def matches_finding(failure, entry):
    return failure["kind"] == entry.get("kind")
