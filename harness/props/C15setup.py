"""C15, reuse clause — the RUN SET-UP of a restart (audit 2-C GAP 1-4, audit 2-B C09-3).

A run restarted with `--read_assignments` has no alignment files; what the second half of `process_sample` needs to know
about them - how many there were (technical-replicas check of the model construction), how the reads were grouped
(`args.read_group`: grouped tables are written iff it is set; several files switch `file_name` on implicitly), which
prefix belongs to which experiment - must come from the saved files, not from the restart's own command line.

This module holds
  * the CLI scenarios (real pipeline, model construction ON, nothing stubbed): the restart is given EXACTLY the options
    of the saving run (input option aside) and must reproduce every output file of every experiment;
  * the helpers of the in-process correspondence (props/C15reuse.py): the set-up the second half of a real run works
    under (`args.read_group`, `args.use_technical_replicas` when `process_assigned_reads` starts) is recorded and compared
    with the model's `Setup` (Model/Reuse.lean `savingSetup` / `restartSetup`).
"""
import os
import re
import shutil

KIND = "reuse_setup"
SCENARIOS = ["two_files_auto", "replicas_explicit", "group_table", "two_prefixes", "mixed_prefixes"]

_S = {}


# ------------------------------------------------------------------------------------------------
# data: one gene with a novel intron chain whose reads all sit in the first of two files

def dataset(seed):
    """-> (Dataset, base reads, novel reads); deterministic in `seed`"""
    from gen import synth
    for k in range(40):
        ds = synth.simple_dataset(seed=seed + 7 * k, n_chroms=2, genes_per_chrom=3, reads_per_tx=6)
        cand = None
        for g in ds.genes:
            ex = g["transcripts"][0][1]
            if g["chr"] != "chr1" or len(ex) < 4:
                continue
            known = [tuple(t[1]) for t in g["transcripts"]]
            chains = [ex[:i] + ex[i + 1:] for i in range(1, len(ex) - 1)]
            chains = [c for c in chains if tuple(c) not in known]
            if chains:
                cand = (g, chains[0])
                break
        if cand is None:
            continue
        g, novel = cand
        n_base = len(ds.reads)
        for i in range(8):
            ds.read_from_exons("novel_%d" % i, g["chr"], novel, polya=25 if g["strand"] == "+" else 0,
                               polyt=25 if g["strand"] == "-" else 0)
        for i in range(3):
            ds.add_read("unm%d" % i, None, 0, None, flag=4)
        return ds, ds.reads[:n_base], ds.reads[n_base:n_base + 8], ds.reads[n_base + 8:]
    raise RuntimeError("no gene with >= 4 exons and a free exon-skipping chain in 40 data sets")


def prepare(seed):
    """scratch folder with the data of all scenarios"""
    if _S.get("seed") == seed and "dir" in _S:
        return _S
    cleanup()
    import pipeline as P
    d = P.scratch("isoverif_c15s_")
    ds, base, novel, unm = dataset(seed % 1000 + 3)
    data = os.path.join(d, "data")
    paths = ds.write(data)                                            # reads.bam: everything in ONE file
    rep1 = ds.write(data, bam_name="rep1.bam", reads=base[0::2] + novel + unm[:2], write_ref=False)["bam"]
    rep2 = ds.write(data, bam_name="rep2.bam", reads=base[1::2] + unm[2:], write_ref=False)["bam"]
    e2 = ds.write(data, bam_name="e2.bam", reads=base[1::3] + unm[:1], write_ref=False)["bam"]
    tab = os.path.join(data, "groups.tsv")
    with open(tab, "w") as f:
        mapped = [r for r in ds.reads if not r["flag"] & 4]
        for i, r in enumerate(mapped):
            if i % 5:
                f.write("%s\tg%d\n" % (r["name"], i % 3))
    lst = os.path.join(data, "list.txt")
    with open(lst, "w") as f:
        f.write("#E1\n%s\n%s\n#E2\n%s\n" % (rep1, rep2, e2))
    _S.update(seed=seed, dir=d, paths=paths, rep1=rep1, rep2=rep2, e2=e2, table=tab, bam_list=lst, runs={})
    return _S


def cleanup():
    d = _S.pop("dir", None)
    _S.clear()
    if d:
        shutil.rmtree(d, ignore_errors=True)


# ------------------------------------------------------------------------------------------------
# runs

def _common(S, prefix):
    p = S["paths"]
    return ["--threads", "1", "--reference", p["ref"], "--data_type", "nanopore", "-p", prefix, "--no_gzip",
            "--genedb", p["gtf"], "--complete_genedb"]


def _saving(S, tag, input_args, opts, prefix="S"):
    """a saving run (cached per tag: `mixed_prefixes` reuses the run of `two_files_auto`)"""
    import pipeline as P
    if tag in S["runs"]:
        return S["runs"][tag]
    out = os.path.join(S["dir"], "A_" + tag)
    rc, log = P.run_isoquant(out, input_args + _common(S, prefix) + list(opts) + ["--keep_tmp"],
                             home=os.path.join(S["dir"], "home"), timeout=200)
    S["runs"][tag] = {"out": out, "rc": rc, "log": log[-1200:]}
    return S["runs"][tag]


def _restart(S, tag, prefixes, opts, prefix="S"):
    import pipeline as P
    out = os.path.join(S["dir"], "B_" + tag)
    shutil.rmtree(out, ignore_errors=True)
    rc, log = P.run_isoquant(out, ["--read_assignments"] + prefixes + _common(S, prefix) + list(opts),
                             home=os.path.join(S["dir"], "home"), timeout=200)
    return {"out": out, "rc": rc, "log": log[-1200:]}


def save_prefix(run, exp):
    return os.path.join(run["out"], exp, "aux", exp + ".save")


def diff_experiment(dirA, expA, dirB, expB):
    """None, or how the output files of experiment `expB` of run B differ from those of `expA` of run A: every file,
    every line in order; only comment lines `# ...` (command line, version, experiment name in the GTF title) are left out"""
    import pipeline as P
    fa = {k[len(expA) + 1:]: v for k, v in P.out_files(dirA, expA).items()}
    fb = {k[len(expB) + 1:]: v for k, v in P.out_files(dirB, expB).items()}
    if set(fa) != set(fb):
        onlyA, onlyB = sorted(set(fa) - set(fb)), sorted(set(fb) - set(fa))
        return "output file sets differ: only the saving run wrote %s, only the restart wrote %s" % (onlyA, onlyB)
    bad = []
    for k in sorted(fa):
        with open(fa[k], errors="replace") as f:
            a = [l for l in f.read().split("\n") if not l.startswith("# ")]
        with open(fb[k], errors="replace") as f:
            b = [l for l in f.read().split("\n") if not l.startswith("# ")]
        if a != b:
            d = next((i for i, (x, y) in enumerate(zip(a, b)) if x != y), min(len(a), len(b)))
            bad.append("%s line %d: %r vs %r (%d vs %d lines)" % (k, d + 1, (a + [""])[d][:120], (b + [""])[d][:120], len(a), len(b)))
    if bad:
        return "%d file(s) differ: %s" % (len(bad), "; ".join(bad[:3]))
    return None


def novel_models(run, exp):
    """transcript ids of the novel models in transcript_models.gtf of an experiment"""
    p = os.path.join(run["out"], exp, exp + ".transcript_models.gtf")
    if not os.path.exists(p):
        return None
    ids = set()
    with open(p) as f:
        for l in f:
            if "\ttranscript\t" in l:
                m = re.search(r'transcript_id "([^"]+)"', l)
                if m and re.match(r"transcript\d+\.", m.group(1)):
                    ids.add(m.group(1))
    return sorted(ids)


def run_scenario(S, name):
    """-> dict(scenario, failure=None | text, facts={...})"""
    res = {"scenario": name, "failure": None, "facts": {}}

    def fail(txt):
        res["failure"] = txt
        return res

    two = ["--bam", S["rep1"], S["rep2"]]
    if name in ("two_files_auto", "replicas_explicit", "group_table"):
        inp, opts = {"two_files_auto": (two, []),
                     "replicas_explicit": (two, ["--read_group", "file_name"]),
                     "group_table": (["--bam", S["paths"]["bam"]], ["--read_group", "file:" + S["table"]])}[name]
        A = _saving(S, name, inp, opts)
        if A["rc"] != 0:
            return fail("saving run failed rc=%s: %s" % (A["rc"], A["log"][-300:]))
        B = _restart(S, name, [save_prefix(A, "S")], opts)
        if B["rc"] != 0:
            return fail("the run restarted with the options of the saving run (%s) failed rc=%s: %s" % (
                " ".join(opts) or "no --read_group", B["rc"], B["log"][-400:]))
        res["facts"]["novel_models_saving_run"] = novel_models(A, "S")
        res["facts"]["grouped_tables"] = sum("grouped" in k for k in os.listdir(os.path.join(A["out"], "S")))
        r = diff_experiment(A["out"], "S", B["out"], "S0")
        if r:
            nb = novel_models(B, "S0")
            return fail("restart with the same options (%s): %s [novel models: saving run %s, restart %s]" % (
                " ".join(opts) or "no --read_group", r, res["facts"]["novel_models_saving_run"], nb))
        return res
    if name == "two_prefixes":
        A = _saving(S, name, ["--bam_list", S["bam_list"]], [], prefix="X")
        if A["rc"] != 0:
            return fail("saving run failed rc=%s: %s" % (A["rc"], A["log"][-300:]))
        B = _restart(S, name, [save_prefix(A, "E1"), save_prefix(A, "E2")], [], prefix="X")
        if B["rc"] != 0:
            return fail("--read_assignments E1.save E2.save failed rc=%s: %s" % (B["rc"], B["log"][-400:]))
        for i, e in enumerate(("E1", "E2")):
            r = diff_experiment(A["out"], e, B["out"], "X%d" % i)
            if r:
                return fail("--read_assignments E1.save E2.save, experiment X%d vs the saving run's %s: %s" % (i, e, r))
        res["facts"]["novel_models_saving_run"] = novel_models(A, "E1")
        return res
    if name == "mixed_prefixes":
        # prefixes saved by DIFFERENT runs: a two-file experiment grouped by file name, then a one-file experiment
        # without grouping - nothing of the first may stick to the second
        A1 = _saving(S, "two_files_auto", two, [])
        A2 = _saving(S, "plain", ["--bam", S["e2"]], [])
        for A in (A1, A2):
            if A["rc"] != 0:
                return fail("saving run failed rc=%s: %s" % (A["rc"], A["log"][-300:]))
        B = _restart(S, name, [save_prefix(A1, "S"), save_prefix(A2, "S")], [], prefix="M")
        if B["rc"] != 0:
            return fail("--read_assignments <two-file run>.save <one-file run>.save failed rc=%s: %s" % (B["rc"], B["log"][-400:]))
        for i, A in enumerate((A1, A2)):
            r = diff_experiment(A["out"], "S", B["out"], "M%d" % i)
            if r:
                return fail("restart from the prefixes of two runs, experiment M%d vs the run that saved it: %s" % (i, r))
        return res
    raise ValueError(name)


def oracle(ctx):
    """every scenario once; a failure is reported with the scenario name as its replayable input"""
    S = prepare(ctx.seed)
    try:
        for name in SCENARIOS:
            ctx.count("oracle:setup_scenario")
            r = run_scenario(S, name)
            nm = r["facts"].get("novel_models_saving_run")
            if name in ("two_files_auto", "replicas_explicit", "two_prefixes") and nm == []:
                ctx.count("setup:replica_check_dropped_the_novel_chain")
            if r["facts"].get("grouped_tables"):
                ctx.count("setup:grouped_tables_written")
            if r["failure"]:
                ctx.fail(KIND, {"kind": KIND, "scenario": name, "seed": ctx.seed}, r["failure"])
    finally:
        cleanup()


def replay(ctx, failure):
    inp = failure["input"]
    S = prepare(inp.get("seed", ctx.seed))
    try:
        r = run_scenario(S, inp["scenario"])
        return {"reproduced": r["failure"] is not None, "detail": r["failure"]}
    finally:
        cleanup()


# ------------------------------------------------------------------------------------------------
# in-process: the set-up the second half of a real run works under

class SetupProbe:
    """records (args.read_group, args.use_technical_replicas) at every entry of the REAL
    DatasetProcessor.process_assigned_reads (the method itself runs unchanged)"""

    def __init__(self, DP):
        self.DP, self.seen = DP, []

    def __enter__(self):
        orig = self.DP.DatasetProcessor.process_assigned_reads
        seen = self.seen

        def wrapped(this, sample, dump_filename):
            seen.append({"read_group": this.args.read_group, "use_technical_replicas": bool(this.args.use_technical_replicas),
                         "prefix": dump_filename})
            return orig(this, sample, dump_filename)
        self.orig = orig
        self.DP.DatasetProcessor.process_assigned_reads = wrapped
        return self

    def __exit__(self, *a):
        self.DP.DatasetProcessor.process_assigned_reads = self.orig
