"""C11 extension — alignment collection / region splitting (Model/Regions.lean, C05) under translation.
Theorems: lean/IsoVerif/Props/C11Regions.lean.  Real code: src/alignment_processor.py AlignmentCollector.process,
split_coverage_regions, forward_alignments, BAMAlignmentStorage / InMemoryAlignmentStorage.

Sub-region splitting is equivariant only for shifts by multiples of COVERAGE_BIN (= 256, the property's own quantifier);
`split_shift_witness` (k = 100) must FAIL on model and code.  Clusters / regions / statistics: every k."""
import vlib
from gen import c11gen as T
from gen import coverage as G
from props.c11ext import Rel

PROPS = ["IsoVerif/Props/C11Regions.lean"]
TARGETS = ["IsoVerif.Props.C11Regions"]
BIN = 256


def _c05():
    from props import C05 as M
    return M


def shift_alns(k, alns):
    return [[a[0] + k, a[1] + k, a[2], a[3], a[4]] for a in alns]


def shift_cov(j, cov):
    return [[b + j, v] for b, v in cov]


def _tl(l):
    return [tuple(x) for x in l]


WITNESS_ALNS = [[0, 40000, 0, 60, 1]]


def _nonneg(par, kw):
    """BAM coordinates are non-negative before and after the shift (the real collector fetches [0, reference_length))"""
    return all(a[0] >= 0 and a[0] + par["k"] >= 0 for a in kw["alns"])


def _dom_split_alns(par, kw):
    if not _nonneg(par, kw):
        return False
    if par["k"] % BIN == 0:
        return True
    return "witness" if (par["k"] == 100 and vlib.canon(kw["alns"]) == WITNESS_ALNS) else False


def _collect(mode):
    return lambda kw: _c05()._flat(_c05().real_collect(kw["alns"], mode == "memory"))


def _shift_forward(k, out):
    return [[list(T.shift_iv(k, tuple(r))), rids] for r, rids in out]


RELS = [
    Rel("S.split_coverage_regions", "shift_equivariant_splitCoverageRegions",
        model=lambda kw: vlib.req("C05.split", **kw), impl=lambda kw: _c05().real_split(kw),
        tin=lambda par, kw: {"R": list(T.shift_iv(par["k"], tuple(kw["R"]))), "count": kw["count"],
                             "cov": shift_cov(par["k"] // BIN, kw["cov"])},
        tout=lambda par, kw, v: T.shift_l(par["k"], _tl(v)),
        domain=lambda par, kw: par["k"] % BIN == 0,
        nontrivial=lambda kw, v: not vlib.is_err(v) and len(v) > 1),
    Rel("S.split_of_alignments", "shift_equivariant_split_of_alignments / split_shift_witness",
        model=lambda kw: vlib.req("C05.split_of_alns", **kw), impl=lambda kw: _c05().real_split_of_alns(kw["alns"]),
        tin=lambda par, kw: {"alns": shift_alns(par["k"], kw["alns"])},
        tout=lambda par, kw, v: T.shift_l(par["k"], _tl(v)),
        domain=_dom_split_alns,
        nontrivial=lambda kw, v: not vlib.is_err(v) and len(v) > 1),
    Rel("S.clusters", "shift_equivariant_clusters / shift_equivariant_processStats",
        model=lambda kw: vlib.req("C05.clusters", **kw), impl=lambda kw: _c05().real_clusters(kw["alns"]),
        tin=lambda par, kw: {"alns": shift_alns(par["k"], kw["alns"])},
        tout=lambda par, kw, v: {"clusters": v["clusters"], "stats": v["stats"],
                                 "regions": [None if r is None else list(T.shift_iv(par["k"], tuple(r))) for r in v["regions"]]},
        domain=_nonneg,
        nontrivial=lambda kw, v: not vlib.is_err(v) and len(v["clusters"]) > 1),
    Rel("S.collect_bam", "shift_equivariant_collect_bam",
        model=lambda kw: vlib.req("C05.collect", mode="bam", **kw), impl=_collect("bam"),
        tin=lambda par, kw: {"alns": shift_alns(par["k"], kw["alns"])},
        tout=lambda par, kw, v: _shift_forward(par["k"], v),
        domain=lambda par, kw: par["k"] % BIN == 0 and _nonneg(par, kw),
        nontrivial=lambda kw, v: not vlib.is_err(v) and len(v) > 1),
    # --high_memory: the two index dictionaries are outside the proved view; the relation is SEARCHED on model and code
    Rel("S.collect_memory", "(searched only: InMemoryAlignmentStorage index dictionaries are not in the proved view)",
        model=lambda kw: vlib.req("C05.collect", mode="memory", **kw), impl=_collect("memory"),
        tin=lambda par, kw: {"alns": shift_alns(par["k"], kw["alns"])},
        tout=lambda par, kw, v: _shift_forward(par["k"], v),
        domain=lambda par, kw: par["k"] % BIN == 0 and _nonneg(par, kw),
        nontrivial=lambda kw, v: not vlib.is_err(v) and len(v) > 1),
]

MULT = [256, 512, 1024, 256 * 1000, -256]
ANY = [1, 100, 255, 256, 1000, 4099, -3]


def cases(ctx):
    rng = ctx.rng
    quick = ctx.tier == "quick"
    out = [("S.split_of_alignments", {"k": 100}, {"alns": [list(a) for a in WITNESS_ALNS]}),
           ("S.split_of_alignments", {"k": 768}, {"alns": [list(a) for a in WITNESS_ALNS]})]
    for _ in range(300 if quick else 4000):
        c = G.rand_cov_case(rng) if rng.random() < 0.9 else G.malformed_cov_case(rng)
        k = rng.choice(MULT)
        if min([b for b, _ in c["cov"]] + [0]) + k // BIN < 0 and False:
            continue
        out.append(("S.split_coverage_regions", {"k": k}, c))
    for _ in range(150 if quick else 2000):
        s = G.small_cluster_set(rng)
        out.append(("S.clusters", {"k": rng.choice(ANY)}, {"alns": s}))
        if s:
            out.append(("S.collect_bam", {"k": rng.choice(MULT[:4])}, {"alns": s}))
    kinds = ["pile_bridge_tail", "final_bin_valley", "single_bin", "first_base", "long_ladder", "two_piles",
             "random_profile", "thin_long"]
    for i in range(8 if quick else 96):
        kind, alns = G.split_cluster(rng, kinds[i % len(kinds)])
        k = rng.choice(MULT[:4])
        out.append(("S.split_of_alignments", {"k": k}, {"alns": alns}))
        out.append(("S.collect_bam", {"k": k}, {"alns": alns}))
        out.append(("S.collect_memory", {"k": k}, {"alns": alns}))
        out.append(("S.clusters", {"k": rng.choice(ANY)}, {"alns": alns}))
    return out


def transformation_checks(ctx):
    """shiftAln / shiftCov of the theorems = the harness's (through C05.storage on a shifted alignment set)"""
    rng = ctx.rng
    for _ in range(10):
        s = [a for a in G.small_cluster_set(rng) if not a[2] & 4][:12]
        if not s:
            continue
        j = rng.choice([1, 3, 40])
        mo = ctx.driver.run([vlib.req("C05.storage", alns=s), vlib.req("C05.storage", alns=shift_alns(BIN * j, s))])
        ctx.evaluations += 1
        ctx.count("op:T.shift_cov")
        ctx.traces_validated += 1
        if vlib.is_err(mo[0]) or vlib.is_err(mo[1]):
            continue
        exp = {"region": list(T.shift_iv(BIN * j, tuple(mo[0]["region"]))) if mo[0]["region"] else None,
               "cov": shift_cov(j, mo[0]["cov"]), "count": mo[0]["count"]}
        if mo[1] != vlib.canon(exp):
            ctx.disagree("T.shift_cov", {"alns": s, "j": j}, mo[1], vlib.canon(exp))
