"""C03, text level — the full line rendering of `GFFPrinter.dump` and the attribute assembly of `TranscriptModel` /
`GeneInfo` (model: lean/IsoVerif/Model/GtfText.lean, driver prefix `C03T.`; theorems: Props/C03Text*.lean).

correspondence (called from props/C03.py):
  py_format        the `%s`/`%d` interpreter of the model against Python's `%`
  gtf_tables       every generated literal (Gen/GtfFormat.lean) occurs in the constants of the live function it was read from
  dump_text        RAW TEXT of the file the real GFFPrinter writes for a history of dump calls (real TranscriptModel objects
                   with sources / additional attributes, stub gene_info with feature_attributes / sources / regions, real
                   FeatureIdStorage over a reference exon table) == concatenation of the model's lines, byte for byte, and the
                   `additional_info` of the storage afterwards
  gene_attributes  feature_attributes / sources / other_features of a real GeneInfo over a real gffutils database
  extended_text    create_extended_storage + dump of the whole chromosome: storage (incl. source, other_features, order) and the
                   raw text, in order (transcript blocks are NOT compared as a set any more)
  parse_line       the reading grammar of the theorems (`pySplit '\\t'`, `parseAttrs`) against an independent reader, on
                   every line the real printer wrote
oracle: on the text written by the real printer for histories with clean strings: 9 tab-separated columns, attribute column
of the form (key "value"; )*, coordinates, gene_id / transcript_id consistency of blocks, feature order and exon_number.
"""
import os
import re
import shutil
import types
from collections import defaultdict

import vlib
from gen import c03text as GT
from gen import ids as GIDS

OPS = ["py_format", "gtf_tables", "dump_text", "gene_attributes", "extended_text", "parse_line"]


def _mods():
    vlib.repo_on_path()
    import src.transcript_printer as TP
    import src.gene_info as GI
    import src.id_policy as IDP
    import src.assignment_io as AIO
    import src.graph_based_model_construction as GB
    return TP, GI, IDP, AIO, GB


_n = [0]


# ------------------------------------------------------------------------------------------------------------------
# real side


class StubGeneInfo:
    """exactly what GFFPrinter.dump reads of a GeneInfo (feature_attributes is a defaultdict(str) as in GeneInfo)"""

    def __init__(self, gi):
        self.chr_id = gi["chr"]
        self._regions = {g: (a, b) for g, a, b in gi["regions"]}
        self.feature_attributes = defaultdict(str)
        for k, v in gi["feat_attrs"]:
            self.feature_attributes[k] = v
        self.sources = {k: v for k, v in gi["sources"]}

    def empty(self):
        return not self._regions

    def get_gene_regions(self):
        return self._regions


def real_model(m):
    TP, GI, IDP, AIO, GB = _mods()
    r = GI.TranscriptModel(m["chr"], m["strand"], m["tid"], m["gid"], [tuple(e) for e in m["exons"]],
                           GI.TranscriptModelType.novel_not_in_catalog,
                           other_features=[tuple(o) for o in m["other"]], source=m["source"])
    for k, v in m["additional"]:
        r.add_additional_attribute(k, v)
    return r


def real_storage(chrom, feats):
    TP, GI, IDP, AIO, GB = _mods()
    db = None if feats is None else GIDS.stub_exon_db(chrom, feats)
    return IDP.FeatureIdStorage(IDP.SimpleIDDistributor(), db, chrom, "exon")


def real_dump_text(case, scratch, gene_infos=None, storages=None):
    """-> per call {'text': str, 'printed': [...], 'after': [[k, v]...] per model} up to the first aborting call"""
    TP, GI, IDP, AIO, GB = _mods()
    _n[0] += 1
    printer = TP.GFFPrinter(scratch, "t%d" % _n[0], real_storage(case["chr"], case["genedb"]), output_r2t=False)
    out = []
    size = 0
    try:
        for i, c in enumerate(case["calls"]):
            gi = gene_infos[i] if gene_infos else StubGeneInfo(c["gi"])
            ms = storages[i] if storages else [real_model(m) for m in c["models"]]
            try:
                printer.dump(gi, ms)
            except (AssertionError, IndexError, KeyError, TypeError) as ex:
                out.append({"error": "error", "exc": type(ex).__name__})
                break
            printer.out_gff.flush()
            with open(printer.model_fname, newline="") as f:
                whole = f.read()
            out.append({"text": whole[size:], "printed": sorted(printer.printed_gene_ids),
                        "after": [[[k, v] for k, v in m.additional_info.items()] for m in ms]})
            size = len(whole)
    finally:
        printer.out_gff.close()
        os.remove(printer.model_fname)
    return out


def compare_calls(mo, io):
    """model per-call list vs real per-call list"""
    if len(mo) != len(io):
        return False
    for a, b in zip(mo, io):
        if vlib.is_err(a) or vlib.is_err(b):
            if not (vlib.is_err(a) and vlib.is_err(b)):
                return False
            continue
        if "".join(a["text"]) != b["text"] or sorted(a["printed"]) != b["printed"] or a["after"] != b["after"]:
            return False
    return True


# ------------------------------------------------------------------------------------------------------------------
# independent reader of a line (for the grammar tie and for the oracle)

ATTR_ITEM = re.compile(r' *([^ ";][^ "]*) "([^"]*)";')


def read_attrs(col):
    """(key "value";)* separated by blanks -> [[k, v]] or None"""
    pos = 0
    res = []
    while True:
        m = ATTR_ITEM.match(col, pos)
        if not m:
            break
        res.append([m.group(1), m.group(2)])
        pos = m.end()
    return res if col[pos:].strip(" ") == "" else None


def read_line(body):
    cols = body.split("\t")
    return {"cols": cols, "attrs": read_attrs(cols[-1])}


# ------------------------------------------------------------------------------------------------------------------
# real GeneInfo over a real gffutils database


def make_db(ann, scratch):
    import gffutils
    _n[0] += 1
    gtf = os.path.join(scratch, "rich%d.gtf" % _n[0])
    with open(gtf, "w") as f:
        f.write(GT.rich_annotation_gtf(ann))
    db = gffutils.create_db(gtf, ":memory:", force=True, keep_order=True, merge_strategy="error",
                            sort_attribute_values=True, disable_infer_transcripts=True, disable_infer_genes=True)
    os.remove(gtf)
    return db


def db_genes(db, gene_info):
    """the model's DbGene list: what gffutils returns for the genes of the GeneInfo (trusted as returned)"""
    genes = []
    for g in gene_info.gene_db_list:
        txs = []
        for t in db.children(g, featuretype=("transcript", "mRNA")):
            ch = list(db.children(t))
            exons = [[e.start, e.end] for e in db.children(t, order_by="start") if e.featuretype == "exon"]
            txs.append({"id": t.id, "source": t.source, "strand": t.strand,
                        "attrs": [[k, list(t.attributes[k])] for k in t.attributes.keys()],
                        "feats": [[e.start, e.end, e.featuretype] for e in ch], "exons": exons})
        genes.append({"id": g.id, "source": g.source, "attrs": [[k, list(g.attributes[k])] for k in g.attributes.keys()],
                      "txs": txs,
                      "by_start": [t.id for t in db.children(g, featuretype=("transcript", "mRNA"), order_by="start")],
                      "exons": [[e.start, e.end, e.strand] for e in db.children(g, featuretype="exon")]})
    return genes


def model_json(m):
    return {"chr": m.chr_id, "strand": m.strand, "tid": m.transcript_id, "gid": m.gene_id, "source": m.source,
            "exons": vlib.canon(m.exon_blocks), "other": vlib.canon(m.other_features),
            "additional": [[k, v] for k, v in m.additional_info.items()]}


def extended_case(ctx, rng, scratch):
    TP, GI, IDP, AIO, GB = _mods()
    ann = GT.rich_annotation(rng)
    db = make_db(ann, scratch)
    chr_len = max(g["end"] for g in ann["genes"]) + 100
    novel = []
    for k in range(rng.randint(0, 3)):
        ex = GT.G.sd_exons(rng, maxc=600)
        if rng.random() < 0.5:
            g = rng.choice(ann["genes"])
            gid, strand = g["gid"], g["strand"]
        else:
            gid, strand = "novel_gene_c1_%d" % k, rng.choice("+-.")
        novel.append({"chr": "c1", "strand": strand, "tid": "transcript%d.c1.nnic" % k, "gid": gid, "source": "IsoQuant",
                      "exons": [list(e) for e in ex], "other": [], "additional": GT.additional(rng, "", False)})
    real_novel = [real_model(n) for n in novel]
    all_models, gene_info = TP.create_extended_storage(db, "c1", "A" * chr_len, real_novel)
    genes = db_genes(db, gene_info)
    inp = {"ann": ann, "novel": novel}
    # --- GeneInfo side
    mo = ctx.driver.run([vlib.req("C03T.gene_attributes", genes=genes)])[0]
    io = {"feat_attrs": [[k, v] for k, v in gene_info.feature_attributes.items()],
          "sources": [[k, v] for k, v in gene_info.sources.items()],
          "other": [[k, vlib.canon(v)] for k, v in gene_info.other_features.items() if v]}
    ctx.evaluations += 1
    ctx.traces_validated += 1
    ctx.count("op:gene_attributes")
    if mo != io:
        ctx.disagree("gene_attributes", inp, mo, io)
    elif io["feat_attrs"]:
        ctx.mark_nontrivial(["gene_attributes", inp])
    # --- storage + raw text of the chromosome-wide dump
    feats = []
    for e in db.region(seqid="c1", start=1, featuretype="exon"):
        feats.append({"start": e.start, "end": e.end, "strand": e.strand,
                      "attr": list(e.attributes["exon_id"]) if "exon_id" in e.attributes else None})
    regions = [[g.id, g.start, g.end] for g in gene_info.gene_db_list] if not gene_info.empty() else []
    mo = ctx.driver.run([vlib.req("C03T.extended_text", chr="c1", genes=genes, regions=regions, novel=novel, genedb=feats)])[0]
    real_store = [model_json(m) for m in all_models]
    _n[0] += 1
    printer = TP.GFFPrinter(scratch, "x%d" % _n[0], IDP.FeatureIdStorage(IDP.SimpleIDDistributor(), db, "c1", "exon"),
                            output_r2t=False)
    try:
        try:
            printer.dump(gene_info, all_models)
            err = None
        except (AssertionError, IndexError, KeyError, TypeError) as ex:
            err = {"error": "error", "exc": type(ex).__name__}
        printer.out_gff.flush()
        with open(printer.model_fname, newline="") as f:
            text = f.read()
    finally:
        printer.out_gff.close()
        os.remove(printer.model_fname)
    ctx.evaluations += 1
    ctx.traces_validated += 1
    ctx.count("op:extended_text")
    if vlib.is_err(mo) or "driver_error" in mo:
        ctx.disagree("extended_text", inp, mo, err or "ok")
        return text
    if mo["storage"] != real_store:
        ctx.disagree("extended_storage_text", inp, mo["storage"], real_store)
        return text
    d = mo["dump"][0]
    if vlib.is_err(d) != bool(err) or (not err and "".join(d["text"]) != text):
        ctx.disagree("extended_text", inp, d, err or text)
        return text
    if not err:
        after = [[[k, v] for k, v in m.additional_info.items()] for m in all_models]
        if d["after"] != after:
            ctx.disagree("extended_text_after", inp, d["after"], after)
            return text
        ctx.mark_nontrivial(["extended_text", inp])
        if any(len({t["exons"][0][0] for t in g["transcripts"]}) < len(g["transcripts"]) for g in ann["genes"]):
            ctx.count("extended_text:equal_transcript_starts")
    return text


# ------------------------------------------------------------------------------------------------------------------
# correspondence


def check_tables(ctx):
    """every generated literal is a constant of the live function it was extracted from"""
    TP, GI, IDP, AIO, GB = _mods()

    def consts(fn):
        res, todo = set(), [fn.__code__]
        while todo:
            c = todo.pop()
            for k in c.co_consts:
                if isinstance(k, types.CodeType):
                    todo.append(k)
                elif isinstance(k, (tuple, frozenset)):
                    res.add(tuple(k))
                    res.update(x for x in k if isinstance(x, str))
                else:
                    res.add(k)
        return res

    def present(fmt, cs):
        """CPython compiles a '%s'-only format into its literal pieces"""
        return isinstance(fmt, str) and (fmt in cs or ("%d" not in fmt and all(p in cs for p in fmt.split("%s") if p)))

    t = ctx.driver.run([vlib.req("C03T.gtf_tables")])[0]
    ctx.evaluations += 1
    ctx.count("op:gtf_tables")
    dump_c = consts(TP.GFFPrinter.dump)
    sga_c = consts(GI.GeneInfo.set_gene_attributes)
    aas_c = consts(GI.TranscriptModel.additional_attributes_str)
    bad = []
    for k in ["gtf_gene_fmt", "gtf_transcript_fmt", "gtf_prefix_fmt", "gtf_suffix_fmt", "gtf_feature_coord_fmt",
              "gtf_feature_attr_fmt", "gtf_exon_key_fmt", "gtf_default_source", "gtf_exons_key", "gtf_exon_feature",
              "gtf_reverse_strand", "gtf_tx_extra_sep", "gtf_exon_extra_sep"]:
        if not present(t.get(k), dump_c):
            bad.append(k)
    for k in ["gi_gene_attr_fmt", "gi_transcript_attr_fmt", "gi_exon_attr_fmt", "gi_exon_key_fmt"]:
        if not present(t.get(k), sga_c):
            bad.append(k)
    for k in ["gi_gene_attr_skip", "gi_transcript_attr_skip", "gi_exon_attr_skip"]:
        if tuple(t.get(k, [])) not in sga_c:
            bad.append(k)
    if not present(t.get("tm_attr_fmt"), aas_c) or t.get("tm_attr_join") not in aas_c:
        bad.append("tm_attr_fmt/join")
    if sorted(GI.GeneInfo.OTHER_FEATURES) != t.get("gi_other_features"):
        bad.append("gi_other_features")
    import inspect
    if inspect.signature(GI.TranscriptModel.__init__).parameters["source"].default != t.get("tm_default_source"):
        bad.append("tm_default_source")
    live_keys = set()
    for fn in (TP.GFFPrinter.dump, AIO.__dict__.get("BasicTSVAssignmentPrinter", object).__dict__.get("add_canonical_info_for_model", None),
               GB.GraphBasedModelConstructor.__dict__.get("transcript_to_transcript_assignment", None) if hasattr(GB, "GraphBasedModelConstructor") else None):
        if fn is not None and hasattr(fn, "__code__"):
            live_keys |= {x for x in consts(fn) if isinstance(x, str)}
    for k in t.get("gtf_additional_keys", []):
        if live_keys and k not in live_keys and k not in ("Canonical", "similar_reference_id", "alternatives"):
            bad.append("gtf_additional_keys:" + k)
    if bad:
        ctx.disagree("gtf_tables", {"tables": bad}, {k: t.get(k.split(":")[0]) for k in bad}, "not a constant of the live function")
    else:
        ctx.mark_nontrivial("gtf_tables")


def correspondence(ctx):
    TP, GI, IDP, AIO, GB = _mods()
    rng = ctx.rng
    quick = ctx.tier == "quick"
    scratch = vlib.scratch_dir("isoverif_c03t_")
    try:
        # ---- % formatting
        cases = []
        fmts = ["%s", "%d", "a%sb%dc", "%s\t%d\t%d\t", '_%d_%d_%s', "%d%d", "x", "", '%s "%s"; ', "%s%s%s"]
        for _ in range(300 if quick else 3000):
            f = rng.choice(fmts)
            n = f.count("%")
            args = []
            for i in range(n + rng.choice([0, 0, 0, 0, 1, -1]) if n else rng.choice([0, 0, 1])):
                args.append(rng.choice([rng.randint(-50, 50), 10 ** rng.randint(1, 20), -10 ** rng.randint(1, 20), "ab", "", "x y"]))
            cases.append(("py_format", {"fmt": f, "args": args}))

        def impl_fmt(op, kw):
            try:
                return kw["fmt"] % tuple(kw["args"])
            except (TypeError, ValueError) as ex:
                return {"error": "error", "exc": type(ex).__name__}
        ctx.diff_batch("C03T", cases, impl_fmt, nontrivial=lambda op, kw, mo: isinstance(mo, str) and len(kw["args"]) > 0)
        # ---- generated literals against the live functions
        check_tables(ctx)
        # ---- raw text of dump histories
        hist = GT.designed_histories()
        for _ in range(900 if quick else 12000):
            hist.append(GT.history(rng, small=rng.random() < 0.5, dirty=rng.random() < 0.15))
        hist = [vlib.canon(h) for h in hist]
        outs = ctx.driver.run([vlib.req("C03T.dump_text", **h) for h in hist])
        real_lines = []
        for h, mo in zip(hist, outs):
            ctx.evaluations += 1
            ctx.count("op:dump_text")
            if isinstance(mo, dict) and "driver_error" in mo:
                ctx.disagree("dump_text", h, mo, None)
                continue
            io = real_dump_text(h, scratch)
            ctx.traces_validated += 1
            if any(vlib.is_err(x) for x in mo):
                ctx.count("model_error")
            if not compare_calls(mo, io):
                ctx.disagree("dump_text", h, mo, io)
                continue
            n_lines = sum(len(x["text"]) for x in mo if not vlib.is_err(x))
            if n_lines > 0:
                ctx.mark_nontrivial(["dump_text", h])
                ctx.count("dump_text_lines", n_lines)
                if any("exon_id" in l and "; " in l for x in mo if not vlib.is_err(x) for l in x["text"]):
                    ctx.count("dump_text:with_feature_lines")
            for x in io:
                if not vlib.is_err(x) and len(real_lines) < (3000 if quick else 30000):
                    real_lines += [l for l in x["text"].split("\n") if l]
            if len(ctx.samples) < 6 and rng.random() < 0.004:
                ctx.sample({"op": "dump_text", "input": h, "model": mo, "impl": io})
        # ---- GeneInfo side + chromosome-wide dump on real gffutils databases
        for _ in range(40 if quick else 400):
            text = extended_case(ctx, rng, scratch)
            real_lines += [l for l in text.split("\n") if l]
        # ---- the reading grammar on lines the real printer wrote
        real_lines = [l for l in real_lines if l]
        rng.shuffle(real_lines)
        real_lines = real_lines[:2500 if quick else 25000]
        outs = ctx.driver.run([vlib.req("C03T.parse_line", s=l) for l in real_lines])
        for l, mo in zip(real_lines, outs):
            ctx.evaluations += 1
            ctx.count("op:parse_line")
            io = read_line(l)
            ctx.traces_validated += 1
            if mo != io:
                ctx.disagree("parse_line", {"s": l}, mo, io)
            elif io["attrs"]:
                ctx.mark_nontrivial(["parse_line", l])
    finally:
        shutil.rmtree(scratch, ignore_errors=True)


# ------------------------------------------------------------------------------------------------------------------
# oracle: the text-level clauses on the real printer


BAD = set('\t\n";')


def clean_str(s, key=False):
    return not (set(s) & BAD) and (not key or (s != "" and " " not in s))


def clean_case(case):
    """the domain of `dump_line_grammar`: no tab / newline / quote in any field, keys non-empty without blanks,
    feature_attributes texts of the form set_gene_attributes produces"""
    if not clean_str(case["chr"], key=True):
        return False
    for f in case["genedb"] or []:
        if f["attr"] and not clean_str(f["attr"][0]):
            return False
    for c in case["calls"]:
        gi = c["gi"]
        if not all(clean_str(v) for _, v in gi["sources"]):
            return False
        for _, t in gi["feat_attrs"]:
            if read_attrs(t) is None or "\t" in t or "\n" in t:
                return False
        for m in c["models"]:
            if not all(clean_str(m[k]) for k in ("chr", "strand", "tid", "gid", "source")):
                return False
            if not all(clean_str(k, key=True) and clean_str(v) for k, v in m["additional"]):
                return False
            if not all(clean_str(o[2], key=True) for o in m["other"]):
                return False
    return True


def text_failures(text, where=""):
    """the text-level clauses on one GTF text (comment lines skipped) -> [(kind, detail)]"""
    fails = []
    cur_gene = None
    cur_tx = None
    last_feat = None
    genes_seen = set()
    for ln, body in enumerate(text.split("\n")):
        if body == "" or body.startswith("#"):
            continue
        cols = body.split("\t")
        if len(cols) != 9:
            fails.append(("line_not_nine_columns", "%s line %d: %r" % (where, ln + 1, body[:200])))
            continue
        attrs = read_attrs(cols[8])
        if attrs is None:
            fails.append(("attribute_column_malformed", "%s line %d: %r" % (where, ln + 1, cols[8][:200])))
            continue
        try:
            s, e = int(cols[3]), int(cols[4])
        except ValueError:
            fails.append(("coordinates_not_integers", "%s line %d" % (where, ln + 1)))
            continue
        if cols[5] != "." or cols[7] != ".":
            fails.append(("fixed_columns_changed", "%s line %d" % (where, ln + 1)))
        d = {}
        for k, v in attrs:
            d.setdefault(k, v)
        if not attrs or attrs[0][0] != "gene_id":
            fails.append(("gene_id_not_first_attribute", "%s line %d" % (where, ln + 1)))
            continue
        if cols[2] == "gene":
            cur_gene, cur_tx, last_feat = d["gene_id"], None, None
            if (cols[0], cur_gene) in genes_seen:
                fails.append(("gene_record_not_once", "%s line %d gene %s" % (where, ln + 1, cur_gene)))
            genes_seen.add((cols[0], cur_gene))
            if len(attrs) < 2 or attrs[1][0] != "transcripts" or not attrs[1][1].isdigit():
                fails.append(("gene_line_without_transcripts_count", "%s line %d" % (where, ln + 1)))
        elif cols[2] == "transcript":
            if len(attrs) < 2 or attrs[1][0] != "transcript_id":
                fails.append(("transcript_id_not_second_attribute", "%s line %d" % (where, ln + 1)))
                continue
            cur_tx = {"gid": d["gene_id"], "tid": d["transcript_id"], "chr": cols[0], "strand": cols[6], "n": 0,
                      "source": cols[1], "s": s, "e": e}
            last_feat = None
            if "exons" not in d:
                fails.append(("transcript_line_without_exons_attribute", "%s line %d" % (where, ln + 1)))
        else:
            if cur_tx is None:
                fails.append(("feature_line_outside_transcript_block", "%s line %d" % (where, ln + 1)))
                continue
            if d.get("gene_id") != cur_tx["gid"] or d.get("transcript_id") != cur_tx["tid"] or cols[0] != cur_tx["chr"] \
                    or cols[6] != cur_tx["strand"] or cols[1] != cur_tx["source"]:
                fails.append(("feature_line_disagrees_with_its_transcript_line",
                              "%s line %d: %r vs %r" % (where, ln + 1, body[:160], cur_tx)))
            cur_tx["n"] += 1
            if d.get("exon_number") != str(cur_tx["n"]):
                fails.append(("exon_number_not_consecutive", "%s line %d" % (where, ln + 1)))
            if "exon_id" not in d:
                fails.append(("feature_line_without_exon_id", "%s line %d" % (where, ln + 1)))
            key = (s, e, cols[2])
            if last_feat is not None:
                if (cur_tx["strand"] == "-" and key > last_feat) or (cur_tx["strand"] != "-" and key < last_feat):
                    fails.append(("feature_lines_out_of_order", "%s line %d" % (where, ln + 1)))
            last_feat = key
    return fails


def oracle_case(case, scratch):
    """the clauses of the text theorems on the real printer, for one history -> [(kind, detail)]"""
    io = real_dump_text(case, scratch)
    fails = []
    text = "".join(x["text"] for x in io if not vlib.is_err(x))
    fails += text_failures(text)
    # order_total: transcript blocks of one gene appear in storage order (what the code does); gene blocks by range
    for c, x in zip(case["calls"], io):
        if vlib.is_err(x):
            break
        tids = [dict(read_attrs(b.split("\t")[8]) or []).get("transcript_id") for b in x["text"].split("\n")
                if b and len(b.split("\t")) == 9 and b.split("\t")[2] == "transcript"]
        gids = [dict(read_attrs(b.split("\t")[8]) or []).get("gene_id") for b in x["text"].split("\n")
                if b and len(b.split("\t")) == 9 and b.split("\t")[2] == "transcript"]
        TP = _mods()[0]
        valid = [m for m in c["models"] if TP.validate_exons([tuple(e) for e in m["exons"]])]
        for g in set(gids):
            got = [t for t, gg in zip(tids, gids) if gg == g]
            exp = [m["tid"] for m in valid if m["gid"] == g]
            if got != exp:
                fails.append(("transcript_blocks_not_in_storage_order", "gene %s: %s vs %s" % (g, got, exp)))
        if sorted(tids) != sorted(m["tid"] for m in valid):
            fails.append(("transcript_lines_not_the_valid_models", "%s vs %s" % (tids, [m["tid"] for m in valid])))
    return fails


def oracle(ctx, disagreements, broken):
    """failing-input search on the real printer (works without the driver)"""
    rng = ctx.rng
    quick = ctx.tier == "quick"
    scratch = vlib.scratch_dir("isoverif_c03t_or_")
    reported = {}

    def run(case, origin):
        try:
            fs = oracle_case(case, scratch)
        except Exception as ex:       # the harness must not hide a crash of the real code
            fs = [("printer_crash", "%s: %s" % (type(ex).__name__, ex))]
        for kind, det in fs:
            reported[kind] = reported.get(kind, 0) + 1
            if reported[kind] <= 3:
                ctx.fail(kind, {"level": "text", "case": case}, "%s (%s)" % (det, origin))

    try:
        for d in disagreements:
            if d.get("op") == "dump_text" and isinstance(d.get("input"), dict) and "calls" in d["input"]:
                if clean_case(d["input"]):
                    run(d["input"], "disagreeing input")
        for h in GT.designed_histories():
            run(h, "designed")
        n = 0
        for _ in range(400 if quick else 5000):
            h = vlib.canon(GT.history(rng, small=rng.random() < 0.5, dirty=False))
            if not clean_case(h):
                continue
            n += 1
            run(h, "generated")
        ctx.count("oracle_text_histories", n)
    finally:
        shutil.rmtree(scratch, ignore_errors=True)


def replay(ctx, failure):
    inp = failure.get("input", {})
    if inp.get("level") != "text":
        return None
    scratch = vlib.scratch_dir("isoverif_c03t_rp_")
    try:
        fs = oracle_case(inp["case"], scratch)
        return any(k == failure["kind"] for k, _ in fs)
    finally:
        shutil.rmtree(scratch, ignore_errors=True)
