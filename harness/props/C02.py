"""C02 — expression tables equal the documented weighting of reported read assignments."""
import os
import shutil
from collections import defaultdict
from decimal import Decimal
from fractions import Fraction
from types import SimpleNamespace

import vlib
from gen import counts as G
from props import C02_tables as TB

ID = "C02"
PROPS = ["IsoVerif/Props/C02.lean", "IsoVerif/Props/C02Merge.lean", "IsoVerif/Props/C02Forward.lean",
         "IsoVerif/Props/C02MergeOrder.lean", "IsoVerif/Props/C02Combine.lean", "IsoVerif/Props/C02Grouped.lean"]
TARGETS = ["IsoVerif.Props.C02", "IsoVerif.Props.C02Merge", "IsoVerif.Props.C02Forward",
           "IsoVerif.Props.C02MergeOrder", "IsoVerif.Props.C02Combine", "IsoVerif.Props.C02Grouped"]
GEN_DEPS = ["Enums", "EventClasses", "Strategies", "CounterTables", "CombineTables", "Weights", "ReadGroups"]
LEVEL = "proof"
RULE = ("weights: exhaustive 5 strategies x 9 assignment types x k in 0..12 (+ large k); single-record histories: exhaustive "
        "9 x 9 type pairs x 8 match shapes x corrected-exon / isoform-intron variants x 5 strategies x 2 extractors on real "
        "counters; seeded random histories (realistic = what assigner + resolver emit, adversarial = any type pair / None ids / "
        "missing intron entries; up to 400 calls incl. raw / unassigned / confirm calls) dumped per chromosome, merged with the "
        "real merge_counts (part files listed in a shuffled chr_ids order, names with equal natural keys included; the model sorts "
        "the REAL file names with the C06 natural-order model) and converted with the real convert_counts_to_tpm; forward_counts on "
        "generated per-gene tables; combine_counts: 2-4 experiments over a shared annotation run through the real counters / "
        "merge_counts / convert_counts_to_tpm and the real src.stats.combine_counts (pandas) + synthetic tables written in the "
        "generated file format (ids with leading underscores, ids equal to statistics-line names, numeric-looking and non-ASCII ids, "
        "empty tables), compared cell by cell AND in row order; grouped counters: tagged histories on a real ungrouped + a real "
        "grouped counter (the CompositeCounter order) vs the C09 counter model fed through the C02 extractor model. "
        "A case is non-trivial when the model returns a non-error value with at least one non-zero count (or a non-empty call "
        "list) and model == implementation; distinct by canonical input")
TRUSTED = ["hand-written model IsoVerif/Model/Counter.lean of src/long_read_counter.py / file_utils.merge_counts / "
           "forward_counts, tied by differential execution on real counter objects and real files",
           "the natural-sort order of the per-chromosome part files is C06's model (Model/Schedule.lean keyLe), applied by the "
           "driver to the real file names; the outer join of combine_counts is C10's model (Model/Samples.lean), the grouped "
           "counter is C09's model (Model/C09.lean): imported, tied here by their own C02-side correspondence cases",
           "Gen/CombineTables.lean (slice constant of transform_counts, join key / kind, the four combine_table calls, the header "
           "written by format_header, the renaming of the TPM value column, the __unassigned line) is re-extracted on every run "
           "and cross-checked against the behaviour of the real functions",
           "Gen/CounterTables.lean (statistics-line names written by dump_ungrouped / merge_counts, stop test of "
           "convert_counts_to_tpm, print formats) and Gen/Strategies.lean (strategy flags) are re-extracted from /repo on every run",
           "core Lean only (no Mathlib import in any C02 file)"]
ASSUMPTIONS = ["Python float sums of 1.0/k are compared with the model's exact rationals within 1e-9",
               "printed %.2f / %.6f values are compared with the model's round-half-even rendering; at an exact tie of the "
               "exact value (…5 in the next digit) one quantum is allowed because the double nearest to the rational decides",
               "feature ids are non-empty strings without tab / newline (ids starting with '#' are INSIDE the domain and generated: "
               "the header of a counts file is its first line only)",
               "a record typed unique at the extractor's level has at most one distinct feature (list(set)[0] is hash-order "
               "otherwise); the assigner and the resolver never produce another shape",
               "combine_counts: feature ids are non-empty (ids in pandas' default NA set - 'NA', 'null', 'nan', 'None', 'N/A' ... - "
               "are inside the domain since fix 896585b and generated); every table lists a feature id once (pandas forms the "
               "cross product of duplicated keys); printed values have at most 15 significant digits (float round trip of read_csv)",
               "pandas writes the rows of an outer join sorted by key (code-point order) - behaviour of the installed pandas, "
               "checked by the correspondence in row order",
               "grouped counters: the same record stream reaches the ungrouped counter first (CompositeCounter), so a call that "
               "raises there never reaches the grouped counter"]

STRATEGIES = G.STRATEGIES
LEVELS = G.LEVELS
LABEL = "XQ"


# ------------------------------------------------------------------------------------------------
# adapters to the real code

def _lrc():
    vlib.repo_on_path()
    import logging
    logging.getLogger("IsoQuant").setLevel(logging.CRITICAL)
    import src.long_read_counter as L
    return L


def make_counter(d, prefix, lvl, strategy, complete, output_zeroes):
    L = _lrc()
    f = L.create_gene_counter if lvl == "gene" else L.create_transcript_counter
    return f(os.path.join(d, prefix), strategy, complete_feature_list=list(complete), read_groups=None,
             output_zeroes=output_zeroes)


def apply_event(counter, ev, i=0):
    k = ev["k"]
    if k == "read":
        counter.add_read_info(G.to_namespace(ev["a"], "read%d" % i))
    elif k == "raw":
        counter.add_read_info_raw("" if ev["noid"] else "read%d" % i, list(ev["fs"]))
    elif k == "unassigned":
        counter.add_unassigned(ev["n"])
    elif k == "unaligned":
        counter.add_unaligned(ev["n"])
    elif k == "confirm":
        counter.add_confirmed_features(list(ev["fs"]))
    else:
        raise RuntimeError(k)


IMPL_ERRORS = (IndexError, AssertionError, ZeroDivisionError, KeyError, ValueError, TypeError, AttributeError)


def parse_counts_file(path):
    """-> rows [[feature, hundredths]], stats {name: int}"""
    rows, stats = [], {}
    with open(path) as f:
        for i, l in enumerate(f):
            l = l.rstrip("\n")
            # the header is the FIRST line (format_header); a feature id may itself start with '#'
            if (i == 0 and l.startswith("#feature_id\t")) or not l:
                continue
            p = l.split("\t")
            if p[0].startswith("__") and p[0] in ("__ambiguous", "__no_feature", "__not_aligned", "__usable"):
                stats[p[0]] = int(p[1])
            else:
                rows.append([p[0], int(Decimal(p[1]) * 100)])
    return rows, stats


def parse_tpm_file(path):
    """-> rows [[feature, Decimal]], unassigned Decimal|None"""
    rows, un = [], None
    with open(path) as f:
        for i, l in enumerate(f):
            l = l.rstrip("\n")
            if (i == 0 and l.startswith("#feature_id\t")) or not l:
                continue
            p = l.split("\t")
            if p[0] == "__unassigned":
                un = Decimal(p[1])
            else:
                rows.append([p[0], Decimal(p[1])])
    return rows, un


def impl_run_dump(case, d, prefix="one.x"):
    """real counter, real dump; returns the observable result in the driver's shape (floats for exact values)"""
    c = make_counter(d, prefix, case["lvl"], case["s"], case["complete"], case["output_zeroes"])
    try:
        for i, ev in enumerate(case["events"]):
            apply_event(c, ev, i)
        feats = sorted(x for x in c.all_features if x is not None)
        raw = [[f, c.feature_counter[f].get(0)] for f in feats]
        confirmed = sorted(c.confirmed_features)
        c.dump()
    except IMPL_ERRORS as ex:
        return {"error": "error", "exc": type(ex).__name__}
    rows, _ = parse_counts_file(c.output_counts_file_name)
    _, stats = parse_counts_file(c.output_stats_file_name)
    exact = []
    for f in feats:
        v = c.feature_counter[f].get(0)
        if not case["output_zeroes"] and v == 0:
            continue
        exact.append([f, v])
    return {"exact": exact, "raw_counts": raw, "confirmed": confirmed,
            "part": {"rows": rows, "stats": [stats.get("__ambiguous"), stats.get("__no_feature"),
                                             stats.get("__not_aligned"), stats.get("__usable")]},
            "_counter": c}


def frac(pair):
    return Fraction(pair[0], pair[1])


def close(fl, fr, eps=1e-9):
    return abs(Fraction(fl) - fr) <= Fraction(eps) * max(1, abs(fr))


def is_tie(fr, scale):
    """exact value has a 5 in the digit after the printed quantum"""
    return (fr * scale * 2).denominator == 1 and (fr * scale).denominator != 1


def printed_ok(printed_quanta, exact, scale, model_quanta=None):
    """printed (integer quanta) is the rendering of `exact` (Fraction): nearest, one quantum of slack at exact ties"""
    if model_quanta is not None and printed_quanta == model_quanta:
        return True
    return abs(Fraction(printed_quanta) - exact * scale) <= Fraction(1, 2) + Fraction(1, 10 ** 6)


def same_run(mo, io):
    """model result of run_dump vs implementation; returns None or a reason"""
    if vlib.is_err(mo) or vlib.is_err(io):
        return None if (vlib.is_err(mo) and vlib.is_err(io)) else "error mismatch"
    if mo["confirmed"] != io["confirmed"]:
        return "confirmed sets differ"
    for key in ("raw_counts", "exact"):
        if [r[0] for r in mo[key]] != [r[0] for r in io[key]]:
            return "%s: feature lists differ" % key
        for (f, q), (_, v) in zip(mo[key], io[key]):
            if not close(v, frac(q)):
                return "%s: %s model %s impl %r" % (key, f, frac(q), v)
    mp, ip = mo["part"], io["part"]
    if mp["stats"] != ip["stats"]:
        return "stats differ"
    if [r[0] for r in mp["rows"]] != [r[0] for r in ip["rows"]]:
        return "printed rows: feature lists differ"
    ex = {f: frac(q) for f, q in mo["exact"]}
    for (f, mh), (_, ih) in zip(mp["rows"], ip["rows"]):
        if mh != ih and not (is_tie(ex[f], 100) and printed_ok(ih, ex[f], 100)):
            return "printed %s: model %s impl %s" % (f, mh, ih)
    return None


def part_file_name(sub, label, chrom, suffix):
    """the name merge_file_list gives the part file of one chromosome"""
    return os.path.join(sub, "%s_%s%s_counts.tsv" % (label, chrom, suffix))


def impl_merge_tpm(case, d, label=LABEL, sub=None, keep=False):
    """per-chromosome real counters -> real dump -> real merge_counts -> real convert_counts_to_tpm.
    The chromosomes are handed to merge_counts in the order of case["parts"] (= chr_ids); nothing is sorted here.
    returns dict(names=[part file names, chr_ids order], parts=[impl run_dump results, chr_ids order], merged=part,
    tpm=rows, unassigned=, counts_file=, tpm_file=)"""
    vlib.repo_on_path()
    from src.file_utils import merge_counts
    sub = sub or os.path.join(d, "m%d" % case["id"])
    os.makedirs(sub, exist_ok=True)
    suffix = ".gene" if case["lvl"] == "gene" else ".transcript"
    main = make_counter(sub, label + suffix, case["lvl"], case["s"], [], case["output_zeroes"])
    parts, names = [], []
    for p in case["parts"]:
        r = impl_run_dump(dict(case, complete=p["complete"], events=p["events"]), sub, "%s_%s%s" % (label, p["chr"], suffix))
        if vlib.is_err(r):
            return r
        parts.append(r)
        names.append(part_file_name(sub, label, p["chr"], suffix))
    chr_ids = [p["chr"] for p in case["parts"]]
    try:
        merge_counts(main, label, chr_ids, case["unaligned"])
        rows, stats = parse_counts_file(main.output_counts_file_name)
        usable = main.reads_for_tpm
        main.convert_counts_to_tpm(case["norm"])
        trows, un = parse_tpm_file(main.output_tpm_file_name)
    except IMPL_ERRORS as ex:
        return {"error": "error", "exc": type(ex).__name__}
    left = [fn for fn in os.listdir(sub) if fn.startswith(label + "_")]
    return {"names": names, "parts": parts,
            "merged": {"rows": rows, "stats": [stats.get("__ambiguous"), stats.get("__no_feature"),
                                               stats.get("__not_aligned"), usable]},
            "stats_lines": sorted(stats), "tpm": trows, "unassigned": un, "leftover_part_files": left,
            "counts_file": main.output_counts_file_name, "tpm_file": main.output_tpm_file_name}


class Recorder:
    def __init__(self):
        self.events = []

    def add_read_info_raw(self, read_id, feature_ids, group_id="NA"):
        self.events.append({"k": "raw", "noid": not read_id, "fs": list(feature_ids)})

    def add_unassigned(self, n_reads=1):
        self.events.append({"k": "unassigned", "n": int(n_reads)})

    def add_confirmed_features(self, features):
        self.events.append({"k": "confirm", "fs": list(features)})


def impl_forward_counts(case):
    vlib.repo_on_path()
    from src.graph_based_model_construction import GraphBasedModelConstructor as GB
    rec = Recorder()
    tr = defaultdict(list)
    for m, rs in case["tr"]:
        tr[m] = [SimpleNamespace(read_id=r, read_group="NA") for r in rs]
    cnt = defaultdict(int)
    for r, c in case["cnt"]:
        cnt[r] = c
    me = SimpleNamespace(transcript_read_ids=tr, read_assignment_counts=cnt, transcript_counter=rec,
                         transcript_model_storage=[SimpleNamespace(transcript_id=m) for m in case["models"]])
    try:
        GB.forward_counts(me)
    except IMPL_ERRORS as ex:
        return {"error": "error", "exc": type(ex).__name__}
    return rec.events


# ------------------------------------------------------------------------------------------------
# case generation

def gen_weight_cases():
    cases = []
    ks = list(range(0, 13)) + [40, 200, 201, 1000]
    for s in STRATEGIES:
        for k in ks:
            cases.append(("process_ambiguous", {"s": s, "k": k}))
            cases.append(("gen_process_ambiguous", {"s": s, "k": k}))
            for t in G.TYPES:
                cases.append(("process_inconsistent", {"s": s, "t": t, "k": k}))
                cases.append(("gen_process_inconsistent", {"s": s, "t": t, "k": k}))
    return cases


def gen_run_cases(ctx):
    rng = ctx.rng
    quick = ctx.tier == "quick"
    cases = []
    singles = G.exhaustive_single_records()
    ctx.extra["single_record_universe"] = {"records": len(singles), "strategies": 5, "levels": 2}
    combos = [(s, l) for s in STRATEGIES for l in LEVELS]
    for rec in singles:
        use = combos if not quick else rng.sample(combos, 2)
        for s, lvl in use:
            if not G.hash_order_free(rec, lvl):
                continue
            cases.append({"s": s, "lvl": lvl, "complete": ["T0"] if lvl == "transcript" else ["G0"],
                          "output_zeroes": rng.random() < 0.7, "events": [{"k": "read", "a": rec}], "kind": "single"})
    n_hist = 200 if quick else 3000
    for i in range(n_hist):
        ann = G.Annotation(rng, rng.randint(1, 6))
        lvl = rng.choice(LEVELS)
        mode = "realistic" if rng.random() < 0.6 else "adversarial"
        raw = rng.random() < 0.3
        n = rng.choice([1, 2, 3, 5, 10, 30, 100, 400 if not quick else 120])
        ev = G.history(rng, ann, n, mode=mode, lvl=lvl, raw=raw)
        complete = (ann.all_genes if lvl == "gene" else ann.all_tx) if rng.random() < 0.7 else []
        cases.append({"s": rng.choice(STRATEGIES), "lvl": lvl, "complete": complete,
                      "output_zeroes": rng.random() < 0.6, "events": ev,
                      "kind": mode + ("+raw" if raw else "")})
    return cases


# "chr1" / "Chr1" / "chr01" have EQUAL natural keys (case-folded text, digit runs as numbers): ties of the stable sort
CHR_POOL = ["chr1", "chr2", "chr10", "chrX", "chr1_random", "2", "10", "MT", "scaffold_12", "Chr3", "Chr1", "chr01", "chr9b2"]


def gen_merge_cases(ctx, mode_weights=(0.7, 0.3)):
    rng = ctx.rng
    quick = ctx.tier == "quick"
    cases = []
    # fixed cases first: the Lean witness `tpm_unassigned_negative_witness` (two reads, each ambiguous between three
    # models: 0.67 + 0.67 + 0.67 > 2 usable reads, so the printed __unassigned value is negative) and the tie of the
    # natural key of `merge_counts_order_tie_witness` (chr1 / Chr1 listed in both orders)
    amb3 = [{"k": "raw", "noid": False, "fs": ["T1", "T2", "T3"]}, {"k": "raw", "noid": False, "fs": ["T1", "T2", "T3"]},
            {"k": "confirm", "fs": ["T1", "T2", "T3"]}]
    cases.append({"id": 100000, "s": "with_ambiguous", "lvl": "transcript", "output_zeroes": True, "norm": "usable_reads",
                  "unaligned": 0, "parts": [{"chr": "chr1", "complete": [], "events": amb3}], "kind": "realistic+raw"})
    one = lambda f: [{"k": "raw", "noid": False, "fs": [f]}, {"k": "confirm", "fs": [f]}]
    for j, order in enumerate((["chr1", "Chr1"], ["Chr1", "chr1"])):
        cases.append({"id": 100001 + j, "s": "unique_only", "lvl": "transcript", "output_zeroes": True, "norm": "simple",
                      "unaligned": 0, "parts": [{"chr": c, "complete": [], "events": one(c + ".T")} for c in order],
                      "kind": "realistic+raw"})
    # the Lean witnesses `merge_hash_witness` / `tpm_hash_witness` (Props/C02Merge.lean): a feature id starting with '#'
    # is the first row of its part file; on the second part (chr2: the header test by content dropped the row in the
    # merge) and on the first part (chr1: the row survived the merge and was copied into the TPM file as a header line)
    many = lambda fs: [e for f, n in fs for e in [{"k": "raw", "noid": False, "fs": [f]}] * n] + \
        [{"k": "confirm", "fs": [f for f, _ in fs]}]
    for j, (p1, p2) in enumerate(((([("A1", 3), ("B1", 2)]), [("#G2", 4), ("C2", 1)]),
                                  ([("#count7", 4), ("A1", 3)], [("C2", 1)]))):
        for k, norm in enumerate(("simple", "usable_reads")):
            cases.append({"id": 100003 + 2 * j + k, "s": "unique_only", "lvl": "transcript", "output_zeroes": True, "norm": norm,
                          "unaligned": 0, "kind": "realistic+raw",
                          "parts": [{"chr": "chr1", "complete": [], "events": many(p1)},
                                    {"chr": "chr2", "complete": [], "events": many(p2)}]})
    for i in range(80 if quick else 1000):
        lvl = rng.choice(LEVELS)
        chrs = rng.sample(CHR_POOL, rng.randint(1, 5))     # rng.sample: an arbitrary (unsorted) chr_ids order
        parts = []
        raw = rng.random() < 0.25
        mode = "realistic" if rng.random() < mode_weights[0] else "adversarial"
        for c in chrs:
            ann = G.Annotation(rng, rng.randint(0, 4), chrom=c + ".", weird_ids=rng.random() < 0.3)
            n = rng.choice([0, 1, 3, 10, 40])
            ev = G.history(rng, ann, n, mode=mode, lvl=lvl, raw=raw) if ann.all_tx else \
                [{"k": "read", "a": None} for _ in range(n % 3)]
            complete = (ann.all_genes if lvl == "gene" else ann.all_tx) if not raw else []
            parts.append({"chr": c, "complete": complete, "events": ev})
        cases.append({"id": i, "s": rng.choice(STRATEGIES), "lvl": lvl, "output_zeroes": not raw and rng.random() < 0.8,
                      "norm": rng.choice(["simple", "usable_reads"]), "unaligned": rng.choice([0, 0, 3, 17]),
                      "parts": parts, "kind": mode + ("+raw" if raw else "")})
    return cases


def strip_case(case):
    return {k: v for k, v in case.items() if not k.startswith("_")}


# ------------------------------------------------------------------------------------------------
# correspondence

def correspondence(ctx):
    drv = ctx.driver
    d = vlib.scratch_dir("isoverif_c02_")
    try:
        # 1. weight functions, exhaustively
        L = _lrc()
        from src.isoform_assignment import ReadAssignmentType as T
        wc = gen_weight_cases()
        outs = drv.run([vlib.req("C02." + op, **kw) for op, kw in wc])
        for (op, kw), mo in zip(wc, outs):
            ctx.evaluations += 1
            ctx.count("op:" + op)
            rw = L.ReadWeightCounter(kw["s"])
            try:
                v = rw.process_ambiguous(kw["k"]) if op.endswith("process_ambiguous") else rw.process_inconsistent(T[kw["t"]], kw["k"])
                io = v
            except IMPL_ERRORS as ex:
                io = {"error": "error", "exc": type(ex).__name__}
            ctx.traces_validated += 1
            if isinstance(mo, dict) and "driver_error" in mo:
                ctx.disagree(op, kw, mo, None)
            elif vlib.is_err(mo) or vlib.is_err(io):
                if not (vlib.is_err(mo) and vlib.is_err(io)):
                    ctx.disagree(op, kw, mo, vlib.canon(io))
                else:
                    ctx.count("model_error")
            elif not close(io, frac(mo)):
                ctx.disagree(op, kw, mo, io)
            elif frac(mo) != 0:
                ctx.mark_nontrivial([op, kw])
        # 2. histories on real counters: add_read_info / raw / ... / dump
        rc = gen_run_cases(ctx)
        outs = drv.run([vlib.req("C02.run_dump", **{k: c[k] for k in ("s", "lvl", "complete", "events", "output_zeroes")})
                        for c in rc])
        for i, (c, mo) in enumerate(zip(rc, outs)):
            ctx.evaluations += 1
            ctx.count("op:run_dump:" + c["kind"])
            ctx.count("events", len(c["events"]))
            if isinstance(mo, dict) and "driver_error" in mo:
                ctx.disagree("run_dump", strip_case(c), mo, None)
                continue
            io = impl_run_dump(c, d, "one%d.x" % i)
            io.pop("_counter", None)
            ctx.traces_validated += 1
            why = same_run(mo, io)
            if vlib.is_err(mo):
                ctx.count("model_error")
            if why:
                ctx.disagree("run_dump", strip_case(c), {"why": why, "model": mo}, vlib.canon(io))
            elif not vlib.is_err(mo) and any(r[1] != 0 for r in mo["part"]["rows"]):
                ctx.mark_nontrivial(["run_dump", strip_case(c)])
            if i % 997 == 0:
                ctx.sample({"op": "run_dump", "input": strip_case(c) if len(c["events"]) < 4 else "(%d events)" % len(c["events"]),
                            "model": mo if len(str(mo)) < 600 else "(large)", "impl": vlib.canon(io) if len(str(io)) < 600 else "(large)"})
        # 3. merge_counts + convert_counts_to_tpm on real files
        mc = gen_merge_cases(ctx)
        impl_res = [impl_merge_tpm(c, d) for c in mc]
        #   model: parts from the model's own run_dump (chr_ids order); merged by the model from the REAL part tables
        #   and the REAL part-file names (visiting order = C06 natural order, nothing sorted in the harness);
        #   TPM by the model from the *real* merged file
        lines, idx = [], []
        for c, io in zip(mc, impl_res):
            if vlib.is_err(io):
                continue
            for p in c["parts"]:
                lines.append(vlib.req("C02.run_dump", s=c["s"], lvl=c["lvl"], complete=p["complete"], events=p["events"],
                                      output_zeroes=c["output_zeroes"]))
                idx.append(c["id"])
        outs = drv.run(lines)
        model_parts = defaultdict(list)
        for cid, o in zip(idx, outs):
            model_parts[cid].append(o)
        lines2, lines3, keep = [], [], []
        for c, io in zip(mc, impl_res):
            ctx.evaluations += 1
            ctx.count("op:merge_tpm:" + c["kind"])
            ctx.count("parts:%d" % len(c["parts"]))
            if vlib.is_err(io):
                # the model must also raise in some part
                ctx.count("impl_error_in_part")
                continue
            mps = model_parts[c["id"]]
            bad = None
            for mo, pio in zip(mps, io["parts"]):
                pio.pop("_counter", None)
                why = same_run(mo, pio)
                if why:
                    bad = why
            if bad:
                ctx.disagree("run_dump(part)", strip_case(c), {"why": bad}, None)
                continue
            keep.append((c, io))
            lines2.append(vlib.req("C02.merge_counts_named", parts=[[n, p["part"]] for n, p in zip(io["names"], io["parts"])],
                                   unaligned=c["unaligned"]))
            lines3.append(vlib.req("C02.counts_to_tpm", norm=c["norm"], output_zeroes=c["output_zeroes"],
                                   rows=io["merged"]["rows"], usable=io["merged"]["stats"][3]))
        outs2 = drv.run(lines2)
        outs3 = drv.run(lines3)
        for (c, io), m2, m3 in zip(keep, outs2, outs3):
            ctx.traces_validated += 1
            if isinstance(m2, dict) and "driver_error" in m2:
                ctx.disagree("merge_counts", strip_case(c), m2, None)
                continue
            if m2["merged"] != io["merged"]:
                ctx.disagree("merge_counts", strip_case(c), m2, io["merged"])
                continue
            if m2["order"] != io["names"]:
                ctx.count("merge_order_not_chr_ids_order")
            if len(set(TB.natural_key_text(n) for n in io["names"])) < len(io["names"]):
                ctx.count("merge_order_with_equal_keys")
            if io["stats_lines"] != ["__ambiguous", "__no_feature", "__not_aligned"] or io["leftover_part_files"]:
                ctx.disagree("merge_counts", strip_case(c), "three stats lines, part files removed",
                             [io["stats_lines"], io["leftover_part_files"]])
                continue
            why = same_tpm(m3, io)
            if why:
                ctx.disagree("counts_to_tpm", strip_case(c), {"why": why, "model": m3},
                             {"tpm": [[f, str(v)] for f, v in io["tpm"]], "unassigned": str(io["unassigned"])})
            elif any(r[1] != 0 for r in io["merged"]["rows"]):
                ctx.mark_nontrivial(["merge_tpm", strip_case(c)])
        # 3b. growth: generated combine protocol, combine_counts (pandas), grouped counters through the C09 model
        TB.correspondence(ctx, d)
        # 4. forward_counts
        fc = [G.forward_counts_case(ctx.rng, consistent=ctx.rng.random() < 0.7) for _ in range(300 if ctx.tier == "quick" else 3000)]
        outs = drv.run([vlib.req("C02.forward_counts", **c) for c in fc])
        for c, mo in zip(fc, outs):
            ctx.evaluations += 1
            ctx.count("op:forward_counts")
            io = impl_forward_counts(c)
            ctx.traces_validated += 1
            if mo != io:
                ctx.disagree("forward_counts", c, mo, io)
            elif len(mo) > 2:
                ctx.mark_nontrivial(["forward_counts", c])
    finally:
        shutil.rmtree(d, ignore_errors=True)


def same_tpm(m3, io):
    if isinstance(m3, dict) and "driver_error" in m3:
        return "driver error"
    if [r[0] for r in m3["rows"]] != [r[0] for r in io["tpm"]]:
        return "tpm feature lists differ"
    for (f, q, mil), (_, dv) in zip(m3["rows"], io["tpm"]):
        pq = int(dv * 10 ** 6)
        if pq != mil and abs(Fraction(pq) - frac(q) * 10 ** 6) > Fraction(1, 2) + Fraction(1, 100):
            return "tpm %s: model %s printed %s" % (f, frac(q), dv)
    uq, umil = m3["unassigned"]
    if io["unassigned"] is None:
        return "no __unassigned line"
    pu = int(io["unassigned"] * 10 ** 6)
    if pu != umil and abs(Fraction(pu) - frac(uq) * 10 ** 6) > Fraction(1, 2) + Fraction(1, 100):
        return "unassigned: model %s printed %s" % (frac(uq), io["unassigned"])
    return None


# ------------------------------------------------------------------------------------------------
# oracle: the property itself on the real code, independent of the Lean side

UNIQUE = ("unique", "unique_minor_difference")
INCONS = ("inconsistent", "inconsistent_non_intronic", "inconsistent_ambiguous")
USE_AMB = ("with_ambiguous", "all")


def doc_weight(strategy, typ, k):
    """docs/cmd.md 'Quantification' + the property statement: weight of ONE record that is reported for k features and
    carries assignment type `typ` at the table's level.  `typ` ambiguous with k == 1 only arises for a record of a
    multi-locus tie (class multilocus_tie_weight): the code gives it 1 under every strategy."""
    if k == 0:
        return Fraction(0)
    if typ in UNIQUE:
        return Fraction(1)
    if typ == "ambiguous":
        if k == 1:
            return Fraction(1)
        return Fraction(1, k) if strategy in USE_AMB else Fraction(0)
    if typ == "inconsistent_ambiguous" or (typ in INCONS and k > 1):
        return Fraction(1, k) if strategy == "all" else Fraction(0)
    if typ == "inconsistent":
        return Fraction(1) if strategy in ("unique_inconsistent", "all") else Fraction(0)
    if typ == "inconsistent_non_intronic":
        return Fraction(1) if strategy in ("unique_splicing_consistent", "unique_inconsistent", "all") else Fraction(0)
    return Fraction(0)


def record_view(rec, lvl):
    """(class, type at level, distinct features) of a generated record as the docs describe it"""
    if rec is None:
        return "not_aligned", None, []
    if rec["atype"] in ("noninformative", "intergenic") or not rec["m"] or rec["m"][0][1] is None:
        return "no_feature", None, []
    idx = 0 if lvl == "gene" else 1
    fs = sorted(set(x[idx] for x in rec["m"] if x[idx]))
    return "assigned", (rec["gtype"] if lvl == "gene" else rec["atype"]), fs


def confirms_by_statement(rec, lvl):
    """'a uniquely assigned read whose corrected alignment is spliced' (the statement's sufficient condition)"""
    cls, typ, fs = record_view(rec, lvl)
    return cls == "assigned" and typ in UNIQUE and len(fs) == 1 and rec["nce"] > 1


def recount(events, lvl, strategy):
    """independent recomputation: sums per feature, must-be-nonzero features, stats classes"""
    sums = defaultdict(Fraction)
    must = set()
    st = {"__ambiguous": 0, "__no_feature": 0, "__not_aligned": 0, "__usable": 0}
    for ev in events:
        k = ev["k"]
        if k == "read":
            cls, typ, fs = record_view(ev["a"], lvl)
            if cls == "not_aligned":
                st["__not_aligned"] += 1
            elif cls == "no_feature":
                st["__no_feature"] += 1
            else:
                st["__usable"] += 1
                if typ == "ambiguous":
                    st["__ambiguous"] += 1
                w = doc_weight(strategy, typ, len(fs))
                for f in fs:
                    sums[f] += w
                if confirms_by_statement(ev["a"], lvl):
                    must.add(fs[0])
        elif k == "raw":
            if ev["noid"]:
                st["__not_aligned"] += 1
            elif not ev["fs"]:
                st["__no_feature"] += 1
            else:
                n = len(ev["fs"])
                st["__usable"] += 1
                if n > 1:
                    st["__ambiguous"] += 1
                w = Fraction(1) if n == 1 else (Fraction(1, n) if strategy in USE_AMB else Fraction(0))
                for f in ev["fs"]:
                    sums[f] += w
        elif k == "unassigned":
            st["__no_feature"] += ev["n"]
            st["__usable"] += ev["n"]
        elif k == "unaligned":
            st["__not_aligned"] += ev["n"]
    return sums, must, st


def oracle_merge_case(c, d):
    """run one multi-chromosome case on the real code and evaluate every clause of C02; returns list of (kind, detail)"""
    fails = []
    # clause "no record contributes more than 1": measured on the real counter, record by record
    sub = os.path.join(d, "o%d" % c["id"])
    os.makedirs(sub, exist_ok=True)
    for p in c["parts"]:
        probe = make_counter(sub, "probe.%s" % p["chr"], c["lvl"], c["s"], [], True)
        before = 0.0
        try:
            for i, ev in enumerate(p["events"]):
                apply_event(probe, ev, i)
                tot = sum(v for fc in probe.feature_counter.values() for v in fc.data.values())
                if ev["k"] in ("read", "raw") and tot - before > 1 + 1e-9:
                    fails.append(("record_weight_above_one", "chr %s event %d adds %.6f" % (p["chr"], i, tot - before)))
                if tot - before < -1e-9:
                    fails.append(("negative_weight", "chr %s event %d adds %.6f" % (p["chr"], i, tot - before)))
                before = tot
        except IMPL_ERRORS:
            return fails     # the real code raises on this (malformed) history: no table to judge
    io = impl_merge_tpm(c, d)
    if vlib.is_err(io):
        return fails
    sums, must, st = defaultdict(Fraction), set(), {"__ambiguous": 0, "__no_feature": 0, "__not_aligned": 0, "__usable": 0}
    for p in c["parts"]:
        s1, m1, st1 = recount(p["events"], c["lvl"], c["s"])
        for f, v in s1.items():
            sums[f] += v
        must |= m1
        for k in st:
            st[k] += st1[k]
    table = {}
    for f, h in io["merged"]["rows"]:
        if f in table:
            fails.append(("duplicate_row", f))
        table[f] = h
    for f, h in table.items():
        if h != 0 and not printed_ok(h, sums.get(f, Fraction(0)), 100):
            fails.append(("table_not_sum", "%s printed %s/100, documented sum %s" % (f, h, sums.get(f, 0))))
    for f in must:
        if table.get(f, 0) == 0:
            fails.append(("confirmed_feature_zeroed", "%s has a unique spliced read, printed %s" % (f, table.get(f))))
    for f, v in sums.items():
        if v > 0 and f not in table and c["output_zeroes"]:
            fails.append(("feature_missing", f))
    exp_na = c["unaligned"] if c["unaligned"] > 0 else st["__not_aligned"]
    got = io["merged"]["stats"]
    if got[0] != st["__ambiguous"] or got[1] != st["__no_feature"] or got[2] != exp_na:
        fails.append(("stats_lines", "printed %s expected %s" % (got[:3], [st["__ambiguous"], st["__no_feature"], exp_na])))
    # reads_for_tpm (the denominator of the usable_reads normalisation) = counted records + add_unassigned, over ALL parts
    if got[3] != st["__usable"]:
        fails.append(("stats_lines", "reads_for_tpm %s, usable records of the run %s" % (got[3], st["__usable"])))
    fails += tpm_clauses(io["merged"]["rows"], io["tpm"], io["unassigned"], c["norm"], got[3], c["output_zeroes"])
    return fails


def tpm_clauses(count_rows, tpm_rows, unassigned, norm, usable, output_zeroes):
    """TPM table = count table rescaled to 1e6 (simple), all ratios preserved; usable_reads: count * 1e6 / usable"""
    fails = []
    counts = {f: Fraction(h, 100) for f, h in count_rows}
    tpm = {f: Fraction(v) for f, v in tpm_rows}
    total = sum(counts.values())
    q = Fraction(1, 10 ** 6)
    n = len(counts)
    if output_zeroes and set(counts) != set(tpm):
        fails.append(("tpm_rows", "features differ: %s" % sorted(set(counts) ^ set(tpm))[:5]))
        return fails
    if not output_zeroes and set(tpm) != {f for f, v in counts.items() if v != 0}:
        fails.append(("tpm_rows", "non-zero features differ"))
        return fails
    if norm == "simple" or not usable:
        if total > 0:
            s = sum(tpm.values())
            if abs(s - 10 ** 6) > q * (n / 2 + 1):
                fails.append(("tpm_sum", "sum of TPM = %s" % float(s)))
            for f, v in tpm.items():
                if abs(v - counts[f] * 10 ** 6 / total) > q * Fraction(51, 100):
                    fails.append(("tpm_ratio", "%s: tpm %s, count %s of total %s" % (f, float(v), counts[f], total)))
                    break
        else:
            if any(v != 0 for v in tpm.values()):
                fails.append(("tpm_ratio", "non-zero TPM with all-zero counts"))
    else:
        for f, v in tpm.items():
            if abs(v - counts[f] * 10 ** 6 / usable) > q * Fraction(51, 100):
                fails.append(("tpm_usable", "%s: tpm %s, count %s, usable %s" % (f, float(v), counts[f], usable)))
                break
        # the __unassigned line: 10^6 * (1 - sum of the printed counts / usable) when the table has a feature row
        if unassigned is not None:
            exp = Fraction(10 ** 6) * (1 - total / usable) if counts else Fraction(0)
            if abs(Fraction(unassigned) - exp) > q * Fraction(51, 100):
                fails.append(("tpm_usable", "__unassigned %s, expected 10^6 * (1 - %s / %s) = %s" % (unassigned, total, usable, float(exp))))
    if unassigned is not None and (norm == "simple" or not usable) and Fraction(unassigned) != 0:
        fails.append(("tpm_usable", "__unassigned %s under the simple normalisation" % unassigned))
    return fails


def forward_consistent(case):
    """read_assignment_counts[r] = number of listings of r in transcript_read_ids (what save_assigned_read maintains)"""
    n = defaultdict(int)
    for m, rs in case["tr"]:
        for r in rs:
            n[r] += 1
    cnt = dict((r, c) for r, c in case["cnt"])
    return all(cnt.get(r) == k for r, k in n.items()) and all(c == 0 or r in n for r, c in cnt.items())


def oracle_forward_case(case, strategy, d, tag):
    """the real forward_counts feeding a real transcript-model counter (output_zeroes=False, as the pipeline builds it):
    every model row must be the sum over READS of the documented weight - 1 for a read listed under one model (however
    many alignment records list it), 1/k for a read shared by k DISTINCT models when ambiguous reads are counted, else
    0 - and __ambiguous the number of reads shared by >= 2 models"""
    vlib.repo_on_path()
    from src.graph_based_model_construction import GraphBasedModelConstructor as GB
    fails = []
    c = make_counter(d, "fw%s.transcript_model" % tag, "transcript", strategy, [], False)
    tr = defaultdict(list)
    for m, rs in case["tr"]:
        tr[m] = [SimpleNamespace(read_id=r, read_group="NA") for r in rs]
    cnt = defaultdict(int)
    for r, k in case["cnt"]:
        cnt[r] = k
    me = SimpleNamespace(transcript_read_ids=tr, read_assignment_counts=cnt, transcript_counter=c,
                         transcript_model_storage=[SimpleNamespace(transcript_id=m) for m in case["models"]])
    try:
        GB.forward_counts(me)
        c.dump()
    except IMPL_ERRORS:
        return fails
    rows, _ = parse_counts_file(c.output_counts_file_name)
    _, stats = parse_counts_file(c.output_stats_file_name)
    models_of = defaultdict(list)
    for m, rs in case["tr"]:
        for r in rs:
            if m not in models_of[r]:
                models_of[r].append(m)
    sums = defaultdict(Fraction)
    n_amb = 0
    for r, ms in models_of.items():
        k = len(ms)
        if k > 1:
            n_amb += 1
        w = Fraction(1) if k == 1 else (Fraction(1, k) if strategy in USE_AMB else Fraction(0))
        for m in ms:
            sums[m] += w
    table = dict((f, h) for f, h in rows)
    for m, v in sums.items():
        if m not in case["models"]:
            continue
        if not printed_ok(table.get(m, 0), v, 100):
            fails.append(("dup_read_model_weight" if any(len(rs) != len(set(rs)) for _, rs in case["tr"]) else "table_not_sum",
                          "model %s printed %s/100, sum over its reads %s" % (m, table.get(m, 0), v)))
    if stats.get("__ambiguous") != n_amb:
        fails.append(("dup_read_model_weight" if any(len(rs) != len(set(rs)) for _, rs in case["tr"]) else "stats_lines",
                      "__ambiguous %s, reads shared by >= 2 models %d" % (stats.get("__ambiguous"), n_amb)))
    return fails


# the Lean witness `forward_dup_witness` (Props/C02Forward.lean, audit probe C02_dupread_model.py)
DUP_GENE = {"tr": [["M1", ["r10", "r20", "r20"]], ["M2", ["r11"]]], "cnt": [["r10", 1], ["r20", 2], ["r11", 1]],
            "models": ["M1", "M2"]}


def oracle(ctx, disagreements, broken):
    d = vlib.scratch_dir("isoverif_c02o_")
    n = 0
    try:
        # 0. forward_counts -> real model counter: the disagreeing inputs, the fixed witness, the generator (consistent
        #    counts only: that is the domain the constructor maintains)
        fw = [dis["input"] for dis in disagreements if dis["op"] == "forward_counts" and isinstance(dis["input"], dict)][:40]
        fw.append(DUP_GENE)
        fw += [G.forward_counts_case(ctx.rng, consistent=True) for _ in range(150 if ctx.tier == "quick" else 1500)]
        nfw = 0
        for i, fc in enumerate(fw):
            if not forward_consistent(fc):
                continue
            for strategy in ("unique_only", "with_ambiguous"):
                nfw += 1
                for kind, detail in oracle_forward_case(fc, strategy, d, "%d%s" % (i, strategy[0])):
                    ctx.fail(kind, {"mode": "forward", "case": fc, "strategy": strategy}, detail)
            if len(ctx.failures) > 30:
                break
        ctx.extra["oracle_forward_cases"] = nfw
        # 1. the disagreeing inputs first
        seeds = []
        for dis in disagreements:
            inp = dis["input"]
            if dis["op"] in ("run_dump", "run_dump(part)", "merge_counts", "counts_to_tpm") and isinstance(inp, dict):
                if "parts" in inp:
                    seeds.append(inp)
                elif "events" in inp:
                    seeds.append({"id": 0, "s": inp["s"], "lvl": inp["lvl"], "output_zeroes": inp["output_zeroes"],
                                  "norm": "simple", "unaligned": 0, "kind": "seeded",
                                  "parts": [{"chr": "chr1", "complete": inp["complete"], "events": inp["events"]}]})
            elif dis["op"] in ("process_ambiguous", "process_inconsistent", "gen_process_ambiguous", "gen_process_inconsistent"):
                seeds += weight_row_cases(inp)
        for i, c in enumerate(seeds[:60]):
            c = dict(c, id=10000 + i)
            n += 1
            for kind, detail in oracle_merge_case(c, d):
                ctx.fail(kind, {"mode": "inproc", "case": strip_case(c)}, detail)
        # 2. the normal generator: in the single-locus domain (no re-flagged tie records) + raw histories
        cases = gen_merge_cases(ctx, mode_weights=(1.0, 0.0))
        for c in cases:
            for p in c["parts"]:
                p["events"] = [e for e in p["events"] if not is_tie_record(e, c["lvl"])]
            n += 1
            for kind, detail in oracle_merge_case(dict(c, id=20000 + c["id"]), d):
                ctx.fail(kind, {"mode": "inproc", "case": strip_case(c)}, detail)
                if len(ctx.failures) > 30:
                    break
        # 3. every row of the weight table through a real counter
        for s in STRATEGIES:
            for lvl in LEVELS:
                for c in weight_row_cases({"s": s}, lvl):
                    n += 1
                    for kind, detail in oracle_merge_case(dict(c, id=30000 + n), d):
                        ctx.fail(kind, {"mode": "inproc", "case": strip_case(c)}, detail)
        ctx.extra["oracle_inproc_cases"] = n
        # 3b. growth: merge-order independence, combined_* tables, grouped tables - on the real code, no Lean involved
        TB.oracle(ctx, d, disagreements)
        # 4. the real pipeline on synthetic data
        from props import C02_pipeline as PO
        PO.run(ctx, d, broken)
    finally:
        shutil.rmtree(d, ignore_errors=True)


def is_tie_record(ev, lvl):
    """an `ambiguous`-typed record reported for a single feature: only the multimapper resolver produces it, for a read
    with >= 2 retained alignment records (class multilocus_tie_weight, evaluated by the pipeline oracle)"""
    if ev["k"] != "read" or ev["a"] is None:
        return False
    cls, typ, fs = record_view(ev["a"], lvl)
    return cls == "assigned" and typ in ("ambiguous", "inconsistent_ambiguous") and len(fs) <= 1


def weight_row_cases(inp, lvl=None):
    """small histories that instantiate one strategy row: one record of every assigned type x k in 1..3 (+ a confirming one)"""
    out = []
    s = inp.get("s", "all")
    for lv in ([lvl] if lvl else LEVELS):
        ev = []
        tx = [["G1", "T1"], ["G2", "T2"], ["G3", "T3"]]
        ii = [["T1", 2], ["T2", 2], ["T3", 0]]
        for t in ("unique", "unique_minor_difference", "ambiguous", "inconsistent", "inconsistent_non_intronic",
                  "inconsistent_ambiguous"):
            for k in (1, 2, 3):
                if t in UNIQUE and k > 1:
                    continue
                if t in ("ambiguous", "inconsistent_ambiguous") and k == 1:
                    continue
                ev.append({"k": "read", "a": {"atype": t, "gtype": t, "m": tx[:k], "nce": 3, "ii": ii}})
        for m in tx:
            ev.append({"k": "read", "a": {"atype": "unique", "gtype": "unique", "m": [m], "nce": 2, "ii": ii}})
        out.append({"id": 0, "s": s, "lvl": lv, "output_zeroes": True, "norm": "simple", "unaligned": 0, "kind": "row",
                    "parts": [{"chr": "chr1", "complete": [], "events": ev}]})
    return out


def matches_finding(failure, entry):
    if failure["kind"] != entry.get("kind"):
        return False
    if entry.get("id") == "multilocus_tie_weight":
        return int(failure["input"].get("n_records", 0)) >= 2
    return True


def replay(ctx, failure):
    inp = failure["input"]
    d = vlib.scratch_dir("isoverif_c02r_")
    try:
        if inp.get("mode") == "forward":
            return any(k == failure["kind"] for k, _ in oracle_forward_case(inp["case"], inp["strategy"], d, "r"))
        if inp.get("mode") == "inproc":
            fails = oracle_merge_case(dict(inp["case"], id=1), d)
            return any(k == failure["kind"] for k, _ in fails)
        if inp.get("mode", "").startswith("tables:"):
            return TB.replay(ctx, failure, d)
        from props import C02_pipeline as PO
        return PO.replay(ctx, failure, d)
    finally:
        shutil.rmtree(d, ignore_errors=True)
