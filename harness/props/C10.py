"""C10 — experiments processed in one invocation are independent of each other.

correspondence:
  * in-process, model (driver) vs the real code:
      - set_polya_requirement_strategy, the construction presets (real isoquant.set_model_construction_options);
      - the per-sample flag derivation: the real DatasetProcessor.process_sample (its heavy steps stubbed) over
        histories of samples, after the real isoquant.set_additional_params on a parsed command line (so the
        `read_group` auto-selection from *all* experiments is the real one);
      - the gates of GraphBasedModelConstructor that read the class-level set and the flags: the real
        construct_fl_isoforms / construct_assignment_based_isoforms (-> construct_monoexon_isoforms,
        construct_nonfl_isoforms) on a constructor object with fake gene / path data, over histories of genes;
      - combine_table (pandas) on generated per-experiment tables;
  * pipeline traces: the real pipeline runs under harness/c10_wrap.py (monkeypatches only) which records the
    long-lived state around every process_sample call and around every chromosome task; the model is fed the
    per-sample data read off *stand-alone* traces and must predict states and outputs of the joint runs.
oracle: the property itself on the real pipeline: list / YAML invocations with 2-4 experiments (same data twice,
  different data, with / without polyA tails, with unmapped reads, several files) in all orders x threads vs
  stand-alone runs, every per-experiment file byte-identical modulo the command-line / version header lines;
  combined_* tables column by column.  Plus the in-process flag property (flags of a sample in a history = alone).
"""
import itertools
import json
import logging
import os
import shutil
import tempfile
from collections import OrderedDict, defaultdict
from functools import cmp_to_key
from types import SimpleNamespace

import vlib
from gen import multirun as M

ID = "C10"
PROPS = ["IsoVerif/Props/C10.lean", "IsoVerif/Props/C10Names.lean", "IsoVerif/Props/C10Folders.lean"]
TARGETS = ["IsoVerif.Props.C10", "IsoVerif.Props.C10Names", "IsoVerif.Props.C10Folders"]
GEN_DEPS = ["SharedState", "SampleState", "SampleNames", "SampleNamePolicy", "Strategies"]
LEVEL = "proof"
RULE = ("in-process: exhaustive strategy table; all presets; seeded histories of 1-5 samples x 8 presets x 3 polyA "
        "strategies x 3 read-group options; seeded histories of 1-4 fake genes (<=4 FL paths, <=3 mono, <=3 non-FL "
        "candidates over a pool of 5 isoform names, flags and initial set random); seeded tables of <=12 features x "
        "<=4 experiments.  pipeline: synthetic worlds (2-3 chromosomes, two-isoform genes on both strands, an "
        "annotated mono-exon gene and an un-annotated 2-exon locus per chromosome) x 2-4 experiments x all orders "
        "x threads {1,2}.  A case is non-trivial when model == implementation and the value is not the "
        "empty/default one (some transcript reported, some flag set, some cell filled)")
TRUSTED = ["Gen/SharedState.lean + Gen/SampleState.lean: AST inventory of class-level state, DatasetProcessor fields, "
           "args assignments, reset sites (harness/translate.py); cross-checked by the trace correspondence",
           "Gen/SampleNames.lean: the test before the positional renaming of a duplicate experiment name, read off the AST of "
           "both description parsers (exact statement shapes, TranslationError otherwise); cross-checked by the parser "
           "correspondence on descriptions with colliding names",
           "Gen/SampleNamePolicy.lean: str() of the YAML name, blank name -> positional, check_experiment_name before every "
           "SampleData, one BAM file per list line - four exact AST shapes (TranslationError otherwise); cross-checked by the "
           "parser correspondence on non-string / path-like names and multi-file lines",
           "what a path means (Model/SampleFolders.lean resolveL: '' and '.' skipped, '..' steps back, no symbolic links inside "
           "the output folder) - compared with os.path.normpath on generated absolute paths; Python's str() of a YAML scalar "
           "that is neither str, int nor bool is taken as given",
           "harness/c10_wrap.py (monkeypatch tracer, nothing inside /repo)",
           "the heuristics of a sample (assignment, intron graph, filters) are data of the model: their independence "
           "of process state is watched by the pipeline oracle, not proved"]
ASSUMPTIONS = ["polya_fraction >= threshold is compared as 1000*polya >= permille*total (equal below 10^12 reads)",
               "fork semantics of ProcessPoolExecutor workers: class-level state is copied at pool creation and "
               "never returns to the parent; pool.map returns results in submission order",
               "combined tables are compared as maps feature -> numeric cells (pandas re-formats 3.00 as 3.0 and "
               "orders rows itself); feature ids are arbitrary strings (numeric-looking and NA-like ones included)",
               "experiments of one invocation share reference and annotation; their names need NOT be distinct, explicit, strings "
               "or folder names: the parser makes them distinct strings that are entries of the output folder or exits "
               "(Props/C10Names.lean, Props/C10Folders.lean); the per-entry theorems of Props/C10.lean keep the hypothesis of "
               "explicit distinct names"]

WRAP = os.path.join(vlib.HERE, "c10_wrap.py")
YAML_NULL = {"yaml": "null"}      # `name:` with a blank value (safe_load gives None), as opposed to an absent key (None in the payload)
PRESETS = ["reliable", "default_pacbio", "sensitive_pacbio", "default_ont", "sensitive_ont", "fl_pacbio", "all", "assembly"]
POLYA = ["auto", "never", "always"]
KF_KIND = "read_group_auto_from_other_experiment"


# ------------------------------------------------------------------------------------------------
# real code, in-process

_quiet_done = False


def _quiet():
    global _quiet_done
    if not _quiet_done:
        lg = logging.getLogger("IsoQuant")
        lg.addHandler(logging.NullHandler())
        lg.propagate = False
        lg.setLevel(logging.CRITICAL + 1)
        _quiet_done = True


def _mods():
    vlib.repo_on_path()
    import warnings
    with warnings.catch_warnings():
        warnings.simplefilter("ignore")
        import isoquant
        import src.dataset_processor as DP
        import src.graph_based_model_construction as GB
    _quiet()
    return isoquant, DP, GB


def impl_polya_strategy(flag, strategy):
    _, DP, _ = _mods()
    return bool(DP.set_polya_requirement_strategy(flag, DP.PolyAUsageStrategies[strategy]))


def _real_args(scratch, preset, polya, read_group, files_per_sample):
    """command line -> args through the real parser and the real set_additional_params"""
    isoquant, DP, _ = _mods()
    from src.input_data_storage import InputDataStorage
    cmd = ["--output", os.path.join(scratch, "out"), "--bam", "x.bam", "--data_type", "nanopore",
           "--model_construction_strategy", preset, "--polya_requirement", polya]
    if read_group:
        cmd += ["--read_group", read_group]
    old_home = os.environ.get("HOME")
    os.environ["HOME"] = scratch
    try:
        args, _ = isoquant.parse_args(cmd)
        ids = object.__new__(InputDataStorage)
        ids.samples = [SimpleNamespace(file_list=[["f%d" % k] for k in range(n)]) for n in files_per_sample]
        args.input_data = ids
        isoquant.set_additional_params(args)
    finally:
        if old_home is not None:
            os.environ["HOME"] = old_home
    args.genedb = None
    args.needs_reference = False
    args.keep_tmp = True
    return args


def impl_preset_config(preset, scratch):
    a = _real_args(scratch, preset, "auto", None, [1])
    return {"mono_intronic": bool(a.require_monointronic_polya), "mono_exonic": bool(a.require_monoexonic_polya),
            "min_known": int(a.min_known_count), "min_novel": int(a.min_novel_count), "fl_only": bool(a.fl_only)}


def impl_flag_history(scratch, preset, polya, read_group, samples):
    """the real process_sample (collect / load / construct stubbed) over a history of samples
    -> per sample {flags, grouped_tables}"""
    _, DP, _ = _mods()
    args = _real_args(scratch, preset, polya, read_group, [s["files"] for s in samples])
    proc = DP.DatasetProcessor(args)
    cur = {}
    seen = []
    proc.collect_reads = lambda sample: None
    proc.get_chr_list = lambda: []          # no reference in this stand-in (process_sample hands the list to prepare_read_groups since /repo fa8aeb9)
    proc.load_read_info = lambda f: (cur["total"], cur["polya"], set())

    def record(sample, f):
        seen.append({"flags": {"requires_polya": bool(args.requires_polya_for_construction),
                               "mono_intronic": bool(args.require_monointronic_polya),
                               "mono_exonic": bool(args.require_monoexonic_polya),
                               "tech_replicas": bool(args.use_technical_replicas)},
                     "grouped_tables": bool(args.read_group)})
    proc.process_assigned_reads = record
    aux = os.path.join(scratch, "aux")
    os.makedirs(aux, exist_ok=True)
    for i, s in enumerate(samples):
        cur.update(total=s["total"], polya=s["polya"])
        smp = SimpleNamespace(prefix=s["name"], file_list=[["f%d" % k] for k in range(s["files"])],
                              read_group_file=os.path.join(aux, "rg%d" % i), out_raw_file=os.path.join(aux, "save%d" % i))
        proc.process_sample(smp)
    return seen


def _model_sample(s):
    return {"name": s["name"], "files": s["files"], "unaligned": s.get("unaligned", 0), "total": s["total"],
            "polya": s["polya"], "groups": s.get("groups", []), "duplicates": s.get("duplicates", 0),
            "chroms": s.get("chroms", [])}


# --- gates of GraphBasedModelConstructor on fake gene data

def _vertex_consts():
    from src.intron_graph import VERTEX_polya, VERTEX_polyt, VERTEX_read_end, VERTEX_read_start
    return VERTEX_polya, VERTEX_polyt, VERTEX_read_end, VERTEX_read_start


def _fl_layout(gene):
    """assign a distinct path to every FL candidate; returns [(path, cand)] in the order the code visits them"""
    from src.common import cmp
    VA, VT, VE, VS = _vertex_consts()
    items = []
    for i, c in enumerate(gene["fl"]):
        base = 10000 * (i + 1)
        introns = [(base + 100, base + 200)] if c["two_exons"] else [(base + 100, base + 200), (base + 400, base + 500)]
        use_t = c["polya_site"] and c.get("_polyt", False)
        use_a = c["polya_site"] and not use_t
        start = (VT if use_t else VS, base)
        end = (VA if use_a else VE, base + 900)
        items.append((tuple([start] + introns + [end]), c))
    items.sort(key=cmp_to_key(lambda x, y: cmp(x[0], y[0]) if len(x[0]) == len(y[0]) else cmp(len(y[0]), len(x[0]))))
    return items


def order_fl(gene):
    """model input: FL candidates in visiting order"""
    g = dict(gene)
    g["fl"] = [c for _, c in _fl_layout(gene)]
    return g


def impl_gene_steps(cfgd, flags, detected, genes, canonical="only_canonical"):
    """the real gates over a history of gene clusters, sharing the real class-level set"""
    _, DP, GB = _mods()
    from src.isoform_assignment import ReadAssignmentType, MatchEventSubtype
    from src.id_policy import SimpleIDDistributor
    cls = GB.GraphBasedModelConstructor
    saved = cls.detected_known_isoforms
    cls.detected_known_isoforms = set(detected)
    apa = 50
    params = SimpleNamespace(min_known_count=cfgd["min_known"], min_novel_count=cfgd["min_novel"], fl_only=cfgd["fl_only"],
                             require_monointronic_polya=flags["mono_intronic"], require_monoexonic_polya=flags["mono_exonic"],
                             requires_polya_for_construction=flags["requires_polya"],
                             use_technical_replicas=flags["tech_replicas"],
                             report_canonical_strategy=GB.StrandnessReportingLevel[canonical],
                             simple_alignments_mapq_cutoff=30, apa_delta=apa, min_mono_exon_coverage=0.75,
                             report_novel_unspliced=False)
    reported = []
    try:
        for gene in genes:
            gi = SimpleNamespace(chr_id="chrT", gene_strands={"G": "+"}, all_isoforms_exons={}, all_isoforms_introns={},
                                 isoform_strands={}, gene_id_map=defaultdict(lambda: "G"), sources=defaultdict(lambda: "syn"),
                                 other_features=defaultdict(list), empty=lambda: False)
            c = object.__new__(cls)
            c.params = params
            c.gene_info = gi
            c.id_distributor = SimpleIDDistributor()
            c.transcript_model_storage = []
            c.transcript_read_ids = defaultdict(list)
            c.internal_counter = defaultdict(int)
            c.read_assignment_counts = defaultdict(int)
            c.known_introns = set()
            c.known_isoforms_in_graph = {}
            c.known_isoforms_in_graph_ids = {}
            c.select_reference_gene = lambda introns, rng, strand: "G"
            # --- FL paths
            layout = _fl_layout(gene)
            by_introns, by_exons, labels = {}, {}, {}
            paths, p2r = {}, {}
            from src.common import get_exons
            for path, cand in layout:
                introns = tuple(path[1:-1])
                by_introns[introns] = cand
                ex = tuple(get_exons((path[0][1], path[-1][1]), list(introns)))
                by_exons[ex] = cand
                labels[ex] = cand["label"]
                paths[path] = cand["count"]
                p2r[path] = [SimpleNamespace(read_id="fl_%s_%d" % (cand["label"], k), read_group="grp%d" % (k % max(1, cand["groups"])))
                             for k in range(cand["count"])]
                if cand["ref"] is None and cand["known_chain"]:
                    c.known_isoforms_in_graph[introns] = "K_" + cand["label"]
                if cand["ref"] is not None:
                    for tbl, v in ((gi.all_isoforms_exons, list(ex)), (gi.all_isoforms_introns, list(introns)), (gi.isoform_strands, "+")):
                        tbl.setdefault(cand["ref"], v)
            c.path_storage = SimpleNamespace(fl_paths=set(paths), paths=paths, paths_to_reads=p2r)
            c.profile_constructor = SimpleNamespace(construct_profiles=lambda exons, polya, cage: tuple(exons))

            def assign(tid, profile):
                cand = by_exons[profile]
                if cand["ref"] is not None:
                    return SimpleNamespace(assignment_type=ReadAssignmentType.unique,
                                           isoform_matches=[SimpleNamespace(assigned_transcript=cand["ref"])])
                return SimpleNamespace(assignment_type=ReadAssignmentType.inconsistent, isoform_matches=[])
            c.assigner = SimpleNamespace(assign_to_isoform=assign)
            c.strand_detector = SimpleNamespace(
                get_strand=lambda ip, a, t: by_introns[tuple(ip)].get("_tstrand", "+"),
                get_clean_strand=lambda ip: "+" if by_introns[tuple(ip)]["clean_stranded"] else ".")
            # --- reads uniquely assigned to known isoforms
            storage = []

            def read(rid, iso, exons, events):
                return SimpleNamespace(read_id=rid, corrected_exons=exons, multimapper=False, mapping_quality=60,
                                       polyA_found=False, assignment_type=ReadAssignmentType.unique,
                                       isoform_matches=[SimpleNamespace(assigned_transcript=iso,
                                                                        match_subclassifications=[SimpleNamespace(event_type=e) for e in events])])
            for mc in gene["mono"]:
                iso = mc["iso"]
                gi.all_isoforms_exons[iso] = [(100, 199)]
                gi.all_isoforms_introns[iso] = []
                gi.isoform_strands[iso] = "+"
                span = mc.get("_cov_len", 100 if mc["coverage_ok"] else 50)
                for k in range(mc["count"]):
                    ev = [MatchEventSubtype.mono_exon_match]
                    if k < mc["polya_support"]:
                        ev.append(MatchEventSubtype.correct_polya_site_right)
                    storage.append(read("mono_%s_%d" % (iso, k), iso, [(100, 100 + span - 1)], ev))
            for nc in gene["nonfl"]:
                iso = nc["iso"]
                gi.all_isoforms_exons[iso] = [(100, 300), (400, 500), (600, 800)]
                gi.all_isoforms_introns[iso] = [(301, 399), (501, 599)]
                gi.isoform_strands[iso] = "-" if nc["minus"] else "+"
                if nc["in_graph"]:
                    c.known_isoforms_in_graph_ids[iso] = ((301, 399), (501, 599))
                for k in range(nc["count"]):
                    ev = [MatchEventSubtype.fsm]
                    if k < nc["left_polya"]:
                        ev.append(MatchEventSubtype.correct_polya_site_left)
                    if k < nc["right_polya"]:
                        ev.append(MatchEventSubtype.correct_polya_site_right)
                    st = 100 if k < nc["left_pos"] else 100 + apa + 30
                    en = 800 if k < nc["right_pos"] else 800 - apa - 30
                    storage.append(read("nonfl_%s_%d" % (iso, k), iso, [(st, 300), (400, 500), (600, en)], ev))
            c.construct_fl_isoforms()
            c.construct_assignment_based_isoforms(storage)
            out = []
            for m in c.transcript_model_storage:
                out.append(labels.get(tuple(m.exon_blocks), m.transcript_id) if m.transcript_type != GB.TranscriptModelType.known
                           else m.transcript_id)
            reported.append(out)
        return {"reported": reported, "detected": sorted(cls.detected_known_isoforms)}
    finally:
        cls.detected_known_isoforms = saved


# --- ReadAssignmentLoader.get_next: resolver entries looked up by assignment id

VERDICTS = ["suspended", "unique", "ambiguous", "inconsistent"]


class _FakeUnpickler:
    def __init__(self, gene, reads):
        self.objs = [("g", gene)] + [("r", r) for r in reads]
        self.i = 0
        # as NormalTmpFileAssignmentLoader without a reference: ReadAssignmentLoader.get_next reads it (fix f48e223)
        self.chr_record = None

    def has_next(self):
        return self.i < len(self.objs)

    def is_gene_info(self):
        return self.has_next() and self.objs[self.i][0] == "g"

    def is_read_assignment(self):
        return self.has_next() and self.objs[self.i][0] == "r"

    def get_object(self):
        o = self.objs[self.i][1]
        self.i += 1
        return o


def impl_load_chr(chr_id, base, recs, foreign):
    """the real ReadAssignmentLoader.get_next on records numbered base, base+1, ...; the resolver dictionary is
    built the way construct_models_in_parallel builds it (entries with a.chr_id == chr_id, by read id)"""
    _, DP, _ = _mods()
    from src.isoform_assignment import ReadAssignmentType as T
    entries = [dict(e) for e in foreign] + [{"read_id": r["read_id"], "id": base + i, "chr": chr_id, "verdict": r["verdict"]}
                                            for i, r in enumerate(recs) if r["multi"]]
    d = defaultdict(list)
    for e in entries:
        if e["chr"] == chr_id:
            d[e["read_id"]].append(SimpleNamespace(read_id=e["read_id"], assignment_id=e["id"], chr_id=e["chr"], gene_id="g",
                                                   assignment_type=T[VERDICTS[e["verdict"]]], gene_assignment_type=T[VERDICTS[e["verdict"]]],
                                                   multimapper=True))
    reads = [SimpleNamespace(read_id=r["read_id"], assignment_id=base + i, chr_id=chr_id, assignment_type=T.noninformative,
                             gene_assignment_type=T.noninformative, multimapper=False, _idx=i) for i, r in enumerate(recs)]
    ld = object.__new__(DP.ReadAssignmentLoader)
    ld.unpickler = _FakeUnpickler("gene", reads)
    ld.multimapped_chr_dict = d
    _, storage = ld.get_next()
    kept = {r._idx: r.assignment_type.name for r in storage}
    return [kept.get(i, "dropped") for i in range(len(recs))]


def model_load_view(mo):
    """model results in the vocabulary of impl_load_chr"""
    out = []
    for x in mo:
        if x == "untouched":
            out.append("noninformative")
        elif x == "incomplete" or x == 0:
            out.append("dropped")
        else:
            out.append(VERDICTS[x])
    return out


def gen_load_cases(ctx):
    rng = ctx.rng
    cases = []
    for _ in range(200 if ctx.tier == "quick" else 2000):
        ids = ["r%d" % i for i in range(rng.randint(1, 3))]
        multi = {r: rng.random() < 0.6 for r in ids}
        recs = []
        for _ in range(rng.randint(0, 6)):
            r = rng.choice(ids)
            recs.append({"read_id": r, "multi": multi[r] if rng.random() < 0.9 else not multi[r], "verdict": rng.randint(0, 3)})
        base = rng.choice([0, 1, 5, 1000, rng.randint(0, 10 ** 6)])
        foreign = [{"read_id": rng.choice(ids), "id": base + rng.randint(0, 6), "chr": rng.choice(["chrB", "chrC"]), "verdict": rng.randint(0, 3)}
                   for _ in range(rng.randint(0, 3))]
        cases.append({"chr": "chrA", "base": base, "recs": recs, "foreign": foreign})
    return cases


# --- InputDataStorage: the real parsers on written YAML / list files

def _stem(path):
    return os.path.splitext(os.path.basename(path))[0]


def yaml_doc(entries):
    doc = [{"data format": "bam"}]
    for e in entries:
        d = {}
        if e["name"] is not None:
            d["name"] = None if e["name"] == YAML_NULL else e["name"]       # YAML_NULL: the key is there, its value is blank
        if e["files"] is not None:
            d["long read files"] = [f[0] for f in e["files"]]
        if e["labels"] is not None:
            d["labels"] = list(e["labels"])
        if e["illumina"] is not None:
            d["illumina bam"] = list(e["illumina"])
        doc.append(d)
    return doc


def list_text(lines):
    out = []
    for l in lines:
        if "header" in l:
            out.append(("#" + l["header"]) if l["header"] else "")
        else:
            out.append(" ".join(f[0] for f in l["files"]) + ((":" + l["label"]) if l["label"] is not None else ""))
    return "\n".join(out) + "\n"


OUT_SHAPES = ["/vol/out", "/vol/out/", "/vol/./runs/../out", "rel/out", "/"]


def impl_parse(scratch, kind, prefix, payload, output="/vol/out"):
    """the real InputDataStorage on a description file -> parsed samples (as the model prints them), {"error": "exit"} for a
    clean refusal (SystemExit) or {"traceback": <exception>} when the parser dies with an exception (NOT an error value: a
    description that kills the invocation with a TypeError is not "refused")"""
    vlib.repo_on_path()
    import contextlib
    import io
    import yaml
    from src.input_data_storage import InputDataStorage
    _quiet()
    d = tempfile.mkdtemp(dir=scratch)
    path = os.path.join(d, "desc." + ("yaml" if kind == "yaml" else "txt"))
    with open(path, "w") as f:
        if kind == "yaml":
            yaml.safe_dump(yaml_doc(payload), f)
        else:
            f.write(list_text(payload))
    args = SimpleNamespace(fastq=None, bam=None, fastq_list=path if kind == "fqlist" else None,
                           bam_list=path if kind == "list" else None,
                           read_assignments=None, yaml=path if kind == "yaml" else None, prefix=prefix, labels=None,
                           output=output, illumina_bam=None)
    try:
        with contextlib.redirect_stdout(io.StringIO()):
            ids = InputDataStorage(args)
    except SystemExit:
        return {"error": "exit"}
    except Exception as ex:
        return {"traceback": type(ex).__name__}
    return [{"name": smp.prefix, "libs": [list(lib) for lib in smp.file_list],
             "readable": [[k, v] for k, v in smp.readable_names_dict.items()],
             "illumina": None if smp.illumina_bam is None else list(smp.illumina_bam),
             "out_dir": smp.out_dir, "assigned_tsv": smp.out_assigned_tsv} for smp in ids.samples]


def model_name(n):
    """a YAML `name` value as the model reads it"""
    if n is None:
        return {"kind": "absent"}
    if n == YAML_NULL:
        return {"kind": "null"}
    if isinstance(n, bool):
        return {"kind": "bool", "value": n}
    if isinstance(n, int):
        return {"kind": "int", "value": n}
    if isinstance(n, str):
        return {"kind": "str", "value": n}
    return {"kind": "other", "value": str(n)}          # floats, dates, lists: Python's str() is taken as given


def describe_req(kind, prefix, payload, output="/vol/out"):
    if kind == "yaml":
        return vlib.req("C10.describe_yaml", prefix=prefix, output=output,
                        entries=[dict(e, name=model_name(e["name"])) for e in payload])
    return vlib.req("C10.describe_list", prefix=prefix, output=output, bam=(kind == "list"), lines=payload)


def gen_yaml_entry(rng, name, pool):
    k = rng.choice([0, 1, 1, 1, 2, 3])
    files = rng.sample(pool, k)
    if files and rng.random() < 0.05:
        files.append(files[0])                     # file used twice: exit
    e = {"name": name, "files": [[f, _stem(f)] for f in files], "labels": None, "illumina": None}
    if rng.random() < 0.05:
        e["files"] = None                          # key absent: exit
    if e["files"] is not None and rng.random() < 0.4:
        n = len(e["files"]) if rng.random() < 0.9 else len(e["files"]) + 1
        e["labels"] = ["lab%d_%s" % (i, name or "x") for i in range(n)]
    if rng.random() < 0.5:
        e["illumina"] = ["/data/short_%s_%d.bam" % (name or "x", i) for i in range(rng.randint(1, 2))]
    return e


def gen_parse_cases(ctx):
    """YAML / list descriptions: 1-4 experiments with / without the optional keys, all orders of each drawn set;
    mostly explicit distinct names (the domain of the theorem), plus missing / duplicate names"""
    rng = ctx.rng
    pool = ["/data/run%d/reads_%d.bam" % (i % 3, i) for i in range(8)]
    cases = []
    # the shape of the seeded change first: short reads in the first entry only, and the reverse
    a = {"name": "E1", "files": [[pool[0], _stem(pool[0])]], "labels": None, "illumina": ["/data/short.bam"]}
    b = {"name": "E2", "files": [[pool[1], _stem(pool[1])]], "labels": None, "illumina": None}
    cases += [("yaml", "X", [a, b]), ("yaml", "X", [b, a])]
    for _ in range(25 if ctx.tier == "quick" else 250):
        k = rng.randint(1, 4)
        names = ["E%d" % i for i in range(k)]
        mode = rng.random()
        if mode < 0.15:
            names[rng.randrange(k)] = None
        elif mode < 0.3 and k > 1:
            names[1] = names[0]
        elif mode < 0.35:
            names[-1] = "X%d" % (k - 1)
        entries = [gen_yaml_entry(rng, n, pool) for n in names]
        perms = list(itertools.permutations(entries))
        if len(perms) > 6:
            perms = rng.sample(perms, 6)
        for p in perms:
            cases.append(("yaml", "X", list(p)))
    pool_bam, pool_fq = pool, ["/data/run%d/reads_%d.fastq" % (i % 3, i) for i in range(8)]
    for _ in range(60 if ctx.tier == "quick" else 600):
        lines = []
        # --bam_list (one BAM file per line is the documented format; a line with two is in the malformed stream) and
        # --fastq_list (a line is a library, it may hold several files)
        lkind = "list" if rng.random() < 0.6 else "fqlist"
        pool = pool_bam if lkind == "list" else pool_fq
        multi = [1, 1, 2] if lkind == "fqlist" or rng.random() < 0.25 else [1]
        if rng.random() < 0.85:
            lines.append({"header": "S0"})
        for i in range(rng.randint(1, 4)):
            for _ in range(rng.choice([0, 1, 1, 2])):
                fs = rng.sample(pool, rng.choice(multi))
                lines.append({"files": [[f, _stem(f)] for f in fs], "label": rng.choice([None, None, "lab%d" % i])})
            r = rng.random()
            lines.append({"header": "" if r < 0.15 else ("S0" if r < 0.25 else ("X%d" % (i + 1) if r < 0.3 else "S%d" % (i + 1)))})
        if rng.random() < 0.7:
            fs = rng.sample(pool, 1)
            lines.append({"files": [[f, _stem(f)] for f in fs], "label": None})
        cases.append((lkind, "X", lines))
    return cases


def is_tb(x):
    return isinstance(x, dict) and "traceback" in x


def parse_property(kind, prefix, payload):
    """in-process, real parser: with explicit distinct names, every experiment of the joint description is parsed
    exactly as from the description that holds this experiment only"""
    scratch = tempfile.mkdtemp(prefix="isoverif_c10pp_")
    try:
        if kind == "yaml":
            blocks = [[e] for e in payload]
            names = [e["name"] for e in payload]
        else:
            blocks, names = [], []
            for l in payload:
                if "header" in l:
                    blocks.append([l])
                    names.append(l["header"])
                elif blocks:
                    blocks[-1].append(l)
                else:
                    return None                  # files before the first header: named by the prefix (outside the domain)
        if any(not isinstance(n, str) or not n for n in names) or len(set(names)) != len(names):
            return None                          # reading rule (c): explicit, pairwise distinct names (strings)
        joint = impl_parse(scratch, kind, prefix, payload)
        alone = [impl_parse(scratch, kind, prefix, b) for b in blocks]
        if is_tb(joint) or any(is_tb(a) for a in alone):
            return "the parser dies with an exception: joint description %s, stand-alone descriptions %s" % (joint, alone)
        if vlib.is_err(joint) or any(vlib.is_err(a) for a in alone):
            if vlib.is_err(joint) != any(vlib.is_err(a) for a in alone):
                return "joint description %s, stand-alone descriptions %s" % (joint, alone)
            return None
        flat = [smp for a in alone for smp in a]
        if joint != flat:
            for x, y in zip(joint, flat):
                if x != y:
                    return "experiment %s: in the joint description %s, alone %s" % (x["name"], x, y)
            return "joint %d experiments, alone %d" % (len(joint), len(flat))
        return None
    finally:
        shutil.rmtree(scratch, ignore_errors=True)


# --- experiment names (audit finding G4): duplicate / missing names are renamed to <prefix><position>

# Names are whatever a description can say (the statement quantifies over "several experiments from one YAML or list file",
# not over well-chosen names): strings, YAML scalars that are not strings (`name: 7`, `name: true`, `name: 1.5`), a key with a
# blank value (`name:` -> None), the empty string, names that are paths (`./D`, `D/`, `d/E`, `/abs/E`, `.`, `..`).
NAME_POOL = ["D", "D", "E", None, None, "X0", "X1", "X2", "X3", "X4"]
ODD_NAMES = [7, 7, "7", True, 1.5, YAML_NULL, "", "./D", "D/", "d/E", "/abs/E", ".", "..", "E/../D", " D", "2"]
LIST_ODD_NAMES = ["./D", "D/", "d/E", "/abs/E", ".", "..", "E/../D", " D", "7", "2"]     # a header line is always a string


def _named_yaml(names, pool, empty=()):
    return [{"name": n, "files": [] if i in empty else [[pool[i % len(pool)], _stem(pool[i % len(pool)])]], "labels": None,
             "illumina": None} for i, n in enumerate(names)]


def _named_list(names, pool, empty=(), lead=False):
    lines = [{"files": [[pool[-1], _stem(pool[-1])]], "label": None}] if lead else []
    for i, n in enumerate(names):
        lines.append({"header": n or ""})
        if i not in empty:
            lines.append({"files": [[pool[i % len(pool)], _stem(pool[i % len(pool)])]], "label": None})
    return lines


def gen_name_cases(ctx):
    """descriptions OUTSIDE reading rule (c): duplicate and missing names, drawn so that the positional name
    <prefix><position> a duplicate is renamed to is often an explicit name or an earlier generated one (prefix X);
    names that are not strings or not folder names (audit-2 GAP C10-1).  -> (kind, prefix, payload, output folder)"""
    rng = ctx.rng
    pool = ["/data/run%d/reads_%d.bam" % (i % 3, i) for i in range(8)]
    fixed = [["X2", "D", "D"], ["D", "X2", "D"], ["X3", "D", "D", "D"], ["D", "D", "X1"], [None, "X0"], ["X1", None],
             ["D", "D"], ["D", "D", "D"], [None, None, "X0", "X1"], ["X2", "D", None], ["X", "X", "X1"]]
    odd_yaml = [["D", "./D"], ["D/", "D"], [7, "E"], ["E", 7], [7, "7"], [7, 7, "X1"], [YAML_NULL, "E"], ["E", YAML_NULL], ["", "E"],
                ["E", ""], [True, "E"], [1.5, 2], ["d/E", "E"], [".", "E"], ["..", "E"], ["/abs/E", "E"], ["E/../D", "D"],
                [YAML_NULL, "X0"], ["", "", "X1"], [7], ["./D"], ["D"], [" D", "D"]]
    odd_list = [["D", "./D"], ["D/", "D"], ["d/E", "E"], [".", "E"], ["..", "E"], ["/abs/E", "E"], ["E/../D", "D"], ["./D"], [" D", "D"]]
    cases = []
    for names in fixed:
        cases.append(("yaml", "X", _named_yaml(names, pool), "/vol/out"))
        cases.append(("list", "X", _named_list(names, pool), "/vol/out"))
    for names in odd_yaml:
        cases.append(("yaml", "X", _named_yaml(names, pool), "/vol/out"))
    for names in odd_list:
        cases.append(("list", "X", _named_list(names, pool), "/vol/out"))
    cases.append(("yaml", "X", _named_yaml(["X2", "D", "D", "D"], pool, empty=(2,)), "/vol/out"))      # the renamed duplicate has no files
    cases.append(("yaml", "X", _named_yaml(["./D", "D"], pool, empty=(0,)), "/vol/out"))               # the path-like name has no files
    cases.append(("list", "X", _named_list(["X2", "D", "D"], pool, lead=True), "/vol/out"))            # files before the first header
    cases.append(("list", "X", _named_list(["X", "X3", "D", "D"], pool, lead=True), "/vol/out"))
    cases.append(("list", "./X", _named_list(["D"], pool, lead=True), "/vol/out"))                     # the prefix itself is a path
    cases.append(("yaml", "d/X", _named_yaml(["D", "D"], pool), "/vol/out"))                           # ... and so is the positional name
    cases.append(("yaml", "", _named_yaml([None, "0"], pool), "/vol/out"))                             # empty prefix: positional name "0"
    for _ in range(60 if ctx.tier == "quick" else 600):
        k = rng.randint(2, 5)
        odd = rng.random() < 0.5
        yaml_mode = rng.random() < 0.5
        names = [rng.choice(NAME_POOL + ((ODD_NAMES if yaml_mode else LIST_ODD_NAMES) if odd else [])) for _ in range(k)]
        empty = tuple(i for i in range(k) if rng.random() < 0.12)
        out = rng.choice(OUT_SHAPES) if rng.random() < 0.4 else "/vol/out"
        if yaml_mode:
            entries = _named_yaml(names, pool, empty)
            if rng.random() < 0.3:
                entries[rng.randrange(k)]["labels"] = ["lab"]
            cases.append(("yaml", "X", entries, out))
        else:
            cases.append(("list", "X", _named_list(names, pool, empty, lead=rng.random() < 0.25), out))
    return cases


def _own_blocks(kind, payload, prefix):
    """the pieces of a description that make one experiment each (entries / header + file lines with at least one file)"""
    if kind == "yaml":
        return [[e] for e in payload if e["files"]]
    blocks, cur = [], []
    for l in payload:
        if "header" in l:
            if cur:
                blocks.append(cur)
            cur = []
        else:
            cur.append(l)
    if cur:
        blocks.append(cur)
    return blocks


def _inside(child, parent):
    """normalised path `child` is `parent` + exactly one more component"""
    return os.path.dirname(child) == parent and os.path.basename(child) not in ("", ".", "..")


def names_property(kind, prefix, payload, output="/vol/out"):
    """in-process, real parser, ANY names: a description is either refused cleanly (exit, message) or accepted, never answered
    with an exception; when accepted, the experiment names are pairwise distinct, the output folders <out>/<name> are
    pairwise distinct folders directly inside <out> (normalised paths), every file of an experiment lies directly in its own
    folder, and every experiment holds the files, labels and short reads of its own entry (what the description with this
    experiment alone, under the name it got, parses to).  -> None or (failure kind, detail)"""
    scratch = tempfile.mkdtemp(prefix="isoverif_c10np_")
    try:
        joint = impl_parse(scratch, kind, prefix, payload, output)
        if is_tb(joint):
            return ("description_kills_invocation", "the parser dies with %s instead of using or refusing the experiment names: every "
                    "experiment of the invocation is lost" % joint["traceback"])
        if vlib.is_err(joint):
            return None                               # loud: the user is told to change the name
        names = [x["name"] for x in joint]
        dup = sorted(set(n for n in names if names.count(n) > 1))
        if dup:
            return ("experiment_names_collide", "experiments %s: the name %s is given to %d experiments (one output folder)"
                    % (names, dup[0], names.count(dup[0])))
        if any(not isinstance(n, str) for n in names):
            return ("experiment_names_collide", "experiment names %r: not all strings" % (names,))
        root = os.path.normpath(output)
        folders = [os.path.normpath(x["out_dir"]) for x in joint]
        for i, x in enumerate(joint):
            for j in range(i):
                if folders[i] == folders[j]:
                    return ("experiment_folders_collide", "experiments %r and %r are accepted as two experiments and write into ONE folder "
                            "%s (%s, %s): the second overwrites the first" % (names[j], names[i], folders[i], joint[j]["out_dir"], x["out_dir"]))
        for i, x in enumerate(joint):
            if not _inside(folders[i], root):
                return ("experiment_files_outside_own_folder", "experiment %r: output folder %s is not a folder of its own directly "
                        "inside %s" % (names[i], x["out_dir"], output))
            f = os.path.normpath(x["assigned_tsv"])
            if not _inside(f, folders[i]) or not os.path.basename(f).startswith(names[i] + "."):
                return ("experiment_files_outside_own_folder", "experiment %r: file %s does not lie directly in its folder %s"
                        % (names[i], x["assigned_tsv"], x["out_dir"]))
        blocks = _own_blocks(kind, payload, prefix)
        if len(blocks) != len(joint):
            return ("experiment_names_collide", "%d experiments with files in the description, %d parsed" % (len(blocks), len(joint)))
        for b, x in zip(blocks, joint):
            if kind == "yaml":
                alone = impl_parse(scratch, kind, prefix, [dict(b[0], name=x["name"])], output)
            else:
                alone = impl_parse(scratch, kind, prefix, [{"header": x["name"]}] + b, output)
            if vlib.is_err(alone) or alone != [x]:
                return ("experiment_names_collide", "experiment %s: in the joint description %s, its own entry alone %s" % (x["name"], x, alone))
        if kind in ("list",):
            # --bam_list: the run opens the first file of every line (`x[0] for x in file_list`)
            for x in joint:
                opened = [lib[0] for lib in x["libs"]]
                named = [f for lib in x["libs"] for f in lib]
                if opened != named:
                    return ("described_file_never_opened", "experiment %s: the description names the BAM files %s, the run opens %s"
                            % (x["name"], named, opened))
        return None
    finally:
        shutil.rmtree(scratch, ignore_errors=True)


def gen_path_cases(ctx):
    """absolute paths built from the components a name / an output folder can contribute"""
    rng = ctx.rng
    comps = ["out", "D", "E", ".", "..", "", "d", "X0", ".D", "D.", "...", " "]
    res = ["/", "/vol/out/./D", "/vol/out/D/", "/vol/out/E/../D", "/vol/out/..", "/..", "/vol//out"]
    for _ in range(60 if ctx.tier == "quick" else 600):
        res.append("/" + "/".join(rng.choice(comps) for _ in range(rng.randint(1, 6))))
    return [q for q in res if not q.startswith("//") or q.startswith("///")]     # POSIX leaves exactly two leading slashes open


def strip_private(x):
    if isinstance(x, dict):
        return {k: strip_private(v) for k, v in x.items() if not k.startswith("_")}
    if isinstance(x, list):
        return [strip_private(v) for v in x]
    return x


def impl_combine(scratch, full, tables):
    """real src.stats.combine_table on files written like the pipeline writes them"""
    vlib.repo_on_path()
    import src.stats as ST
    d = tempfile.mkdtemp(dir=scratch)
    col = "TPM" if full else "count"
    samples = []
    for name, rows in tables:
        p = os.path.join(d, name + ".tsv")
        with open(p, "w") as f:
            f.write("#feature_id\t%s\n" % col)
            for k, v in rows:
                f.write("%s\t%s\n" % (k, v))
        samples.append(SimpleNamespace(prefix=name, path=p))
    ST.combine_table(SimpleNamespace(samples=samples), d, lambda s: s.path, "combined.tsv", column_name=col, full=full)
    hdr, rows = M.read_tsv(os.path.join(d, "combined.tsv"))
    return {"header": hdr, "rows": {r[0]: [None if x == "" else float(x) for x in (r[1:] + [""] * (len(hdr) - len(r)))] for r in rows},
            "n_rows": len(rows)}


# ------------------------------------------------------------------------------------------------
# generators (in-process)

def gen_flag_cases(ctx):
    rng = ctx.rng
    n = 250 if ctx.tier == "quick" else 2500
    cases = []
    # the Lean witnesses first (polyA-rich then tail-less; two files + one file without --read_group)
    cases.append(("sensitive_ont", "auto", None, [{"name": "A", "files": 1, "total": 10, "polya": 9}, {"name": "N", "files": 1, "total": 10, "polya": 0}]))
    cases.append(("sensitive_ont", "auto", None, [{"name": "R", "files": 2, "total": 10, "polya": 9}, {"name": "N", "files": 1, "total": 10, "polya": 0}]))
    for _ in range(n):
        k = rng.randint(1, 5)
        samples = []
        for i in range(k):
            total = rng.choice([0, 1, 7, 10, 10, 100, 1000])
            kind = rng.random()
            polya = 0 if (total == 0 or kind < 0.3) else (total if kind < 0.5 else rng.choice([total * 7 // 10, max(0, total * 7 // 10 - 1), min(total, total * 7 // 10 + 1), rng.randint(0, total)]))
            samples.append({"name": "S%d" % i, "files": rng.choice([1, 1, 1, 2, 3]), "total": total, "polya": polya})
        cases.append((rng.choice(PRESETS), rng.choice(POLYA), rng.choice([None, None, "file_name", "tag:RG"]), samples))
    return cases


def flag_req(case, wiring="source"):
    preset, polya, rg, samples = case
    return vlib.req("C10.run_invocation", wiring=wiring,
                    cfg={"preset": preset, "polya": polya, "file_name": False, "grouped": False},
                    read_group=rg, hist=[{"exec": None, "sample": _model_sample(s)} for s in samples])


ISO_POOL = ["T1", "T2", "T3", "TM1", "TM2"]


def gen_gene(rng, idx):
    fl, mono, nonfl = [], [], []
    for i in range(rng.randint(0, 4)):
        ref = rng.choice(ISO_POOL[:3]) if rng.random() < 0.5 else None
        count = rng.randint(1, 4)
        fl.append({"ref": ref, "known_chain": rng.random() < 0.3, "count": count, "label": "nov%d_%d" % (idx, i),
                   "two_exons": rng.random() < 0.5, "polya_site": rng.random() < 0.5, "clean_stranded": rng.random() < 0.7,
                   "strand_ok": True, "groups": rng.randint(1, min(2, count)), "_polyt": rng.random() < 0.5,
                   "_tstrand": rng.choice(["+", "+", "."])})
    used = set()
    for i in range(rng.randint(0, 3)):
        iso = rng.choice(ISO_POOL[3:] + ["TM3"])
        if iso in used:
            continue
        used.add(iso)
        count = rng.randint(1, 3)
        cov = rng.choice([100, 100, 75, 74, 50])
        mono.append({"iso": iso, "count": count, "coverage_ok": cov >= 75, "polya_support": rng.choice([0, 0, 1, count]), "_cov_len": cov})
    for i in range(rng.randint(0, 3)):
        iso = rng.choice(ISO_POOL[:3])
        if iso in used:
            continue
        used.add(iso)
        count = rng.randint(1, 4)
        nonfl.append({"iso": iso, "count": count, "in_graph": rng.random() < 0.8, "minus": rng.random() < 0.5,
                      "left_pos": rng.randint(0, count), "left_polya": rng.randint(0, count),
                      "right_pos": rng.randint(0, count), "right_polya": rng.randint(0, count)})
    return {"fl": fl, "mono": mono, "nonfl": nonfl}


def gen_gene_cases(ctx):
    rng = ctx.rng
    n = 400 if ctx.tier == "quick" else 4000
    cases = []
    for _ in range(n):
        canonical = rng.choice(["only_canonical", "only_stranded", "all"])
        genes = [gen_gene(rng, i) for i in range(rng.randint(1, 4))]
        for g in genes:
            for c in g["fl"]:
                c["strand_ok"] = {"only_canonical": c["clean_stranded"], "only_stranded": c["_tstrand"] != ".", "all": True}[canonical]
        cfgd = {"mono_intronic": False, "mono_exonic": False, "min_known": rng.choice([1, 1, 2]), "min_novel": rng.choice([1, 2, 3]),
                "fl_only": rng.random() < 0.2, "polya": "auto", "file_name": False, "grouped": False}
        flags = {"requires_polya": rng.random() < 0.5, "mono_intronic": rng.random() < 0.5, "mono_exonic": rng.random() < 0.5,
                 "tech_replicas": rng.random() < 0.3}
        detected = sorted(set(rng.sample(ISO_POOL, rng.randint(0, 3)))) if rng.random() < 0.5 else []
        cases.append((cfgd, flags, detected, [order_fl(g) for g in genes], canonical))
    return cases


ID_ODD = ["7", "007", "7.0", "1e3", "-1", "NA", "nan", "NaN", "None", "null", "N/A", "<NA>", "n/a", "#g", "True", "inf"]


def gen_tables(ctx):
    rng = ctx.rng
    n = 60 if ctx.tier == "quick" else 600
    cases = []
    for _ in range(n):
        full = rng.random() < 0.5
        k = rng.randint(1, 4)
        feats = ["g%d" % i for i in range(rng.randint(1, 12))]
        if rng.random() < 0.5:
            # ids that look like numbers or like pandas' missing values are ids like any other (fix 896585b)
            feats += rng.sample(ID_ODD, rng.randint(1, 5))
        tables = []
        for e in range(k):
            mine = [f for f in feats if rng.random() < 0.7]
            rng.shuffle(mine)
            rows = [[f, ("%.6f" if full else "%.2f") % (rng.choice([0, 0, 1, 2.5, 100, 12345.678901]) * rng.random())] for f in mine]
            if full:
                rows.append(["__unassigned", "%.6f" % rng.random()])
            else:
                rows += [["__ambiguous", str(rng.randint(0, 9))], ["__no_feature", str(rng.randint(0, 9))], ["__not_aligned", str(rng.randint(0, 9))]]
            tables.append(["E%d" % e, rows])
        cases.append((full, tables))
    return cases


def same_combined(mo, io, n_tables):
    if mo.get("header") != io["header"]:
        return False
    rows = {}
    for k, cells in mo["rows"]:
        if k in rows:
            return False
        rows[k] = [None if c is None else float(c) for c in cells]
    if set(rows) != set(io["rows"]) or io["n_rows"] != len(rows):
        return False
    for k, cells in rows.items():
        other = io["rows"][k]
        if len(cells) != n_tables or len(other) != n_tables:
            return False
        for a, b in zip(cells, other):
            if (a is None) != (b is None) or (a is not None and abs(a - b) > 1e-9):
                return False
    return True


# ------------------------------------------------------------------------------------------------
# pipeline labs shared by the trace correspondence and the oracle

_PLANS = {}


def lab_plans(ctx):
    key = (ctx.seed, ctx.tier)
    if key not in _PLANS:
        _PLANS[key] = _lab_plans(ctx)
    return _PLANS[key]


def _lab_plans(ctx):
    import random
    quick = ctx.tier == "quick"
    s = ctx.seed
    rng = random.Random(ctx.seed * 7919 + 17)
    E = lambda name, seed, tails, unm, files=1, **kw: dict({"name": name, "seed": seed, "tails": tails, "unmapped": unm, "files": files}, **kw)
    plans = [
        # experiment names that occur inside IsoQuant's own file suffixes (audit2-B GAP C10-2: `reads` in
        # .corrected_reads.bed, `S` in .novel_vs_known.SQANTI-like.tsv, `a` / `t` / `gene` nearly everywhere) next to a tame one
        {"id": "suffix_names", "world": s % 1000 + 7, "cfg": {"data_type": "nanopore", "sqanti_output": True},
         "specs": [E("Ex1", s + 13, 0.4, 1, depth=[3, 5]), E("reads", s + 14, 0.4, 0, depth=[3, 5]), E("S", s + 15, 1.0, 0, depth=[3, 5])],
         "orders": 3, "threads": [1], "yaml_orders": 1, "trace": False},
        # polyA-rich, tail-less and the polyA-rich data once more under another name; default_pacbio preset
        {"id": "pacbio3", "world": s % 1000 + 1, "cfg": {"data_type": "pacbio"},
         "specs": [E("A", s + 1, 1.0, 3), E("N", s + 2, 0.0, 5), E("B", s + 1, 1.0, 0, tag="A")],
         "orders": "all", "threads": [1, 2], "yaml_orders": 1, "trace": True},
        # sensitive preset (both mono flags off): tail-less after polyA-rich
        {"id": "sens2", "world": s % 1000 + 2, "cfg": {"data_type": "nanopore", "strategy": "sensitive_ont"},
         "specs": [E("P", s + 3, 1.0, 2), E("Q", s + 4, 0.0, 0)], "orders": "all", "threads": [1, 2], "yaml_orders": 0,
         "trace": True},
        # two files + one file, no --read_group: the recorded finding (and nothing else)
        {"id": "replicas_auto", "world": s % 1000 + 3, "cfg": {"data_type": "nanopore"},
         "specs": [E("R", s + 5, 0.4, 1, files=2), E("S", s + 6, 0.4, 0)], "orders": "all", "threads": [1, 2],
         "yaml_orders": 0, "trace": False},
        # the same with an explicit --read_group: must be independent
        {"id": "replicas_explicit", "world": s % 1000 + 3, "cfg": {"data_type": "nanopore", "read_group": "file_name", "count_exons": True},
         "specs": [E("R", s + 5, 0.4, 1, files=2), E("S", s + 6, 0.4, 0)], "orders": "all", "threads": [1, 2],
         "yaml_orders": 0, "trace": False},
        # exactly duplicated BAM records: 8 in one experiment, 3 in the other (MultimapResolver.duplicate_counter
        # passes its "5th duplicate" threshold in the first / only in the joint run)
        {"id": "dups", "world": s % 1000 + 5, "cfg": {"data_type": "nanopore"},
         "specs": [E("D", s + 9, 0.4, 0, dups=8, depth=[6, 9]), E("F", s + 10, 0.4, 1, dups=3, depth=[6, 9])],
         "orders": "all", "threads": [1, 2], "yaml_orders": 1, "trace": True},
        # YAML only: an experiment WITH per-experiment short reads (`illumina bam`, junctions 4 bp off the long-read
        # junctions so that IlluminaExonCorrector really moves them; it acts in un-annotated regions: no --genedb)
        # next to one WITHOUT
        {"id": "illumina", "world": s % 1000 + 6, "cfg": {"data_type": "nanopore", "genedb": False},
         "specs": [E("I", s + 11, 0.4, 0, illumina=True), E("J", s + 12, 0.4, 0)], "orders": "all", "threads": [1, 2],
         "yaml_orders": 0, "modes": ["yaml"], "trace": False},
        # annotation-free mode (no combined tables, no known isoforms)
        {"id": "nogenedb", "world": s % 1000 + 4, "cfg": {"data_type": "pacbio", "genedb": False},
         "specs": [E("U", s + 7, 1.0, 1), E("V", s + 8, 0.0, 2)], "orders": "all", "threads": [1, 2], "yaml_orders": 1,
         "trace": False},
    ]
    if os.environ.get("VERIF_C10_SUFFIX_NAMES") == "1":
        # experiment names that occur in a file suffix (`a` in .transcript_models.gtf, `reads` in .corrected_reads.bed): audit-2
        # GAP C10-2, repaired elsewhere (merge_files / rreplace); switched on once that repair is in /repo
        plans.insert(0, {"id": "suffixnames", "world": s % 1000 + 7, "cfg": {"data_type": "nanopore"},
                         "specs": [E("Ex1", s + 13, 0.5, 1), E("reads", s + 14, 0.5, 0), E("a", s + 15, 0.5, 2)],
                         "orders": 3, "threads": [1, 2], "yaml_orders": 1, "trace": False})
    if not quick:
        for i in range(6):
            n = rng.randint(2, 4)
            from gen import samples as S
            specs = S.random_specs(rng, n, quick=False)
            # experiment names from a pool with names that occur inside IsoQuant's own file suffixes (GAP C10-2)
            pool = rng.sample(["reads", "a", "t", "gene", "S", "counts", "E1", "E2", "Zb2", "x.y"], n)
            renamed = {sp["name"]: nm for sp, nm in zip(specs, pool)}
            for sp in specs:
                sp["name"] = renamed[sp["name"]]
                if sp.get("tag") in renamed:
                    sp["tag"] = renamed[sp["tag"]]
            cfg = rng.choice([{"data_type": "nanopore"}, {"data_type": "pacbio"}, {"data_type": "nanopore", "strategy": "sensitive_ont"},
                              {"data_type": "pacbio", "strategy": "sensitive_pacbio", "sqanti_output": True},
                              {"data_type": "nanopore", "polya_requirement": "never"}, {"data_type": "pacbio", "polya_requirement": "always"},
                              {"data_type": "pacbio", "high_memory": True}, {"data_type": "nanopore", "strategy": "all", "count_exons": True},
                              {"data_type": "pacbio", "read_group": "file_name"}])
            if rng.random() < 0.3 and cfg.get("read_group"):
                specs[0]["files"] = 2
            plans.append({"id": "rand%d" % i, "world": rng.randint(1, 10 ** 6), "cfg": cfg, "specs": specs,
                          "orders": "all" if n <= 3 else 8, "threads": [1, 2, 3] if i % 2 else [1, 2], "yaml_orders": 1,
                          "trace": i < 2, "chroms": rng.choice([2, 3])})
    return plans


class Labs:
    """scratch directories with worlds, BAM files and finished runs; one per plan, built on demand"""

    def __init__(self):
        self.root = None
        self.labs = {}
        self.runs = {}

    def get(self, plan):
        if self.root is None:
            self.root = tempfile.mkdtemp(prefix="isoverif_c10_")
        if plan["id"] not in self.labs:
            d = os.path.join(self.root, plan["id"])
            os.makedirs(d)
            self.labs[plan["id"]] = M.Lab(d, plan["world"], plan["specs"], n_chroms=plan.get("chroms", 2))
        return self.labs[plan["id"]]

    def cleanup(self):
        if self.root:
            shutil.rmtree(self.root, ignore_errors=True)
        self.root = None
        self.labs = {}


LABS = Labs()


def plan_orders(plan, rng):
    import random
    names = [s["name"] for s in plan["specs"]]
    perms = list(itertools.permutations(names))
    if plan["orders"] != "all" and len(perms) > plan["orders"]:
        perms = [perms[0]] + random.Random(plan["world"]).sample(perms[1:], plan["orders"] - 1)
    return [list(p) for p in perms]


# ------------------------------------------------------------------------------------------------
# trace correspondence

def read_trace(path):
    if not os.path.exists(path):
        return []
    with open(path) as f:
        return [json.loads(l) for l in f if l.strip()]


def sample_of_task(rec):
    return rec["sample"][: -len(rec["chr"]) - 1]


def abstract_sample(name, files, trace):
    """model Sample from the stand-alone (--threads 1) trace of one experiment"""
    ent = [r for r in trace if r["ev"] == "sample_enter"][0]["state"]
    ext = [r for r in trace if r["ev"] == "sample_exit"][0]["state"]
    tasks = [r for r in trace if r["ev"] == "task"]
    chroms = []
    for i, t in enumerate(tasks):
        genes = [{"fl": [], "nonfl": [],
                  "mono": [{"iso": iso, "count": 1000, "coverage_ok": True, "polya_support": 1000} for iso in g]}
                 for g in t["genes"]]
        chroms.append({"name": t["chr"], "assignments": (ext["assignment_id"] - ent["assignment_id"]) if i == 0 else 0,
                       "features": (ext["feature_id"] - ent["feature_id"]) if i == 0 else 0,
                       "aligned": (ext["aligned"] - ent["aligned"]) if i == 0 else 0, "genes": genes})
    flags = tasks[0]["flags"] if tasks else ext["flags"]
    return {"name": name, "files": files, "unaligned": ext["unaligned"] - ent["unaligned"], "groups": ext["read_groups"],
            "duplicates": ext["duplicates"] - ent["duplicates"], "chroms": chroms, "_flags": flags}


def not_aligned_of(outdir, name):
    p = os.path.join(outdir, name, name + ".gene_counts.tsv")
    if not os.path.exists(p):
        return None
    with open(p) as f:
        for l in f:
            if l.startswith("__not_aligned"):
                return int(l.split("\t")[1])
    return None


def polya_counts_from_log(outdir, names):
    """(total, polya) per experiment from 'Total assignments used for analysis: N, polyA tail detected in M'"""
    import re
    res, cur = {}, None
    p = os.path.join(outdir, "isoquant.log")
    if not os.path.exists(p):
        return res
    with open(p) as f:
        for l in f:
            m = re.search(r"Processing experiment (\S+)", l)
            if m:
                cur = m.group(1)
            m = re.search(r"Total assignments used for analysis: (\d+), polyA tail detected in (\d+)", l)
            if m and cur is not None:
                res[cur] = (int(m.group(1)), int(m.group(2)))
    return res


def trace_correspondence(ctx, plan):
    lab = LABS.get(plan)
    cfg = plan["cfg"]
    names = [s["name"] for s in plan["specs"]]
    orders = plan_orders(plan, ctx.rng)
    chosen = [orders[0], orders[-1]] if len(orders) > 1 else orders
    jobs = [lab.job_single(n, 1, cfg) for n in names]
    hist_jobs = [lab.job_history(o, t, cfg, "list") for o in chosen for t in (1, 2)]
    for j in jobs + hist_jobs:
        j["env"] = {"C10_TRACE": j["out"] + ".trace"}
    M.run_jobs(jobs + hist_jobs, wrapper=WRAP)
    for j in jobs + hist_jobs:
        if j["rc"] != 0:
            ctx.disagree("trace_run", {"plan": plan["id"], "order": j["order"], "threads": j["threads"]}, None,
                         {"rc": j["rc"], "log": j["log"][-600:]})
            return
    # configuration of the invocation, as the model sees it
    preset = cfg.get("strategy") or {"nanopore": "default_ont", "pacbio": "default_pacbio"}[cfg["data_type"]]
    rg = cfg.get("read_group")
    mcfg = {"preset": preset, "polya": cfg.get("polya_requirement", "auto"), "file_name": rg == "file_name", "grouped": bool(rg)}
    samples = {}
    for n, j in zip(names, jobs):
        tr = read_trace(j["out"] + ".trace")
        if not tr:
            ctx.disagree("trace_run", {"plan": plan["id"], "single": n}, None, "empty trace")
            return
        s = abstract_sample(n, len(lab.bams[n]), tr)
        tp = polya_counts_from_log(j["out"], [n]).get(n, (0, 0))
        s["total"], s["polya"] = tp
        s["_not_aligned"] = not_aligned_of(j["out"], n)
        samples[n] = s
    chr_order = [c["name"] for c in samples[names[0]]["chroms"]]
    reqs, metas = [], []
    for j in hist_jobs:
        tr = read_trace(j["out"] + ".trace")
        hist = []
        for n in j["order"]:
            tasks = {sample_of_task(r) + "/" + r["chr"]: r for r in tr if r["ev"] == "task"}
            if j["threads"] == 1:
                ex = None
            else:
                pids = []
                ex = []
                for c in chr_order:
                    pid = tasks.get(n + "/" + c, {}).get("pid", -1)
                    if pid not in pids:
                        pids.append(pid)
                    ex.append(pids.index(pid))
            hist.append({"exec": ex, "sample": strip_private(_model_sample(samples[n]))})
        reqs.append(vlib.req("C10.run_history", wiring="source", cfg=mcfg, state=None, hist=hist))
        metas.append((j, tr))
    outs = ctx.driver.run(reqs)
    for (j, tr), mo in zip(metas, outs):
        ctx.evaluations += 1
        ctx.count("trace:threads=%d" % j["threads"])
        key = {"plan": plan["id"], "world": plan["world"], "specs": plan["specs"], "cfg": cfg, "order": j["order"], "threads": j["threads"]}
        if isinstance(mo, dict) and "driver_error" in mo:
            ctx.disagree("trace_history", key, mo, None)
            continue
        exits = [r for r in tr if r["ev"] == "sample_exit"]
        ok = len(exits) == len(j["order"])
        why = None if ok else "number of samples"
        for i, n in enumerate(j["order"]):
            if not ok:
                break
            st, ms, mout = exits[i]["state"], mo["states"][i], mo["outputs"][i]
            real_state = dict(st)
            model_state = dict(ms, detected=sorted(ms["detected"]), read_groups=sorted(ms["read_groups"]))
            if real_state != model_state:
                ok, why = False, "state after %s: model %s real %s" % (n, model_state, real_state)
                break
            tasks = sorted((r for r in tr if r["ev"] == "task" and sample_of_task(r) == n), key=lambda r: chr_order.index(r["chr"]))
            real_out = {"flags": tasks[0]["flags"] if tasks else st["flags"], "not_aligned": not_aligned_of(j["out"], n),
                        "transcripts": [[sorted(g) for g in t["genes"]] for t in tasks],
                        "grouped_tables": os.path.exists(os.path.join(j["out"], n, n + ".gene_grouped_counts.tsv"))}
            model_out = {"flags": mout["flags"], "not_aligned": mout["not_aligned"],
                         "transcripts": [[sorted(g) for g in t] for t in mout["transcripts"]], "grouped_tables": mout["grouped_tables"]}
            if any(t["flags"] != real_out["flags"] for t in tasks):
                ok, why = False, "tasks of %s saw different flags" % n
                break
            if real_out != model_out:
                ok, why = False, "outputs of %s: model %s real %s" % (n, model_out, real_out)
                break
        ctx.traces_validated += 1
        if not ok:
            ctx.disagree("trace_history", key, why, None)
        else:
            ctx.mark_nontrivial(["trace", plan["id"], j["order"], j["threads"]])
            if len(ctx.samples) < 8:
                ctx.sample({"op": "trace_history", "plan": plan["id"], "order": j["order"], "threads": j["threads"],
                            "state_after_last": exits[-1]["state"] if exits else None})


# ------------------------------------------------------------------------------------------------

def correspondence(ctx):
    scratch = tempfile.mkdtemp(prefix="isoverif_c10ip_")
    try:
        # wiring the model reads off the source (reported in the evidence)
        ctx.extra["wiring_of_source"] = ctx.driver.run([vlib.req("C10.wiring_of_source")])[0]
        # 1. strategy table, presets
        cases = [("set_polya_requirement_strategy", {"flag": f, "strategy": s}) for f in (False, True) for s in POLYA]
        ctx.diff_batch("C10", cases, lambda op, kw: impl_polya_strategy(kw["flag"], kw["strategy"]), nontrivial=lambda op, kw, mo: True)
        pc = [("preset_config", {"preset": p, "polya": "auto", "file_name": False, "grouped": False}) for p in PRESETS]
        ctx.diff_batch("C10", pc, lambda op, kw: impl_preset_config(kw["preset"], scratch), nontrivial=lambda op, kw, mo: True)
        # 2. flag histories (real process_sample)
        fcases = gen_flag_cases(ctx)
        outs = ctx.driver.run([flag_req(c) for c in fcases])
        for c, mo in zip(fcases, outs):
            ctx.evaluations += 1
            ctx.count("op:flag_history")
            ctx.count("flag_history:len=%d" % len(c[3]))
            if isinstance(mo, dict) and "driver_error" in mo:
                ctx.disagree("flag_history", c, mo, None)
                continue
            io = impl_flag_history(scratch, *c)
            ctx.traces_validated += 1
            mm = [{"flags": o["flags"], "grouped_tables": o["grouped_tables"]} for o in mo]
            if mm != io:
                ctx.disagree("flag_history", {"preset": c[0], "polya": c[1], "read_group": c[2], "samples": c[3]}, mm, io)
            elif any(any(o["flags"].values()) for o in io):
                ctx.mark_nontrivial(["flag_history", c])
            if len(ctx.samples) < 3:
                ctx.sample({"op": "flag_history", "input": c, "model": mm, "impl": io})
        # 3. gates
        gcases = gen_gene_cases(ctx)
        outs = ctx.driver.run([vlib.req("C10.gene_steps", cfg=c[0], flags=c[1], detected=c[2], genes=strip_private(c[3])) for c in gcases])
        for c, mo in zip(gcases, outs):
            ctx.evaluations += 1
            ctx.count("op:gene_steps")
            if isinstance(mo, dict) and "driver_error" in mo:
                ctx.disagree("gene_steps", c, mo, None)
                continue
            try:
                io = impl_gene_steps(*c)
            except Exception as ex:      # the fake objects no longer fit the code: a broken tie, not a verdict
                io = {"error": "error", "exc": "%s: %s" % (type(ex).__name__, ex)}
            ctx.traces_validated += 1
            mm = {"reported": mo["reported"], "detected": sorted(mo["detected"])}
            if mm != io:
                ctx.disagree("gene_steps", {"cfg": c[0], "flags": c[1], "detected": c[2], "genes": c[3], "canonical": c[4]}, mm, io)
            elif any(io["reported"]):
                ctx.mark_nontrivial(["gene_steps", c])
            if len(ctx.samples) < 5:
                ctx.sample({"op": "gene_steps", "input": strip_private(c[3]), "flags": c[1], "detected": c[2], "model": mm, "impl": io})
        # 3b. resolver entries looked up by assignment id
        lcases = gen_load_cases(ctx)
        outs = ctx.driver.run([vlib.req("C10.load_chr", **c) for c in lcases])
        for c, mo in zip(lcases, outs):
            ctx.evaluations += 1
            ctx.count("op:load_chr")
            if isinstance(mo, dict) and "driver_error" in mo:
                ctx.disagree("load_chr", c, mo, None)
                continue
            io = impl_load_chr(c["chr"], c["base"], c["recs"], c["foreign"])
            ctx.traces_validated += 1
            mm = model_load_view(mo)
            if mm != io:
                ctx.disagree("load_chr", c, mm, io)
            elif any(x not in ("noninformative", "dropped") for x in io):
                ctx.mark_nontrivial(["load_chr", c])
        # 3c. the description parsers: parser loop + construction of the samples (names, folders, file paths)
        ctx.extra["name_rule_of_source"] = ctx.driver.run([vlib.req("C10.name_rule_of_source")])[0]
        ctx.extra["name_policy_of_source"] = ctx.driver.run([vlib.req("C10.name_policy_of_source")])[0]
        ncases = gen_name_cases(ctx)
        pcases = [c + ("/vol/out",) for c in gen_parse_cases(ctx)] + ncases
        outs = ctx.driver.run([describe_req(kind, pf, pl, out) for kind, pf, pl, out in pcases])
        for (kind, pf, pl, out), mo in zip(pcases, outs):
            ctx.evaluations += 1
            ctx.count("op:parse_" + kind)
            if isinstance(mo, dict) and "driver_error" in mo:
                ctx.disagree("parse_" + kind, {"kind": kind, "prefix": pf, "payload": pl, "output": out}, mo, None)
                continue
            io = impl_parse(scratch, kind, pf, pl, out)
            ctx.traces_validated += 1
            if vlib.is_err(mo):
                ctx.count("model_error")
            if is_tb(mo) or is_tb(io):
                ctx.count("parse:traceback")
            given = [e["name"] for e in pl] if kind == "yaml" else [l["header"] for l in pl if "header" in l]
            ok = not vlib.is_err(mo) and not is_tb(mo)
            renamed = ok and any(x["name"] not in given for x in mo)
            if renamed:
                ctx.count("parse:renamed_by_position")
            if any(not isinstance(g, str) and g is not None for g in given) and ok:
                ctx.count("parse:non_string_name_accepted")
            if any(isinstance(g, str) and ("/" in g or g in ("", ".", "..")) for g in given) and vlib.is_err(mo):
                ctx.count("parse:path_like_name_refused")
            same = (mo == io) if (is_tb(mo) or is_tb(io)) else vlib.same(mo, io)
            if not same:
                ctx.disagree("parse_" + kind, {"kind": kind, "prefix": pf, "payload": pl, "output": out}, mo, io)
            elif ok and len(mo) > 1:
                ctx.mark_nontrivial(["parse", kind, pl])
        # 3d. the meaning of a path: the model's component walk against os.path.normpath
        ncs = gen_path_cases(ctx)
        outs = ctx.driver.run([vlib.req("C10.resolve_path", path=q) for q in ncs])
        for q, mo in zip(ncs, outs):
            ctx.evaluations += 1
            ctx.count("op:resolve_path")
            if isinstance(mo, dict) and "driver_error" in mo:
                ctx.disagree("resolve_path", q, mo, None)
                continue
            io = [c for c in os.path.normpath(q).split("/") if c]
            ctx.traces_validated += 1
            if mo != io:
                ctx.disagree("resolve_path", q, mo, io)
            elif len(io) > 1:
                ctx.mark_nontrivial(["resolve_path", q])
        # 4. combine_table
        tcases = gen_tables(ctx)
        outs = ctx.driver.run([vlib.req("C10.combine_table", full=f, tables=t) for f, t in tcases])
        for (f, t), mo in zip(tcases, outs):
            ctx.evaluations += 1
            ctx.count("op:combine_table")
            if isinstance(mo, dict) and "driver_error" in mo:
                ctx.disagree("combine_table", {"full": f, "tables": t}, mo, None)
                continue
            io = impl_combine(scratch, f, t)
            ctx.traces_validated += 1
            if not same_combined(mo, io, len(t)):
                ctx.disagree("combine_table", {"full": f, "tables": t}, mo, io)
            elif io["n_rows"] > 0:
                ctx.mark_nontrivial(["combine_table", f, t])
        # 5. pipeline traces
        for plan in lab_plans(ctx):
            if plan.get("trace"):
                trace_correspondence(ctx, plan)
    finally:
        shutil.rmtree(scratch, ignore_errors=True)


# ------------------------------------------------------------------------------------------------
# oracle

def classify(plan_cfg, specs_by_name, order, name, diffs):
    """failure class of a joint-vs-stand-alone difference of experiment `name`"""
    only_extra_grouped = all(what == "extra file in the joint run" and "_grouped" in fn for fn, what in diffs)
    if (only_extra_grouped and not plan_cfg.get("read_group") and specs_by_name[name].get("files", 1) <= 1
            and any(specs_by_name[o].get("files", 1) > 1 for o in order)):
        return KF_KIND
    return "joint_run_differs_from_standalone"


def check_plan(ctx, plan, only=None):
    """runs the invocations of a plan on the real pipeline and reports property failures.
    `only` = (order, threads, mode) restricts to one joint run (replay)."""
    lab = LABS.get(plan)
    cfg = plan["cfg"]
    specs = {s["name"]: s for s in plan["specs"]}
    names = list(specs)
    if only:
        joint = [lab.job_history(only[0], only[1], cfg, only[2])]
    else:
        orders = plan_orders(plan, ctx.rng)
        joint = [lab.job_history(o, t, cfg, m) for m in plan.get("modes", ["list"]) for o in orders for t in plan["threads"]]
        joint += [lab.job_history(o, plan["threads"][-1], cfg, "yaml") for o in orders[:plan.get("yaml_orders", 0)]]
    singles = {n: lab.job_single(n, 1, cfg) for n in names}
    M.run_jobs(list(singles.values()) + joint)
    n_fail = 0
    # a stand-alone run that fails is not an excuse for the plan (audit2-B GAP C10-2: the names `reads`, `a`, `gene` made
    # EVERY run of the experiment abort in merge_files): it excuses only the comparison of that one experiment.  A joint
    # run that aborts although some experiment of it works alone has taken that experiment's outputs away.
    failed_single = set()
    for n, j in singles.items():
        if j["rc"] != 0:
            failed_single.add(n)
            ctx.count("oracle:standalone_run_fails")
            ctx.notes.append("stand-alone run of %s in plan %s failed (rc %s): %s" % (n, plan["id"], j["rc"], j["log"][-300:]))
    for j in joint:
        key = {"plan": plan["id"], "world": plan["world"], "chroms": plan.get("chroms", 2), "specs": plan["specs"], "cfg": cfg,
               "order": j["order"], "threads": j["threads"], "mode": j["mode"]}
        ctx.count("oracle:joint_runs")
        ctx.count("oracle:threads=%d" % j["threads"])
        if j["rc"] != 0:
            works_alone = [n for n in j["order"] if n not in failed_single]
            if works_alone:
                ctx.fail("joint_run_crashes", key, "experiments %s finish when run alone (the stand-alone runs of %s fail as well); rc=%s %s"
                         % (works_alone, sorted(failed_single), j["rc"], j["log"][-500:]))
                n_fail += 1
            else:
                ctx.count("oracle:joint_and_every_standalone_run_fail")
            continue
        for n in j["order"]:
            if n in failed_single:
                ctx.fail("joint_run_differs_from_standalone", dict(key, experiment=n),
                         "the stand-alone run of %s fails (rc %s), inside the joint run the experiment is processed" % (n, singles[n]["rc"]))
                n_fail += 1
                continue
            diffs = M.compare_experiment(singles[n]["out"], j["out"], n)
            ctx.count("oracle:experiment_comparisons")
            if diffs:
                kind = classify(cfg, specs, j["order"], n, diffs)
                ctx.fail(kind, dict(key, experiment=n), "; ".join("%s: %s" % d for d in diffs[:4]))
                n_fail += 1
        if cfg.get("genedb", True) and len(j["order"]) > 1:
            probs = M.check_combined(j["out"], j["order"])
            if probs:
                ctx.fail("combined_table_wrong", key, "; ".join("%s: %s" % p for p in probs[:4]))
                n_fail += 1
    return n_fail


# pipeline runs whose description names collide / repeat (audit finding G4)
NAMES_PLAN = {"id": "dupnames", "world_off": 8, "cfg": {"data_type": "nanopore"},
              # (names given in the description for the experiments K, L, M; prefix X)
              "descs": [(["X2", "D", "D"], ["yaml", "list"]), (["D", "D"], ["yaml"]),
                        # audit-2 GAP C10-1: two names for one folder; a name that is not a string; a blank name
                        (["D", "./D"], ["yaml", "list"]), ([7, "E"], ["yaml"]), (["", "E"], ["yaml"])],
              "threads": 1}

# list-file shapes (audit-2, side finding): labels after a colon, an experiment over several lines, several files on ONE line.
# Experiments T (two BAM files) and U (one); per description: the lines of every experiment and the stand-alone command line.
SHAPES_PLAN = {"id": "listshapes", "world_off": 9, "cfg": {"data_type": "nanopore", "read_group": "file_name"}, "threads": 1,
               "descs": ["labels", "one_line", "one_line_label"]}


def names_plan(ctx):
    s = ctx.seed
    E = lambda name, seed, tails, unm: {"name": name, "seed": seed, "tails": tails, "unmapped": unm, "files": 1}
    return dict(NAMES_PLAN, world=s % 1000 + NAMES_PLAN["world_off"],
                specs=[E("K", s + 21, 0.5, 1), E("L", s + 22, 0.5, 0), E("M", s + 23, 0.5, 2)])


def shapes_plan(ctx):
    s = ctx.seed
    E = lambda name, seed, tails, unm, files: {"name": name, "seed": seed, "tails": tails, "unmapped": unm, "files": files}
    return dict(SHAPES_PLAN, world=s % 1000 + SHAPES_PLAN["world_off"], specs=[E("T", s + 31, 0.5, 1, 2), E("U", s + 32, 0.5, 0, 1)])


def _write_named_description(path, mode, ids, names, bams):
    with open(path, "w") as f:
        if mode == "list":
            for i, n in zip(ids, names):
                f.write("#%s\n" % n)
                for b in bams[i]:
                    f.write("%s\n" % b)
        else:
            import yaml
            yaml.safe_dump([{"data format": "bam"}] + [{"name": n, "long read files": list(bams[i])} for i, n in zip(ids, names)], f)


def _parsed_names(path, mode, prefix):
    """the real parser (in-process) on a description file -> experiment names, None when it exits (clean refusal), or
    {"traceback": ...} when it dies with an exception"""
    vlib.repo_on_path()
    import contextlib
    import io
    from src.input_data_storage import InputDataStorage
    _quiet()
    args = SimpleNamespace(fastq=None, bam=None, fastq_list=None, bam_list=path if mode == "list" else None, read_assignments=None,
                           yaml=path if mode == "yaml" else None, prefix=prefix, labels=None, output="/nonexistent", illumina_bam=None)
    try:
        with contextlib.redirect_stdout(io.StringIO()):
            return [x.prefix for x in InputDataStorage(args).samples]
    except SystemExit:
        return None
    except Exception as ex:
        return {"traceback": type(ex).__name__}


def _refusal_problem(j):
    """a description the parser refuses: the run must stop with a message, not with rc 0 and not with a traceback"""
    if j["rc"] == 0:
        return "joint_run_ignores_parser_exit", "the parser exits on this description but the pipeline run returned 0"
    if "Traceback (most recent call last)" in j["log"]:
        return "joint_run_crashes", "the parser refuses this description, the run ends with a traceback: %s" % j["log"][-300:]
    return None


def check_names_plan(ctx, plan, only=None):
    """descriptions with repeated / odd names on the real pipeline: either the run stops in the parser (exit, message) or
    every experiment's folder <out>/<name it got> holds what the stand-alone run of THAT experiment under that name writes"""
    lab = LABS.get(plan)
    cfg = plan["cfg"]
    ids = [sp["name"] for sp in plan["specs"]]
    jobs = []
    for names, modes in plan["descs"]:
        for mode in modes:
            if only and (list(only[0]) != list(names) or only[1] != mode):
                continue
            out = lab._out("names_%s_%d" % (mode, len(jobs)))
            desc = out + (".txt" if mode == "list" else ".yaml")
            use = ids[:len(names)]
            _write_named_description(desc, mode, use, names, lab.bams)
            a = ["--threads", str(plan["threads"]), "--bam_list" if mode == "list" else "--yaml", desc, "-p", "X"] + M.common_args(lab.paths, cfg)
            jobs.append({"out": out, "args": a, "home": out + "_home", "given": list(names), "ids": use, "mode": mode,
                         "parsed": _parsed_names(desc, mode, "X")})
    singles = {}
    for j in jobs:
        # the names the experiments are meant to get: what the parser says, or - when it dies - the printed given names
        meant = j["parsed"] if isinstance(j["parsed"], list) else ([str(g) for g in j["given"]] if is_tb(j["parsed"]) else None)
        j["meant"] = meant
        if meant is not None and len(meant) == len(j["ids"]):
            for i, n in zip(j["ids"], meant):
                if (i, n) not in singles and isinstance(n, str) and n not in ("", ".", ".."):
                    out = lab._out("single_%s_as_%d" % (i, len(singles)))
                    singles[(i, n)] = {"out": out, "home": out + "_home",
                                       "args": ["--threads", "1", "--bam"] + lab.bams[i] + ["-p", n] + M.common_args(lab.paths, cfg)}
    M.run_jobs(list(singles.values()) + jobs)
    n_fail = 0
    for j in jobs:
        key = {"names_plan": plan["id"], "given": j["given"], "mode": j["mode"], "parsed": j["parsed"]}
        ctx.count("oracle:named_joint_runs")
        if j["parsed"] is None:
            ctx.count("oracle:named_joint_runs_parser_exit")
            pr = _refusal_problem(j)
            if pr:
                ctx.fail(pr[0], key, pr[1])
                n_fail += 1
            continue
        if is_tb(j["parsed"]):
            ok_alone = [n for i, n in zip(j["ids"], j["meant"]) if singles.get((i, n), {}).get("rc") == 0]
            ctx.fail("description_kills_invocation", key, "names in the description %r: the invocation dies with %s (rc %s) and no experiment "
                     "gets its files, while the stand-alone runs named %s finish with rc 0" % (j["given"], j["parsed"]["traceback"], j["rc"], ok_alone))
            n_fail += 1
            continue
        if j["rc"] != 0:
            ctx.fail("joint_run_crashes", key, "rc=%s %s" % (j["rc"], j["log"][-500:]))
            n_fail += 1
            continue
        if len(set(j["parsed"])) != len(j["parsed"]):
            folders = sorted(x for x in os.listdir(j["out"]) if os.path.isdir(os.path.join(j["out"], x)))
            ctx.fail("experiment_names_collide", key, "names in the description %s -> experiments %s; rc 0, output folders %s"
                     % (j["given"], j["parsed"], folders))
            n_fail += 1
        folders = [os.path.normpath(os.path.join(j["out"], n)) for n in j["parsed"]]
        if len(set(folders)) != len(folders) and len(set(j["parsed"])) == len(j["parsed"]):
            ctx.fail("experiment_folders_collide", key, "names in the description %r -> experiments %r accepted as different, rc 0, but they "
                     "share an output folder: %s" % (j["given"], j["parsed"], sorted(x for x in os.listdir(j["out"]) if os.path.isdir(os.path.join(j["out"], x)))))
            n_fail += 1
        for i, n in zip(j["ids"], j["parsed"]):
            sj = singles.get((i, n))
            if sj is None or sj.get("rc") != 0:
                ctx.notes.append("stand-alone run of %s as %s failed" % (i, n))
                continue
            diffs = M.compare_experiment(sj["out"], j["out"], n)
            ctx.count("oracle:experiment_comparisons")
            if diffs:
                ctx.fail("experiment_folder_holds_other_outputs", dict(key, experiment=i, name=n),
                         "experiment %s (named %s): %s" % (i, n, "; ".join("%s: %s" % d for d in diffs[:3])))
                n_fail += 1
        if len(set(folders)) == len(folders) and len(j["parsed"]) > 1:
            probs = M.check_combined(j["out"], j["parsed"])
            if probs:
                ctx.fail("combined_table_wrong", key, "; ".join("%s: %s" % p for p in probs[:4]))
                n_fail += 1
    return n_fail


def _shape_lines(shape, lab):
    """-> (list-file text, {experiment: stand-alone arguments after --bam})"""
    t, u = lab.bams["T"], lab.bams["U"]
    if shape == "labels":            # one file per line, every file with a label
        return ("#T\n%s:rep1\n%s:rep2\n#U\n%s:solo\n" % (t[0], t[1], u[0]),
                {"T": t + ["--labels", "rep1", "rep2"], "U": u + ["--labels", "solo"]})
    if shape == "one_line":          # both files of T on one line (the format says: one file per line)
        return ("#T\n%s %s\n#U\n%s\n" % (t[0], t[1], u[0]), {"T": t + ["--labels", _stem(t[0]), _stem(t[0])], "U": list(u)})
    if shape == "one_line_label":
        return ("#T\n%s %s:both\n#U\n%s\n" % (t[0], t[1], u[0]), {"T": t + ["--labels", "both", "both"], "U": list(u)})
    raise ValueError(shape)


def check_shapes_plan(ctx, plan, only=None):
    """list files whose lines carry labels or several files: refused by the parser (clean exit), or every experiment equals the
    stand-alone run on ALL the files the description names for it (`--bam f1 f2 --labels …`)"""
    lab = LABS.get(plan)
    cfg = plan["cfg"]
    jobs, singles = [], {}
    for shape in plan["descs"]:
        if only and only != shape:
            continue
        text, alone = _shape_lines(shape, lab)
        out = lab._out("shape_" + shape)
        with open(out + ".txt", "w") as f:
            f.write(text)
        a = ["--threads", str(plan["threads"]), "--bam_list", out + ".txt", "-p", "X"] + M.common_args(lab.paths, cfg)
        jobs.append({"out": out, "args": a, "home": out + "_home", "shape": shape, "parsed": _parsed_names(out + ".txt", "list", "X")})
        for n, extra in alone.items():
            so = lab._out("shape_%s_single_%s" % (shape, n))
            singles[(shape, n)] = {"out": so, "home": so + "_home",
                                   "args": ["--threads", "1", "--bam"] + extra + ["-p", n] + M.common_args(lab.paths, cfg)}
    M.run_jobs(list(singles.values()) + jobs)
    n_fail = 0
    for j in jobs:
        key = {"shapes_plan": plan["id"], "shape": j["shape"]}
        ctx.count("oracle:list_shape_runs")
        if j["parsed"] is None:
            ctx.count("oracle:list_shape_runs_parser_exit")
            pr = _refusal_problem(j)
            if pr:
                ctx.fail(pr[0], key, pr[1])
                n_fail += 1
            continue
        if is_tb(j["parsed"]) or j["rc"] != 0:
            ctx.fail("joint_run_crashes", key, "parser %s, rc=%s %s" % (j["parsed"], j["rc"], j["log"][-400:]))
            n_fail += 1
            continue
        for n in j["parsed"]:
            sj = singles.get((j["shape"], n))
            if sj is None or sj.get("rc") != 0:
                ctx.notes.append("stand-alone run of %s for list shape %s failed: %s" % (n, j["shape"], (sj or {}).get("log", "")[-200:]))
                continue
            diffs = M.compare_experiment(sj["out"], j["out"], n)
            ctx.count("oracle:experiment_comparisons")
            if diffs:
                ctx.fail("joint_run_differs_from_standalone", dict(key, experiment=n),
                         "list-file shape %s, experiment %s vs --bam with all its files: %s" % (j["shape"], n, "; ".join("%s: %s" % d for d in diffs[:3])))
                n_fail += 1
    return n_fail


def flag_property(ctx, case):
    """in-process: the flags a sample gets in a history equal the flags it gets alone (same command line)"""
    preset, polya, rg, samples = case
    scratch = tempfile.mkdtemp(prefix="isoverif_c10fp_")
    try:
        joint = impl_flag_history(scratch, preset, polya, rg, samples)
        for i, s in enumerate(samples):
            alone = impl_flag_history(scratch, preset, polya, rg, [s])[0]
            if joint[i] != alone:
                grouped_only = (joint[i]["flags"] == alone["flags"] and rg is None and s["files"] <= 1
                                and any(x["files"] > 1 for x in samples))
                return (KF_KIND if grouped_only else "flags_depend_on_history",
                        {"flag_case": [preset, polya, rg, samples], "index": i},
                        "sample %d: in the history %s, alone %s" % (i, joint[i], alone))
    finally:
        shutil.rmtree(scratch, ignore_errors=True)
    return None


def combine_property(full, tables):
    """in-process: the real combine_table output holds exactly the per-experiment columns"""
    scratch = tempfile.mkdtemp(prefix="isoverif_c10cp_")
    try:
        io = impl_combine(scratch, full, tables)
    finally:
        shutil.rmtree(scratch, ignore_errors=True)
    names = [t[0] for t in tables]
    if io["header"] != ["#feature_id"] + names:
        return "header %s" % io["header"]
    if io["n_rows"] != len(io["rows"]):
        return "duplicate feature rows"
    feats = set()
    for i, (nm, rows) in enumerate(tables):
        rows = rows if full else rows[:max(0, len(rows) - 3)]
        indiv = {k: float(v) for k, v in rows}
        feats |= set(indiv)
        for k, cells in io["rows"].items():
            got = cells[i]
            if (k in indiv) != (got is not None) or (got is not None and abs(got - indiv[k]) > 1e-9):
                return "cell %s/%s: combined %r, individual %r" % (k, nm, got, indiv.get(k))
    if feats != set(io["rows"]):
        return "row set differs from the union of the individual tables"
    return None


def oracle(ctx, disagreements, broken):
    try:
        # 1. seeded with the disagreeing inputs
        plans = {p["id"]: p for p in lab_plans(ctx)}
        seeded_plans = []
        for d in disagreements:
            inp = d["input"]
            if d["op"] == "flag_history" and isinstance(inp, dict):
                r = flag_property(ctx, (inp["preset"], inp["polya"], inp["read_group"], inp["samples"]))
                if r:
                    ctx.fail(*r)
            if d["op"] in ("parse_yaml", "parse_list", "parse_fqlist") and isinstance(inp, dict):
                r = parse_property(inp["kind"], inp["prefix"], inp["payload"])
                if r:
                    ctx.fail("parsed_sample_depends_on_other_entries", {"parse_case": [inp["kind"], inp["prefix"], inp["payload"]]}, r)
            if d["op"] in ("parse_yaml", "parse_list", "parse_fqlist") and isinstance(inp, dict):
                r = names_property(inp["kind"], inp["prefix"], inp["payload"], inp.get("output", "/vol/out"))
                if r:
                    ctx.fail(r[0], {"names_case": [inp["kind"], inp["prefix"], inp["payload"], inp.get("output", "/vol/out")]}, r[1])
            if d["op"] == "combine_table" and isinstance(inp, dict):
                r = combine_property(inp["full"], inp["tables"])
                if r:
                    ctx.fail("combined_table_wrong", {"combine_case": [inp["full"], inp["tables"]]}, r)
            if d["op"] in ("trace_history", "trace_run") and isinstance(inp, dict) and inp.get("plan") in plans:
                if inp["plan"] not in seeded_plans:
                    seeded_plans.append(inp["plan"])
        # 2. in-process flag property on generated histories
        fcases = gen_flag_cases(ctx)
        if ctx.tier == "quick":
            fcases = fcases[:120]
        kf_seen = False
        for c in fcases:
            r = flag_property(ctx, c)
            ctx.count("oracle:flag_histories")
            if r and not (r[0] == KF_KIND and kf_seen):
                ctx.fail(*r)
                kf_seen = kf_seen or r[0] == KF_KIND
        for kind, pf, pl in gen_parse_cases(ctx):
            r = parse_property(kind, pf, pl)
            ctx.count("oracle:descriptions")
            if r:
                ctx.fail("parsed_sample_depends_on_other_entries", {"parse_case": [kind, pf, pl]}, r)
                break
        seen_kinds = set()
        for kind, pf, pl, out in gen_name_cases(ctx) + [c + ("/vol/out",) for c in gen_parse_cases(ctx) if c[0] != "yaml"]:
            r = names_property(kind, pf, pl, out)
            ctx.count("oracle:descriptions_any_names")
            if r and (kind, r[0]) not in seen_kinds:            # one report per parser and failure class
                seen_kinds.add((kind, r[0]))
                ctx.fail(r[0], {"names_case": [kind, pf, pl, out]}, r[1])
        for f, t in gen_tables(ctx)[:40]:
            r = combine_property(f, t)
            ctx.count("oracle:combine_tables")
            if r:
                ctx.fail("combined_table_wrong", {"combine_case": [f, t]}, r)
                break
        # 3. the real pipeline; first the descriptions with repeated names
        check_names_plan(ctx, names_plan(ctx))
        check_shapes_plan(ctx, shapes_plan(ctx))
        order = seeded_plans + [p for p in plans if p not in seeded_plans]
        for pid in order:
            if ctx.tier == "quick" and ctx.elapsed() > 150 and pid not in seeded_plans:
                ctx.notes.append("plan %s skipped (time budget of the quick tier)" % pid)
                continue
            check_plan(ctx, plans[pid])
        ctx.extra["oracle_plans"] = order
    finally:
        LABS.cleanup()


def matches_finding(failure, entry):
    return failure["kind"] == entry.get("kind")


def replay(ctx, failure):
    inp = failure["input"]
    try:
        if "flag_case" in inp:
            return flag_property(ctx, tuple(inp["flag_case"])) is not None
        if "parse_case" in inp:
            return parse_property(*inp["parse_case"]) is not None
        if "combine_case" in inp:
            return combine_property(inp["combine_case"][0], inp["combine_case"][1]) is not None
        if "names_case" in inp:
            return names_property(*inp["names_case"]) is not None
        if "shapes_plan" in inp:
            before = len(ctx.failures)
            check_shapes_plan(ctx, shapes_plan(ctx), only=inp["shape"])
            return len(ctx.failures) > before
        if "names_plan" in inp:
            before = len(ctx.failures)
            check_names_plan(ctx, names_plan(ctx), only=(inp["given"], inp["mode"]))
            return len(ctx.failures) > before
        plan = {"id": "replay_" + str(inp.get("plan")), "world": inp["world"], "chroms": inp.get("chroms", 2), "specs": inp["specs"],
                "cfg": inp["cfg"], "orders": "all", "threads": [inp["threads"]], "yaml_orders": 0}
        before = len(ctx.failures)
        check_plan(ctx, plan, only=(inp["order"], inp["threads"], inp.get("mode", "list")))
        return len(ctx.failures) > before
    finally:
        LABS.cleanup()
