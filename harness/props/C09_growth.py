"""C09 growth (called from harness/props/C09.py): file labels -> read groups, grouped TPM values, the per-chromosome
read-group tables of several BAM files.

correspondence (model = Model/C09Labels.lean, Model/C09Tpm.lean, C10's parser of Model/Samples.lean, through the driver):
  * os.path.basename / os.path.splitext, str.split() without argument;
  * the real InputDataStorage.__init__ for --bam/--fastq [+ --labels] (dictionary in insertion order, exit codes);
  * the real get_samples_from_file on raw list files (tokenising of the lines is the model's `parseListLine`);
  * the real get_samples_from_yaml on generated YAML files (labels: strings or other scalars);
  * the real FileNameGrouper.__init__ (+ get_group_id calls) with a filled and with an empty sample dictionary;
  * the real convert_counts_to_tpm of a grouped counter on written count files (values, error on ragged rows);
  * the real split_read_group_table on samples of 2-3 BAM files with reads aligned on several chromosomes, user tables in
    four layouts (read ids starting with '#', groups that are empty / blank-padded / contain a tab), and the dictionary the
    collector of each chromosome reads back from its file (create_read_grouper -> read_map; model loadSplitTable);
  * the dump of <save>_<chr>_groups and its re-reading by --resume (the real statements of collect_reads_in_parallel).
oracle (no model): a read of file i is grouped under the documented label of file i (the label given for it, else the
  base name without its last extension), two files share a group only when their labels are equal; every grouped TPM
  column with a positive sum sums to 10^6, a zero column stays zero, ratios within a column are those of the counts;
  every read keeps its table group on every chromosome it has a BAM record on (the group of the user's table, verbatim);
  a YAML label that is not a string is a group (its printed value); the set of groups recorded for a chromosome survives
  the _groups file (names without a newline).
"""
import contextlib
import io
import json
import os
import shutil
import tempfile

import vlib
from gen import groups as G

TPM_TOL = 1e-6


def req(op, **kw):
    return "C09." + op + " " + json.dumps(kw, separators=(",", ":"))


class _NS:
    def __init__(self, **kw):
        self.__dict__.update(kw)


def _ids():
    vlib.repo_on_path()
    import logging
    logging.getLogger("IsoQuant").disabled = True
    import src.input_data_storage as IDS
    return IDS


def _rg():
    vlib.repo_on_path()
    import logging
    logging.getLogger("IsoQuant").disabled = True
    import src.read_groups as RG
    return RG


def _err(ex):
    if isinstance(ex, SystemExit):
        return {"error": "error", "exc": "exit(%s)" % ex.code}
    return {"error": "error", "exc": type(ex).__name__}


# ----------------------------------------------------------------------------------------------------------------
# generators

def path_strings(rng, quick):
    res = list(G.all_strings("a./", 6 if quick else 7))
    dirs = ["", "/d/", "/data/run.1/", "rel/", "./", "/a.b/c.d/", "/"]
    names = ["x", "sample1", "A", "b.x", "counts_C", ".hidden", "..a", "a.", "a..", "x.sorted", "x.y.z", "...", "", "é中"]
    exts = ["", ".bam", ".BAM", ".fastq.gz", ".fq", ".sam", "."]
    for _ in range(400 if quick else 4000):
        res.append(rng.choice(dirs) + rng.choice(names) + rng.choice(exts))
    return res


def bam_paths(rng, n, collide=0.3):
    """n file paths with a supported extension; base names collide with probability `collide`"""
    dirs = ["/d/", "/d2/", "rel/", "/data/run.1/", ""]
    names = ["A", "b.x", "counts_C", "d", "x.sorted", "s1", "NA"]
    exts = [".bam"]                      # check_input_type accepts lower-case extensions only
    res = []
    for _ in range(n):
        if res and rng.random() < collide:
            base = os.path.basename(rng.choice(res))
            res.append(rng.choice(dirs) + base)
        else:
            res.append(rng.choice(dirs) + rng.choice(names) + rng.choice(exts))
    return res


def cmd_cases(rng, quick):
    cases = []
    for _ in range(150 if quick else 1500):
        n = rng.randint(1, 5)
        files = bam_paths(rng, n)
        if rng.random() < 0.85:
            files = list(dict.fromkeys(files))
        r = rng.random()
        if r < 0.35:
            labels = None
        elif r < 0.4:
            labels = []
        else:
            k = len(files) if rng.random() < 0.85 else rng.randint(1, 6)
            pool = ["L1", "L2", "rep", "rep", "count_x", "NA", "", "a b"]
            labels = [rng.choice(pool) for _ in range(k)]
        cases.append({"files": files, "labels": labels, "fastq": False})
    for _ in range(30 if quick else 300):
        n = rng.randint(1, 4)
        files = [p[:-4] + rng.choice([".fastq", ".fq.gz", ".fa"]) for p in bam_paths(rng, n)]
        labels = None if rng.random() < 0.5 else ["L%d" % i for i in range(len(files))]
        cases.append({"files": files, "labels": labels, "fastq": True})
    return cases


def list_cases(rng, quick):
    cases = []
    ws = [" ", "  ", "\t", " \t "]
    for _ in range(120 if quick else 1200):
        lines = []
        pool = list(dict.fromkeys(bam_paths(rng, 16, collide=0.2)))
        rng.shuffle(pool)
        used = []

        def pick():
            if used and (rng.random() < 0.06 or not pool):
                return rng.choice(used)              # a file named twice: an error inside one experiment
            used.append(pool.pop())
            return used[-1]
        for _ in range(rng.randint(1, 9)):
            r = rng.random()
            if r < 0.18:
                lines.append("#" + rng.choice(["A", "B", "A", " E x ", "S0", "S1", "S2", ""]) + rng.choice(["", " "]))
            elif r < 0.28:
                lines.append(rng.choice(["", "   ", "\t", " \x0b "]))
            else:
                fs = [pick() for _ in range(rng.choice([1, 1, 1, 2, 3]))]
                l = rng.choice(["", " ", "\t"]) + rng.choice(ws).join(fs)
                x = rng.random()
                if x < 0.35:
                    l += rng.choice([":", " :", ": "]) + rng.choice(["lab", "rep1", "rep1", "a b", "", "x:y", "NA", "é"])
                l += rng.choice(["", " ", "\t"])
                if rng.random() < 0.04:
                    l = " #" + l.strip()            # not a header: the raw line does not start with '#'
                    if not l.endswith(".bam"):
                        l = " #x.bam"
                lines.append(l)
        cases.append({"prefix": rng.choice(["S", "OUT", "A"]), "lines": lines})
    return cases


def yaml_cases(rng, quick):
    # always present: labels that are YAML integers (`labels: [1, 2]`), alone and mixed with strings
    cases = [{"prefix": "S", "entries": [{"name": "E", "files": ["/w/a.bam", "/w/b.bam"], "labels": [1, 2]}]},
             {"prefix": "S", "entries": [{"name": "E1", "files": ["/w/a.bam"], "labels": ["rep"]},
                                         {"name": "E2", "files": ["/w/a.bam", "/w/c.x.bam", "/w/d.bam"], "labels": [10, "1", 1]}]}]
    for _ in range(100 if quick else 1000):
        entries = []
        names = ["E1", "E2", "E3", "E1", "S0", "S1"]
        for k in range(rng.randint(1, 4)):
            n = rng.randint(0, 4)
            files = bam_paths(rng, n, collide=0.2)
            files = [f if f.startswith("/") else "/w/" + f for f in files]
            if rng.random() < 0.9:
                files = list(dict.fromkeys(files))
            r = rng.random()
            if r < 0.4:
                labels = None
            else:
                m = len(files) if rng.random() < 0.9 else rng.randint(0, 4)
                pool = ["L1", "L2", "rep", "rep", "1", "count_x", "NA"] + ([1, 2, 10] if rng.random() < 0.15 else [])
                labels = [rng.choice(pool) for _ in range(m)]
            e = {"name": rng.choice(names) if rng.random() < 0.85 else None,
                 "files": files if rng.random() < 0.97 else None, "labels": labels}
            entries.append(e)
        cases.append({"prefix": rng.choice(["S", "OUT"]), "entries": entries})
    return cases


def file_mode_cases(rng, quick):
    cases = []
    for _ in range(80 if quick else 800):
        files = list(dict.fromkeys(bam_paths(rng, rng.randint(1, 4))))
        if rng.random() < 0.6:
            d = [[f, rng.choice(["L1", "L2", os.path.basename(f)[:-4]])] for f in files]
            libs = [[f] for f in files]
        else:
            d = []                                       # the fall-back branch: rebuilt from all libraries
            libs = []
            i = 0
            while i < len(files):
                k = rng.choice([1, 1, 2])
                libs.append(files[i:i + k])
                i += k
            if rng.random() < 0.2:
                libs.append([rng.choice(files), "/other/z.bam"])      # a file in two libraries: the later one wins
            if rng.random() < 0.05:
                libs.insert(rng.randrange(len(libs) + 1), [])         # IndexError
        alns = []
        for j in range(rng.randint(1, 8)):
            r = rng.random()
            f = rng.choice(files) if r < 0.8 else (None if r < 0.87 else ("" if r < 0.92 else "/unknown/u.bam"))
            alns.append({"name": "r%d" % j, "tags": [], "file": f})
        cases.append({"dict": d, "libs": libs, "alns": alns})
    return cases


def tpm_cases(rng, quick):
    cases = []
    stat = ["__ambiguous", "__no_feature", "__not_aligned", "__usable"]
    for _ in range(160 if quick else 1600):
        k = rng.randint(1, 6)
        n = rng.randint(0, 10)
        zero_cols = {j for j in range(k) if rng.random() < 0.2}
        rows = []
        for i in range(n):
            fid = "g%d" % i
            r = rng.random()
            if r < 0.04:
                fid = rng.choice(stat)
            elif r < 0.08:
                fid = "#c%d" % i
            elif r < 0.12:
                fid = rng.choice(["_x%d" % i, "__usableX", "__ambiguous_2"])
            vals = [0 if j in zero_cols else rng.choice([0, 0, 100, 50, 33, 250, 12345, rng.randint(0, 10 ** 7)]) for j in range(k)]
            if rng.random() < 0.03:
                vals = vals[:rng.randint(0, k)] if rng.random() < 0.7 else vals + [100]      # ragged row
            rows.append([fid, vals])
        cases.append({"rows": rows, "groups": ["grp%d" % j for j in range(k)],
                      "usable_norm": rng.random() < 0.4, "reads_for_tpm": rng.choice([0, 0, 5, 1000])})
    return cases


# ----------------------------------------------------------------------------------------------------------------
# real code adapters

def real_cmd(case):
    IDS = _ids()
    a = _NS(prefix="P", fastq=case["files"] if case["fastq"] else None, bam=None if case["fastq"] else case["files"],
            labels=case["labels"], illumina_bam=None, fastq_list=None, bam_list=None, read_assignments=None, yaml=None,
            output="/nonexistent/out")
    try:
        st = IDS.InputDataStorage(a)
    except (SystemExit, IndexError) as ex:
        return _err(ex), None
    s = st.samples[0]
    return [[k, v] for k, v in s.readable_names_dict.items()], st


def real_list(case, tmp):
    IDS = _ids()
    p = os.path.join(tmp, "list.txt")
    with open(p, "w", newline="") as f:
        f.write("".join(l + "\n" for l in case["lines"]))
    obj = IDS.InputDataStorage.__new__(IDS.InputDataStorage)
    obj.experiment_prefix = case["prefix"]
    obj.input_type = "bam"
    try:
        files, names, rd, _ = obj.get_samples_from_file(p)
    except (SystemExit, IndexError) as ex:
        return _err(ex)
    return [{"name": n, "libs": fl, "readable": [[k, v] for k, v in rd[n].items()]} for fl, n in zip(files, names)]


def real_yaml(case, tmp):
    import yaml
    IDS = _ids()
    doc = [{"data format": "bam"}]
    for e in case["entries"]:
        d = {}
        if e["name"] is not None:
            d["name"] = e["name"]
        if e["files"] is not None:
            d["long read files"] = e["files"]
        if e["labels"] is not None:
            d["labels"] = e["labels"]
        doc.append(d)
    p = os.path.join(tmp, "data.yaml")
    with open(p, "w") as f:
        yaml.safe_dump(doc, f)
    obj = IDS.InputDataStorage.__new__(IDS.InputDataStorage)
    obj.experiment_prefix = case["prefix"]
    obj.input_type = ""
    try:
        with contextlib.redirect_stdout(io.StringIO()):
            files, names, rd, _ = obj.get_samples_from_yaml(p)
    except (SystemExit, IndexError) as ex:
        return _err(ex)
    return [{"name": n, "libs": fl, "readable": [[k, v] for k, v in rd[n].items()]} for fl, n in zip(files, names)]


class _FakeAln:
    def __init__(self, name):
        self.query_name = name


def real_file_mode(case):
    RG = _rg()
    sample = _NS(readable_names_dict=dict(case["dict"]), file_list=[])
    args = _NS(input_data=_NS(samples=[_NS(file_list=case["libs"])]))
    try:
        g = RG.FileNameGrouper(args, sample)
        rets = [g.get_group_id(_FakeAln(a["name"]), a["file"]) for a in case["alns"]]
    except IndexError as ex:
        return _err(ex), None
    return {"names": [[k, v] for k, v in g.readable_names_dict.items()],
            "run": {"rets": rets, "groups": sorted(g.read_groups)}}, g


def write_count_file(path, groups, rows):
    with open(path, "w") as f:
        f.write("#feature_id\t%s\n" % "\t".join(groups))
        for fid, vals in rows:
            f.write("%s\t%s\n" % (fid, "\t".join("%d.%02d" % (v // 100, v % 100) for v in vals)) if vals else "%s\n" % fid)


def real_grouped_tpm(case, tmp):
    """real convert_counts_to_tpm of a grouped counter on a written count file: rows of floats, or an error"""
    vlib.repo_on_path()
    import src.long_read_counter as LC
    prefix = os.path.join(tmp, "tpmcase")
    c = LC.AssignedFeatureCounter(prefix, None, set(case["groups"]), None)
    write_count_file(c.output_counts_file_name, case["groups"], case["rows"])
    c.reads_for_tpm = case["reads_for_tpm"]
    try:
        c.convert_counts_to_tpm("usable_reads" if case["usable_norm"] else "simple")
    except (IndexError, KeyError, ValueError) as ex:
        return _err(ex)
    with open(c.output_tpm_file_name) as f:
        lines = f.read().split("\n")
    if lines and lines[-1] == "":
        lines.pop()
    res = []
    for i, l in enumerate(lines):
        # the header is the FIRST line; a feature id may itself start with '#' (a row like any other)
        if i == 0 and l.startswith("#feature_id\t"):
            continue
        p = l.split("\t")
        try:
            res.append([p[0], [float(x) for x in p[1:] if x != ""]])      # a table without value columns prints "id\t"
        except ValueError:
            # a tree that copies '#'-led feature rows into the TPM file as header lines (before fix_tpm_header) writes
            # them with group-name text replaced nowhere: keep the raw cells, the comparison fails on them
            res.append([p[0], p[1:]])
    return res


def frac(p):
    return p[0] / p[1]


def tpm_close(model_rows, real_rows):
    if len(model_rows) != len(real_rows):
        return False
    for (mf, mv), (rf, rv) in zip(model_rows, real_rows):
        if mf != rf or len(mv) != len(rv):
            return False
        for q, x in zip(mv, rv):
            e = frac(q)
            if abs(e - x) > TPM_TOL + 1e-9 * abs(e):
                return False
    return True


# ----------------------------------------------------------------------------------------------------------------
# multi-file split tables

# table layouts of `--read_group file:TABLE:READ_COL:GROUP_COL:DELIM`: (delimiter, read column, group column, line template)
SPLIT_LAYOUTS = [("\t", 0, 1, "{r}\t{g}"), ("\t", 0, 1, "{r}\t{g}\tx"), (",", 1, 0, "{g},{r},extra"), (";", 2, 1, "x;{g};{r}")]
# group texts that the user-table parser would alter when the per-chromosome file is re-read with it: blanks at the outer
# ends (a group column that is not the last / first one keeps them), the empty group, a tab inside (delimiter not a tab),
# a leading '#', unicode white space
UNCLEAN_GROUPS = ["gA", "gB ", " g C", "", "g\tD", "NA", "#g", "g\x0bE\x0b", "gA  "]


def doc_table_map(lines, delim, rc, gc):
    """the table as documented (docs/cmd.md, --read_group file:...): lines starting with '#' and blank lines are skipped,
    a row names the read in column rc and its group in column gc, a later row of the same read wins"""
    m = {}
    for line in lines:
        l = line.strip()
        if not l or l.startswith("#"):
            continue
        cols = l.split(delim)
        if len(cols) > max(rc, gc):
            m[cols[rc]] = cols[gc]
    return m


def split_case(rng, i):
    nfiles = rng.choice([1, 2, 2, 3])
    layout = rng.choice([0, 1, 2, 2, 3])
    delim, rc, gc, tmpl = SPLIT_LAYOUTS[layout]
    names = ["q%d" % j for j in range(rng.randint(2, 9))]
    # '#' is a legal first character of a BAM read name
    names = [("#" + nm if rng.random() < 0.3 else nm) for nm in names] + ["#hash"]
    files = [[] for _ in range(nfiles)]
    for nm in names:
        for _ in range(rng.choice([1, 2, 2, 3])):
            files[rng.randrange(nfiles)].append([nm, rng.choice(["chr1", "chr2"]), rng.randint(10, 2000)])
    # one read that certainly has records on both chromosomes, the chr2 record first in file order of file 0
    files[0].append(["multi", "chr2", 50])
    files[-1].append(["multi", "chr1", 60])
    groups = [g for g in UNCLEAN_GROUPS if delim not in g]
    table = [[nm, rng.choice(groups)] for nm in names + ["multi"] if nm in ("multi", "#hash") or rng.random() < 0.8]
    table.append(["ghost", "gZ"])
    lines = ["# read\tgroup"] + [tmpl.format(r=r, g=g) for r, g in table]
    return {"files": files, "lines": lines, "layout": layout, "unmapped": rng.random() < 0.5, "seed": i}


def run_split_case(case, tmp):
    """writes the BAMs and the table, runs the real split_read_group_table; returns (alignments in the order the real
    code reads them, loaded table, {chr: lines of the per-chromosome file}, {chr: {read: group by the real grouper}},
    {chr: raw text of the per-chromosome file}, {chr: read_map of the grouper create_read_grouper builds for chr})"""
    import pysam
    from gen import synth
    RG = _rg()
    d = tempfile.mkdtemp(prefix="split_", dir=tmp)
    paths = []
    for i, reads in enumerate(case["files"]):
        ds = synth.Dataset(seed=case["seed"] * 10 + i)
        ds.add_chrom("chr1", 3000)
        ds.add_chrom("chr2", 3000)
        for nm, chrom, pos in reads:
            ds.add_read(nm, chrom, pos, "100M")
        if case["unmapped"] and i == 0:
            ds.add_read("unm", None, 0, "", flag=4)
        paths.append(ds.write(d, bam_name="in%d.bam" % i, write_ref=False)["bam"])
    delim, rc, gc, _ = SPLIT_LAYOUTS[case.get("layout", 0)]
    tf = os.path.join(d, "tab.tsv")
    with open(tf, "w", newline="\n") as f:
        if "lines" in case:
            f.write("".join(l + "\n" for l in case["lines"]))
        else:                                     # replay files written before the layouts existed
            f.write("# read\tgroup\n")
            f.write("".join("%s\t%s\n" % (r, g) for r, g in case["table"]))
    sample = _NS(file_list=[[p] for p in paths], read_group_file=os.path.join(d, "rg"))
    RG.split_read_group_table(tf, sample, rc, gc, delim)
    alns = []
    for p in paths:
        with pysam.AlignmentFile(p, "rb") as bam:
            alns += [[a.query_name, a.reference_name] for a in bam]
    table = [[k, v] for k, v in RG.load_table(tf, rc, gc, delim).items()]
    real_lines, got, raw, maps = {}, {}, {}, {}
    for chrom in ("chr1", "chr2"):
        with open(os.path.join(d, "rg_" + chrom), newline="") as f:
            raw[chrom] = f.read()
        real_lines[chrom] = raw[chrom].split("\n")[:-1]
        try:
            with contextlib.redirect_stdout(io.StringIO()):
                g = RG.create_read_grouper(_NS(read_group="file:%s:%d:%d:%s" % (tf, rc, gc, delim)), sample, chrom)
        except Exception as ex:                   # the collector of this chromosome would die: reported as `abort`
            maps[chrom] = dict(_err(ex), detail="%s: %s" % (type(ex).__name__, ex))
            got[chrom] = None
            continue
        maps[chrom] = [[k, v] for k, v in g.read_map.items()]
        got[chrom] = {nm: g.get_group_id(_FakeAln(nm)) for nm, c in alns if c == chrom}
    shutil.rmtree(d, ignore_errors=True)
    return alns, table, real_lines, got, raw, maps


def check_split_case(case, tmp):
    """the property on the real code: every read keeps its table group on every chromosome it is aligned on"""
    alns, table, _, got, _, maps = run_split_case(case, tmp)
    if "lines" in case:
        delim, rc, gc, _ = SPLIT_LAYOUTS[case["layout"]]
        doc = doc_table_map(case["lines"], delim, rc, gc)
    else:
        doc = dict(case["table"])
    res = []
    for chrom, m in got.items():
        if m is None:
            return [("abort", "the read grouper of %s cannot be built from the per-chromosome table written by "
                     "split_read_group_table: %s" % (chrom, maps[chrom].get("detail")))]
        for nm, g in m.items():
            want = doc.get(nm, "NA")
            if g != want:
                res.append(("wrong_group", "read %s is grouped under %r on %s, the table says %r (its records: %s)" %
                            (nm, g, chrom, want, [c for n, c in alns if n == nm])))
                return res
    return res


def shrink_split_case(case, tmp):
    """smallest table / read set on which the failure persists (drop rows, then BAM records)"""
    if "lines" not in case:
        return case
    cur = case
    changed = True
    while changed:
        changed = False
        for i in range(1, len(cur["lines"])):
            c2 = dict(cur, lines=cur["lines"][:i] + cur["lines"][i + 1:])
            if check_split_case(c2, tmp):
                cur, changed = c2, True
                break
        if changed:
            continue
        for fi, fl in enumerate(cur["files"]):
            for i in range(len(fl)):
                if sum(len(x) for x in cur["files"]) <= 1:
                    break
                c2 = dict(cur, files=[x if k != fi else x[:i] + x[i + 1:] for k, x in enumerate(cur["files"])])
                if all(c2["files"]) and check_split_case(c2, tmp):
                    cur, changed = c2, True
                    break
            if changed:
                break
    return dict(cur, unmapped=False) if check_split_case(dict(cur, unmapped=False), tmp) else cur


def real_split_map(content, tmp):
    """read_map of the grouper that create_read_grouper builds for a per-chromosome file with the given text"""
    RG = _rg()
    d = tempfile.mkdtemp(prefix="splitmap_", dir=tmp)
    try:
        with open(os.path.join(d, "rg_chrQ"), "w", newline="") as f:
            f.write(content)
        try:
            with contextlib.redirect_stdout(io.StringIO()):
                g = RG.create_read_grouper(_NS(read_group="file:x"), _NS(read_group_file=os.path.join(d, "rg")), "chrQ")
        except (ValueError, IndexError) as ex:
            return _err(ex)
        return [[k, v] for k, v in g.read_map.items()]
    finally:
        shutil.rmtree(d, ignore_errors=True)


# ---- the `_groups` file of a chromosome (src/dataset_processor.py collect_reads_in_parallel) ---------------------------

GROUP_FILE_NAMES = ["cellA", "cell A ", " cell B", "", " ", "a\tb", "\tlead", "trail\t", "NA", "x\x0b", "\xa0nbsp", "a\rb", "cr\r",
                    " ls", "#c", "10", "é中"]


def groups_file_cases(rng, quick):
    """lists of distinct group names without a newline (BAM tag values, table entries, file labels, read id suffixes)"""
    cases = [[g] for g in GROUP_FILE_NAMES] + [[]]
    for _ in range(40 if quick else 400):
        k = rng.randint(1, 8)
        c = []
        for _ in range(k):
            if rng.random() < 0.6:
                g = rng.choice(GROUP_FILE_NAMES)
            else:
                g = "".join(rng.choice("ab \t\r\x0b\x85#_") for _ in range(rng.randint(0, 5)))
            if g not in c:
                c.append(g)
        cases.append(c)
    return cases


class _OrderedSet(dict):
    """stands for `read_grouper.read_groups` (a set) with a known iteration order"""
    def add(self, x):
        self[x] = None


_GF_CODE = {}


def _groups_file_code():
    """(dump statement, statements of the --resume branch that re-read the dump) of collect_reads_in_parallel, compiled from
    the source of the tree under test: the `with open(group_file, "w" ...)` block at function level, and — inside
    `if os.path.exists(lock_file) and args.resume:` / `if os.path.exists(group_file) and ...:` — `read_groups.clear()`
    plus every statement that mentions `group_file`"""
    import ast
    path = os.path.join(vlib.REPO, "src", "dataset_processor.py")
    if path in _GF_CODE:
        return _GF_CODE[path]
    with open(path) as f:
        tree = ast.parse(f.read())
    fn = [n for n in tree.body if isinstance(n, ast.FunctionDef) and n.name == "collect_reads_in_parallel"]
    if len(fn) != 1:
        raise RuntimeError("collect_reads_in_parallel not found in " + path)
    fn = fn[0]

    def mentions(node, name):
        return any(isinstance(n, ast.Name) and n.id == name for n in ast.walk(node))

    writer = [st for st in fn.body if isinstance(st, ast.With) and mentions(st, "group_file")]
    reader = []
    for st in fn.body:
        if isinstance(st, ast.If) and mentions(st.test, "lock_file"):
            for st2 in st.body:
                if isinstance(st2, ast.If) and mentions(st2.test, "group_file"):
                    reader = [x for x in st2.body if mentions(x, "group_file") or
                              (mentions(x, "read_grouper") and any(isinstance(n, ast.Attribute) and n.attr == "clear" for n in ast.walk(x)))]
    if len(writer) != 1 or not reader:
        raise RuntimeError("the dump / re-read statements of the _groups file were not found in collect_reads_in_parallel")
    mk = lambda body, nm: compile(ast.fix_missing_locations(ast.Module(body=body, type_ignores=[])), nm, "exec")
    _GF_CODE[path] = (mk(writer, "<groups dump>"), mk(reader, "<groups re-read>"))
    return _GF_CODE[path]


def real_groups_file(groups, tmp):
    """the real dump statement on a `read_groups` set iterated in the order `groups`, then the real re-read statements:
    {"content": text of the file, "reread": sorted re-read set}"""
    wcode, rcode = _groups_file_code()
    gf = os.path.join(tmp, "aux_chrQ_groups")
    rg = _OrderedSet()
    for g in groups:
        rg.add(g)
    ns = {"os": os, "group_file": gf, "read_grouper": _NS(read_groups=rg)}
    exec(wcode, ns)
    with open(gf, newline="") as f:
        content = f.read()
    back = _OrderedSet()
    back.add("stale")                       # the branch clears the grouper's set first
    ns = {"os": os, "group_file": gf, "read_grouper": _NS(read_groups=back)}
    exec(rcode, ns)
    os.remove(gf)
    return {"content": content, "reread": sorted(back)}


def check_groups_file(groups, tmp):
    """the property: the universe of a resumed run equals the recorded one (group names without a newline)"""
    if any("\n" in g for g in groups):
        return []
    r = real_groups_file(groups, tmp)
    if r["reread"] != sorted(groups):
        lost = sorted(set(groups) - set(r["reread"]))
        new = sorted(set(r["reread"]) - set(groups))
        return [("groups_file_roundtrip", "groups %r were recorded for a chromosome; --resume re-reads %r from the _groups "
                 "file (lost %r, invented %r): reads of a lost group raise KeyError in the counters, invented groups become "
                 "extra columns" % (sorted(groups), r["reread"], lost, new))]
    return []


# ----------------------------------------------------------------------------------------------------------------
# the property on the real code (oracle parts; no model)

def doc_label_of_path(p):
    """documented default label for a plain file name `<dir>/<name>.<ext>`: the file name without its extension"""
    name = p.rsplit("/", 1)[-1]
    return name[:name.rfind(".")]


def check_cmd_case(case):
    """file mode through the real InputDataStorage + FileNameGrouper: list of (kind, detail)"""
    files, labels = case["files"], case["labels"]
    if len(set(files)) != len(files) or (labels and len(labels) != len(files)):
        return []                              # rejected configurations (exit -1 / -2)
    RG = _rg()
    io_, st = real_cmd(case)
    if st is None:
        return [("abort", "valid --bam/--labels configuration rejected: %s" % io_)]
    g = RG.FileNameGrouper(_NS(input_data=st), st.samples[0])
    want = [labels[i] if labels else doc_label_of_path(f) for i, f in enumerate(files)]
    got = [g.get_group_id(_FakeAln("r"), f) for f in files]
    res = []
    for i, f in enumerate(files):
        if not isinstance(got[i], str):
            res.append(("group_not_string", "file %s: group %r" % (f, got[i])))
        elif got[i] != want[i]:
            res.append(("wrong_group", "reads of file %s are grouped under %r, documented label %r" % (f, got[i], want[i])))
        elif got[i] not in g.read_groups:
            res.append(("group_missing_from_universe", "label %r of %s not in read_groups" % (got[i], f)))
    for i in range(len(files)):
        for j in range(i):
            if (got[i] == got[j]) != (want[i] == want[j]):
                res.append(("wrong_group", "files %s and %s share a group: %s, their labels are equal: %s" %
                            (files[j], files[i], got[i] == got[j], want[i] == want[j])))
    return res[:1]


def check_yaml_case(case, tmp):
    """labels of a YAML entry: every file of an accepted entry is labelled by its own label; labels are strings"""
    names = [e["name"] for e in case["entries"]]
    if None in names or len(set(names)) != len(names):
        return []                                 # unnamed / renamed experiments: which entry a sample comes from is C10's subject
    r = real_yaml(case, tmp)
    if vlib.is_err(r):
        return []
    res = []
    by_name = {}
    for e in case["entries"]:
        if e["name"] is not None and e["files"]:
            by_name.setdefault(e["name"], []).append(e)
    for s in r:
        es = by_name.get(s["name"], [])
        if len(es) != 1:
            continue                              # renamed / unnamed experiments: C10's subject
        e = es[0]
        rd = dict(map(tuple, s["readable"]))
        for i, f in enumerate(e["files"]):
            # a label is the group of its file; a YAML scalar that is not a string is read as its printed value
            want = (e["labels"][i] if isinstance(e["labels"][i], str) else str(e["labels"][i])) \
                if e["labels"] is not None else doc_label_of_path(f)
            got = rd.get(f)
            if f not in rd:
                res.append(("wrong_group", "experiment %s: file %s has no label" % (s["name"], f)))
            elif not isinstance(got, str):
                res.append(("file_label_not_string", "experiment %s: file %s has the label %r (%s); get_group_id returns it "
                            "unchanged and write_string accepts only str" % (s["name"], f, got, type(got).__name__)))
            elif got != want:
                res.append(("wrong_group", "experiment %s: file %s labelled %r, documented %r" % (s["name"], f, got, want)))
    return res[:1]


def check_tpm_case(case, tmp):
    """grouped TPM values from the real code against the statement: per column sum 10^6 (or all zero), same ratios"""
    rect = all(len(v) == len(case["groups"]) for _, v in case["rows"])
    r = real_grouped_tpm(case, tmp)
    if vlib.is_err(r):
        return [("abort", "convert_counts_to_tpm raised %s on a rectangular grouped table" % r.get("exc"))] if rect else []
    if not rect:
        return []
    stat = ("__ambiguous", "__no_feature", "__not_aligned", "__usable")
    rows = []
    for fid, vals in case["rows"]:
        if fid in stat:
            break
        rows.append((fid, vals))          # every row, whatever its id starts with ('#' included)
    if [f for f, _ in rows] != [f for f, _ in r]:
        return [("tpm_rows", "TPM table rows %s, count table rows %s" % ([f for f, _ in r][:6], [f for f, _ in rows][:6]))]
    res = []
    for j in range(len(case["groups"])):
        col = [v[j] / 100.0 for _, v in rows]
        tcol = [v[j] for _, v in r]
        tot = sum(col)
        if tot > 0:
            if abs(sum(tcol) - 1e6) > 1e-6 * len(col) + 1e-3:
                res.append(("tpm_column_sum", "column %d sums to %r" % (j, sum(tcol))))
            for c, t in zip(col, tcol):
                if abs(t - c * 1e6 / tot) > 2e-6 + 1e-9 * t:
                    res.append(("tpm_value", "column %d: count %s of %s gives TPM %r" % (j, c, tot, t)))
                    break
        elif any(t != 0 for t in tcol):
            res.append(("tpm_zero_column", "column %d has no counts but TPM values %s" % (j, tcol[:5])))
    return res[:1]


def check_tpm_tables(crows, trows, k):
    """grouped count table vs grouped TPM table of a pipeline run ({feature: [text values]}): list of (kind, detail)"""
    res = []
    if set(crows) != set(trows):
        return [("tpm_rows", "TPM table and count table list different features (%d vs %d)" % (len(trows), len(crows)))]
    for j in range(k):
        tot = sum(float(v[j]) for v in crows.values())
        tsum = sum(float(v[j]) for v in trows.values())
        if tot > 0:
            if abs(tsum - 1e6) > 1e-6 * len(trows) + 1e-3:
                res.append(("tpm_column_sum", "column %d sums to %r" % (j, tsum)))
            for f, v in crows.items():
                if abs(float(trows[f][j]) - float(v[j]) * 1e6 / tot) > 2e-6 + 1e-9 * float(trows[f][j]):
                    res.append(("tpm_value", "column %d, %s: count %s of %s gives TPM %s" % (j, f, v[j], tot, trows[f][j])))
                    break
        elif tsum != 0:
            res.append(("tpm_zero_column", "column %d has no counts but a TPM sum of %r" % (j, tsum)))
    return res[:1]


# ----------------------------------------------------------------------------------------------------------------

def correspondence(ctx, tmp):
    rng = ctx.rng
    quick = ctx.tier == "quick"
    drv = ctx.driver

    def cmp(op, kw, mo, io_, nontrivial):
        ctx.evaluations += 1
        ctx.count("op:" + op)
        ctx.traces_validated += 1
        if isinstance(mo, dict) and "driver_error" in mo:
            ctx.disagree(op, kw, mo, io_)
        elif not vlib.same(mo, io_) or (vlib.is_err(mo) and mo.get("exc") != io_.get("exc")):
            ctx.disagree(op, kw, mo, io_)
        elif nontrivial:
            ctx.mark_nontrivial([op, kw])

    # 1. basename / splitext / split()
    ps = path_strings(rng, quick)
    outs = drv.run([req("stem", p=p) for p in ps])
    for p, mo in zip(ps, outs):
        b = os.path.basename(p)
        cmp("stem", {"p": p}, mo, {"base": b, "stem": os.path.splitext(b)[0]}, "." in b and b != p)
    ss = []
    for _ in range(300 if quick else 3000):
        ss.append("".join(rng.choice("ab/.: \t\x0b\x0c\x1c\x1f\x85\xa0 　") for _ in range(rng.randint(0, 14))))
    outs = drv.run([req("split_ws", s=s) for s in ss])
    for s, mo in zip(ss, outs):
        cmp("split_ws", {"s": s}, mo, s.split(), len(mo) > 1 if isinstance(mo, list) else False)
    # 2. --bam / --fastq + --labels
    cs = cmd_cases(rng, quick)
    outs = drv.run([req("labels_cmd", files=c["files"], labels=c["labels"]) for c in cs])
    for c, mo in zip(cs, outs):
        io_, _ = real_cmd(c)
        cmp("labels_cmd", c, mo, io_, not vlib.is_err(mo) and len(mo) > 1)
        ctx.count("labels_cmd:" + ("error" if vlib.is_err(mo) else ("labels" if c["labels"] else "names")))
    # 3. list files
    cs = list_cases(rng, quick)
    outs = drv.run([req("labels_list", prefix=c["prefix"], lines=c["lines"]) for c in cs])
    for c, mo in zip(cs, outs):
        io_ = real_list(c, tmp)
        ctx.evaluations += 1
        ctx.count("op:labels_list")
        ctx.traces_validated += 1
        if not vlib.same(mo, io_):
            ctx.disagree("labels_list", c, mo, io_)
        elif not vlib.is_err(mo) and any(len(s["readable"]) > 1 for s in mo):
            ctx.mark_nontrivial(["labels_list", c])
        ctx.count("labels_list:" + ("error" if vlib.is_err(mo) else "%d samples" % min(len(mo), 3)))
    # 4. YAML entries
    cs = yaml_cases(rng, quick)
    outs = drv.run([req("labels_yaml", prefix=c["prefix"],
                        entries=[{"name": e["name"], "files": e["files"], "labels": e["labels"]} for e in c["entries"]]) for c in cs])
    for c, mo in zip(cs, outs):
        io_ = real_yaml(c, tmp)
        ctx.evaluations += 1
        ctx.count("op:labels_yaml")
        ctx.traces_validated += 1
        if not vlib.same(mo, io_):
            ctx.disagree("labels_yaml", c, mo, io_)
        elif not vlib.is_err(mo) and any(len(s["readable"]) > 1 for s in mo):
            ctx.mark_nontrivial(["labels_yaml", c])
    # 5. FileNameGrouper.__init__ + get_group_id
    cs = file_mode_cases(rng, quick)
    outs = drv.run([req("file_mode", **c) for c in cs])
    for c, mo in zip(cs, outs):
        io_, _ = real_file_mode(c)
        cmp("file_mode", c, mo, io_, not vlib.is_err(mo) and any(r not in ("NA", None) for r in mo["run"]["rets"]))
        ctx.count("file_mode:" + ("dict" if c["dict"] else "fallback"))
    # 6. grouped TPM values
    cs = tpm_cases(rng, quick)
    outs = drv.run([req("grouped_tpm", rows=c["rows"], usable_norm=c["usable_norm"], reads_for_tpm=c["reads_for_tpm"]) for c in cs])
    for c, mo in zip(cs, outs):
        io_ = real_grouped_tpm(c, tmp)
        ctx.evaluations += 1
        ctx.count("op:grouped_tpm")
        ctx.traces_validated += 1
        if isinstance(mo, dict) and "driver_error" in mo:
            ctx.disagree("grouped_tpm", c, mo, io_)
        elif vlib.is_err(mo) or vlib.is_err(io_):
            ctx.count("grouped_tpm:error")
            if not (vlib.is_err(mo) and vlib.is_err(io_)):
                ctx.disagree("grouped_tpm", c, mo, io_)
        elif not tpm_close(mo, io_):
            ctx.disagree("grouped_tpm", c, mo if len(json.dumps(mo)) < 1500 else "...", io_)
        elif any(frac(q) != 0 for _, v in mo for q in v):
            ctx.mark_nontrivial(["grouped_tpm", c])
    # 7. split_read_group_table over several BAM files
    n = 4 if quick else 16
    lines, meta = [], []
    for i in range(n):
        sc = split_case(rng, rng.randrange(10 ** 5))
        alns, table, real_lines, _, raw, maps = run_split_case(sc, tmp)
        for chrom in ("chr1", "chr2"):
            lines.append(req("split_table", map=table, chr=chrom, alns=alns))
            meta.append(("split_table_multi", {"map": table, "chr": chrom, "alns": alns}, real_lines[chrom]))
            # the per-chromosome file as the collector of that chromosome reads it (create_read_grouper -> read_map)
            lines.append(req("load_split_table", content=raw[chrom]))
            meta.append(("load_split_table", {"content": raw[chrom]}, maps[chrom]))
    for content in ["", "r\tg", "r\tg\n\n", "r\n", "a\tb\tc\n#r\t \n#r\t\n", "r\tg\r\nq\t\x0bg \n"]:
        lines.append(req("load_split_table", content=content))
        meta.append(("load_split_table", {"content": content}, real_split_map(content, tmp)))
    outs = drv.run(lines)
    for (op, kw, io_), mo in zip(meta, outs):
        if vlib.is_err(mo) and vlib.is_err(io_) and mo.get("error") == io_.get("exc"):
            io_ = dict(io_, exc=mo.get("exc"))         # same exception class (the C09 driver names it in "error")
        cmp(op, kw, mo, io_, bool(mo) and not vlib.is_err(mo))
    # 8. the `_groups` file of a chromosome: the real dump statement and the real statement of the --resume branch
    gcs = groups_file_cases(rng, quick)
    outs = drv.run([req("groups_file", groups=c) for c in gcs])
    for c, mo in zip(gcs, outs):
        io_ = real_groups_file(c, tmp)
        cmp("groups_file", {"groups": c}, mo, io_, not vlib.is_err(mo) and len(mo["reread"]) > 1)


def oracle(ctx, disagreements, tmp):
    rng = ctx.rng
    quick = ctx.tier == "quick"
    n = 0
    for d in disagreements:
        inp = d["input"]
        try:
            if d["op"] == "labels_cmd":
                for kind, det in check_cmd_case(inp):
                    ctx.fail(kind, {"what": "labels_cmd", "case": inp}, det)
            elif d["op"] == "grouped_tpm":
                for kind, det in check_tpm_case(inp, tmp):
                    ctx.fail(kind, {"what": "grouped_tpm", "case": inp}, det)
        except Exception as ex:      # the oracle must survive malformed disagreement records
            ctx.notes.append("growth oracle: %s on a disagreement input" % type(ex).__name__)
    for c in cmd_cases(rng, quick):
        n += 1
        for kind, det in check_cmd_case(c):
            ctx.fail(kind, {"what": "labels_cmd", "case": c}, det)
    nfail = {}
    for c in yaml_cases(rng, quick):
        n += 1
        for kind, det in check_yaml_case(c, tmp):
            small = {"prefix": c["prefix"], "entries": [e for e in c["entries"] if e["labels"] and any(not isinstance(x, str) for x in e["labels"])][:1]} \
                if kind == "file_label_not_string" else c
            if kind == "file_label_not_string" and not any(k == kind for k, _ in check_yaml_case(small, tmp)):
                small = c
            nfail["yaml"] = nfail.get("yaml", 0) + 1
            if nfail["yaml"] <= 2:
                ctx.fail(kind, {"what": "labels_yaml", "case": small}, det)
            else:
                ctx.count("oracle:labels_yaml:further_failures")
    for c in tpm_cases(rng, quick):
        n += 1
        for kind, det in check_tpm_case(c, tmp):
            ctx.fail(kind, {"what": "grouped_tpm", "case": c}, det)
    shrunk = 0
    for i in range(6 if quick else 40):
        sc = split_case(rng, rng.randrange(10 ** 5))
        n += 1
        for kind, det in check_split_case(sc, tmp):
            if shrunk < 1:
                shrunk += 1
                sc = shrink_split_case(sc, tmp)
                det = (check_split_case(sc, tmp) or [(kind, det)])[0][1]
            nfail["split"] = nfail.get("split", 0) + 1
            if nfail["split"] <= 3:
                ctx.fail(kind, {"what": "split_table", "case": sc}, det)
            else:
                ctx.count("oracle:split_table:further_failures")
    # the `_groups` file written at the end of read collection and re-read by --resume: every group name without a
    # newline survives
    shrunk = 0
    for c in groups_file_cases(rng, quick):
        n += 1
        for kind, det in check_groups_file(c, tmp):
            if shrunk < 1:
                shrunk += 1
                for g in c:
                    if check_groups_file([g], tmp):
                        c = [g]
                        det = check_groups_file(c, tmp)[0][1]
                        break
            nfail["groups"] = nfail.get("groups", 0) + 1
            if nfail["groups"] <= 2:
                ctx.fail(kind, {"what": "groups_file", "groups": c}, det)
            else:
                ctx.count("oracle:groups_file:further_failures")
    return n


def replay(ctx, failure):
    inp = failure["input"]
    kind = failure["kind"]
    what = inp.get("what")
    tmp = tempfile.mkdtemp(prefix="isoverif_c09g_")
    try:
        if what == "labels_cmd":
            return any(k == kind for k, _ in check_cmd_case(inp["case"]))
        if what == "labels_yaml":
            return any(k == kind for k, _ in check_yaml_case(inp["case"], tmp))
        if what == "grouped_tpm":
            return any(k == kind for k, _ in check_tpm_case(inp["case"], tmp))
        if what == "split_table":
            return any(k == kind for k, _ in check_split_case(inp["case"], tmp))
        if what == "groups_file":
            return any(k == kind for k, _ in check_groups_file(inp["groups"], tmp))
    finally:
        shutil.rmtree(tmp, ignore_errors=True)
    return None
