"""C05 (growth c05x) - file-name arithmetic between the chromosome tasks and the merge; reference-sequence names as parts of
auxiliary file names (model: lean/IsoVerif/Model/PartNames.lean, driver prefix `C05N.`, theorems: Props/C05Names.lean).

audit2-A F1 / audit2-B defect 13: `merge_file_list` replaced the LAST occurrence of the output prefix in the whole path
(`rreplace`), so a prefix / experiment name that occurs inside one of IsoQuant's own file suffixes (`a`, `t`, `e`, `reads`,
`gene`, `counts`, `S` with the SQANTI-like tables) made `merge_files` look for files nobody wrote: exit code 255 after all the
work, nothing merged.  The model describes the REPAIRED tree (fix_prefix_in_suffix.patch); `merge_file_list_orig` is the tree
before.  audit2-A F4 / audit2-B defect 14: `check_chromosome_file_names` (fix_chromosome_file_names.patch) refuses sequence names
with a path separator and sets of names whose auxiliary files coincide.

Called from harness/props/C05.py (correspondence / oracle / replay, failure level `names`).
"""
import os

import vlib

ALPHA = "ab._/S1"
SUFFIX_ATTRS = ["out_assigned_tsv", "out_corrected_bed", "out_alt_tsv", "out_gene_counts_tsv", "out_transcript_counts_tsv",
                "out_transcript_model_counts_tsv", "out_transcript_model_grouped_counts_tsv", "out_exon_counts_tsv",
                "out_intron_counts_tsv", "out_gene_grouped_counts_tsv", "out_transcript_grouped_counts_tsv",
                "out_exon_grouped_counts_tsv", "out_intron_grouped_counts_tsv", "out_t2t_tsv"]
# what the printers / counters append to the SampleData attributes (transcript_printer.GFFPrinter, long_read_counter)
TAILS = ["", "_counts.tsv", "_counts.tsv.stats", "_counts_linear.tsv", "_tpm.tsv"]
GFF_SUFFIXES = [".transcript_models.gtf", ".transcript_model_reads.tsv", ".extended_annotation.gtf"]
LABELS = ["S", "a", "t", "e", "reads", "gene", "counts", "Q7x", "x.y", "tsv", "model", "_", "s_", "transcript_models", "."]
CHRS = ["chr1", "chr2", "chr10", "a", "reads", "S", "c_1", "x.gene", "1", "chrUn_KI270442v1", "#c", "HLA-A*01:01"]
DIRS = ["/tmp/o u t/%s", "out/%s", "/o/reads/%s", "./%s", "/a.b/c_d/%s"]


def _impl():
    vlib.repo_on_path()
    import warnings
    with warnings.catch_warnings():
        warnings.simplefilter("ignore")
        import src.common as CM
        import src.file_utils as FU
        import src.input_data_storage as IDS
        import src.dataset_processor as DP
    return CM, FU, IDS, DP


def rand_str(rng, lo=0, hi=7, alpha=ALPHA):
    return "".join(rng.choice(alpha) for _ in range(rng.randint(lo, hi)))


def impl_rreplace(CM, kw):
    try:
        return CM.rreplace(kw["s"], kw["old"], kw["new"])
    except ValueError:
        return {"error": "ValueError"}


def impl_mfl(FU, kw):
    try:
        return FU.merge_file_list(kw["fname"], kw["label"], kw["chr_ids"])
    except ValueError:
        return {"error": "ValueError"}


def sample_files(IDS, label, out_dir):
    """every final output file name of an experiment called `label`: SampleData attributes x the tails the counters append,
    plus the GFF printer names"""
    smp = IDS.SampleData([], label, out_dir, {}, None)
    names = []
    for a in SUFFIX_ATTRS:
        base = getattr(smp, a)
        if a.endswith("_counts_tsv"):
            names += [base + t for t in TAILS[1:]]
        else:
            names.append(base)
    names += [os.path.join(out_dir, label + s) for s in GFF_SUFFIXES]
    return names


def name_cases(rng, n):
    cases = []
    for label in LABELS:
        for d in DIRS[:2]:
            cases.append({"label": label, "dir": d % label, "chr_ids": CHRS[:4] + [label]})
    while len(cases) < n:
        label = rng.choice(LABELS) if rng.random() < 0.7 else rand_str(rng, 1, 4, "ab.S_t")
        cases.append({"label": label, "dir": rng.choice(DIRS) % label, "chr_ids": rng.sample(CHRS, rng.randint(1, 4))})
    return cases


def correspondence(ctx):
    CM, FU, IDS, DP = _impl()
    rng = ctx.rng
    quick = ctx.tier == "quick"
    D = ctx.driver
    # 1. rreplace, posixpath.split / join on strings over a small alphabet (occurrences, overlaps, empty strings)
    rr = []
    for _ in range(400 if quick else 4000):
        old = rand_str(rng, 0 if rng.random() < 0.05 else 1, 3)
        s = rand_str(rng, 0, 4) + (old if rng.random() < 0.7 else "") + rand_str(rng, 0, 4) + (old if rng.random() < 0.4 else "") + rand_str(rng, 0, 3)
        rr.append({"s": s, "old": old, "new": rand_str(rng, 0, 3)})
    outs = D.run([vlib.req("C05N.rreplace", **kw) for kw in rr])
    for kw, mo in zip(rr, outs):
        ctx.evaluations += 1
        ctx.traces_validated += 1
        ctx.count("op:names_rreplace")
        io = impl_rreplace(CM, kw)
        if not vlib.same(mo, io):
            ctx.disagree("names_rreplace", kw, mo, io)
        elif isinstance(io, str) and io != kw["s"]:
            ctx.mark_nontrivial(["names_rreplace", kw])
    ps = [rand_str(rng, 0, 9, "ab/./") for _ in range(300 if quick else 3000)]
    outs = D.run([vlib.req("C05N.path_split", p=p) for p in ps] +
                 [vlib.req("C05N.path_join", a=ps[i], b=ps[i + 1]) for i in range(len(ps) - 1)])
    for i, mo in enumerate(outs):
        ctx.evaluations += 1
        ctx.traces_validated += 1
        if i < len(ps):
            ctx.count("op:names_path_split")
            io = list(os.path.split(ps[i]))
            if mo != io:
                ctx.disagree("names_path_split", {"p": ps[i]}, mo, io)
            elif io[0] and io[1]:
                ctx.mark_nontrivial(["names_path_split", ps[i]])
        else:
            j = i - len(ps)
            ctx.count("op:names_path_join")
            io = os.path.join(ps[j], ps[j + 1])
            if mo != io:
                ctx.disagree("names_path_join", {"a": ps[j], "b": ps[j + 1]}, mo, io)
            elif ps[j] and ps[j + 1]:
                ctx.mark_nontrivial(["names_path_join", ps[j], ps[j + 1]])
    # 2. merge_file_list on every output file name the real SampleData / printers build, prefixes from the pool
    reqs, kws = [], []
    for c in name_cases(rng, 60 if quick else 400):
        for fname in sample_files(IDS, c["label"], c["dir"]):
            kws.append({"fname": fname, "label": c["label"], "chr_ids": c["chr_ids"]})
    # + names that do not have the <dir>/<label><suffix> shape (the fall-back branch) and an empty label
    for _ in range(100 if quick else 1000):
        kws.append({"fname": rand_str(rng, 1, 10, "ab/._S"), "label": rand_str(rng, 0 if rng.random() < 0.1 else 1, 2, "abS."),
                    "chr_ids": [rand_str(rng, 1, 3, "ab1_")]})
    outs = D.run([vlib.req("C05N.merge_file_list", **kw) for kw in kws])
    for kw, mo in zip(kws, outs):
        ctx.evaluations += 1
        ctx.traces_validated += 1
        ctx.count("op:names_merge_file_list")
        io = impl_mfl(FU, kw)
        if not vlib.same(mo, io):
            ctx.disagree("names_merge_file_list", kw, mo, io)
        elif isinstance(io, list) and io:
            ctx.mark_nontrivial(["names_merge_file_list", kw["fname"], kw["label"]])
            if kw["label"] and kw["label"] in os.path.basename(kw["fname"])[1:]:
                ctx.count("names:label_occurs_again_in_file_name")
    # 3. the start-up check of the reference sequence names
    sets = aux_sets(rng, 60 if quick else 600)
    outs = D.run([vlib.req("C05N.aux_check", chr_ids=s) for s in sets])
    for s, mo in zip(sets, outs):
        ctx.evaluations += 1
        ctx.traces_validated += 1
        ctx.count("op:names_aux_check")
        io = impl_aux_check(DP, s)
        if mo != io:
            ctx.disagree("names_aux_check", {"chr_ids": s}, mo, io)
        elif io is True and len(s) > 1:
            ctx.mark_nontrivial(["names_aux_check", s])
        elif io is False:
            ctx.count("names:aux_check_refuses")


AUX_FIXED = [["chr2", "chr2_bamstat"], ["chr1", "chr1_groups"], ["c/1"], ["info", "chr1"], ["chr1", "lock"],
             ["multimappers_chr1", "chr1"], ["X", "X_collected"], ["X_processed", "X"], ["a", "a_read_stat"],
             ["a_transcript_stat", "a"], ["chr1", "chr2", "chr10"], ["chr1_KI270706v1_random", "chr1"], ["X", "X_bam"],
             ["multimappers", "groups"], ["multimappers", "multimappers_multimappers"]]


def aux_sets(rng, n):
    sets = [list(s) for s in AUX_FIXED]
    tails = ["", "_groups", "_bamstat", "_collected", "_processed", "_read_stat", "_transcript_stat", "_x"]
    while len(sets) < n:
        base = [rng.choice(["chr1", "X", "c", "info", "lock", "multimappers", "m/1", "groups"]) for _ in range(rng.randint(1, 3))]
        names = []
        for b in base:
            nm = b + rng.choice(tails) if rng.random() < 0.6 else ("multimappers_" + b if rng.random() < 0.3 else b)
            if nm not in names:
                names.append(nm)
        sets.append(names)
    return sets


def impl_aux_check(DP, chr_ids):
    """True = accepted, False = refused with a message (SystemExit), 'absent' = the tree has no such check"""
    fn = getattr(DP, "check_chromosome_file_names", None)
    if fn is None:
        return "absent"
    import logging
    lg = logging.getLogger("IsoQuant")
    old = lg.level
    lg.setLevel(logging.CRITICAL + 1)
    try:
        fn(list(chr_ids))
        return True
    except SystemExit:
        return False
    finally:
        lg.setLevel(old)


def property_failure(case):
    """THE PROPERTY on the real code: for every final output file of an experiment called `label`, the part file that
    `merge_file_list` names for chromosome c is the file the task of c writes (SampleData with the prefix <label>_<c>, same
    out_dir) - otherwise merge_files reads nothing / raises and no read of c reaches the outputs"""
    CM, FU, IDS, DP = _impl()
    label, d = case["label"], case["dir"]
    finals = sample_files(IDS, label, d)
    for c in case["chr_ids"]:
        written = sample_files(IDS, "%s_%s" % (label, c), d)
        for f, w in zip(finals, written):
            try:
                got = FU.merge_file_list(f, label, [c])
            except ValueError as ex:
                got = ["ValueError: %s" % ex]
            if got != [w]:
                return ("part_file_name_mismatch", "-p %s, sequence %s: the task writes %s, merge_files looks for %s" % (label, c, w, got[0]))
    return None


def oracle(ctx, disagreements=None):
    rng = ctx.rng
    seen = set()
    given = [d["input"] for d in (disagreements or []) if d.get("op") == "names_merge_file_list" and isinstance(d.get("input"), dict)]
    cases = [{"label": g["label"], "dir": os.path.dirname(g["fname"]) or ".", "chr_ids": g["chr_ids"]} for g in given[:20] if g.get("label")]
    cases += name_cases(rng, 80 if ctx.tier == "quick" else 800)
    for c in cases:
        if "/" in c["label"] or any("/" in x for x in c["chr_ids"]):
            continue     # a path separator in the prefix / sequence name: another file, refused at start-up (aux_check)
        ctx.count("oracle_names_cases")
        r = property_failure(c)
        if r and c["label"] not in seen:
            seen.add(c["label"])
            if len(seen) <= 3:
                ctx.fail(r[0], {"level": "names", "case": c}, r[1])


def replay(ctx, failure):
    return property_failure(failure["input"]["case"]) is not None
