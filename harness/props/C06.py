"""C06 — outputs do not depend on threads, hash seed, memory mode or repetition."""
import inspect
import io
import json
import os
import shutil
import subprocess
import sys
import tempfile
from concurrent.futures import ThreadPoolExecutor

import vlib
import pipeline
from gen import c06data

ID = "C06"
PROPS = ["IsoVerif/Props/C06.lean", "IsoVerif/Props/C06Inventory.lean", "IsoVerif/Props/C06Ids.lean", "IsoVerif/Props/C06Merge.lean",
         "IsoVerif/Props/C06Memory.lean"]
TARGETS = ["IsoVerif.Props.C06", "IsoVerif.Props.C06Inventory", "IsoVerif.Props.C06Ids", "IsoVerif.Props.C06Merge",
           "IsoVerif.Props.C06Memory"]
GEN_DEPS = ["SharedState", "SetSites"]
LEVEL = "proof"
RULE = ("merge_files on random ASCII chromosome-name lists (case variants, leading zeros, digit runs, missing parts, headers); "
        "ReadAssignmentLoader.get_next on random multimapper tables incl. injective renumberings of the assignment ids; "
        "set-iteration sites evaluated by the real functions in sub-processes under several PYTHONHASHSEED values; "
        "worker/task traces of real pipeline runs (threads 1,2,3) replayed through the schedule model; "
        "a case is non-trivial when the model value is not empty/error and model == implementation; distinct by (op, input)")
TRUSTED = [
    "Gen/SharedState.lean, Gen/SetSites.lean: AST inventories (heuristic recognition of set-typed expressions; see docs/C06.md)",
    "harness/c06_wrapper.py records worker/task traces by monkeypatching in the wrapper process (no /repo edit)",
    "ProcessPoolExecutor: fork start method, pool.map returns results in submission order, a task runs in exactly one worker",
    "CPython: str hashes depend on PYTHONHASHSEED, int / tuple-of-int hashes do not; dict preserves insertion order; list.sort is stable",
]
ASSUMPTIONS = [
    "chromosome names and output prefixes are ASCII (str.lower / isdigit / \\d of the natural sort key are modelled for ASCII)",
    "the part-file names are those of the repaired merge_file_list (fix_prefix_in_suffix: the label the base name starts with; "
    "Props/C05Names.lean part_name_is_written_name) - the prefix may occur anywhere else in the path",
    ".gz outputs (IsoQuant's default mode; option sets GZ_OPTSETS) are compared decompressed: the command-line header and the "
    "gzip time stamp are inside the compressed stream",
    "files kept only by --keep_tmp (<prefix>/aux/*) are intermediate files, not output files: the `_groups` / `_info` "
    "dumps list read groups in set order and are consumed through set()/sorted() only",
    "a reference transcript id belongs to one chromosome (gffutils primary key) - only needed for the pre-42b6bc8 model",
]

PREFIX = "Q7x"
# option sets run in IsoQuant's default output mode (no --no_gzip): audit2-B GAP C06-2
GZ_OPTSETS = {"grouped", "plain"}
# matrices whose input the repaired tree refuses at start-up (exit code 254, message, no traceback) in EVERY configuration
EXPECT_REFUSAL = {"aux_file_names"}

OPTSETS = {
    "grouped": ["--count_exons", "--read_group", "read_id:_", "--sqanti_output", "--check_canonical"],
    "plain": [],
    "linear": ["--report_novel_unspliced", "true", "--count_exons", "--read_group", "read_id:_", "--counts_format", "linear"],
    "nomodel": ["--no_model_construction", "--read_group", "read_id:_", "--transcript_quantification", "all",
                "--gene_quantification", "all"],
    "all": ["--model_construction_strategy", "all", "--report_canonical", "all", "--polya_requirement", "never",
            "--transcript_quantification", "with_ambiguous"],
    "nogenedb": [],
}


# ------------------------------------------------------------------------------------------------
# real pipeline runs

def run_config(base, paths, idx, cfg, optset, trace=False, timeout=900):
    """cfg = dict(threads, hashseed, high_memory, keep_tmp).  Returns (rc, {file: text without header lines}, log, trace records)"""
    out = os.path.join(base, "out%d" % idx)
    shutil.rmtree(out, ignore_errors=True)
    extra = list(OPTSETS[optset])
    if cfg.get("high_memory"):
        extra.append("--high_memory")
    if cfg.get("keep_tmp"):
        extra.append("--keep_tmp")
    env = {"PYTHONHASHSEED": cfg.get("hashseed", 0), "VERIF_REPO": vlib.REPO}
    wrapper = None
    tr = os.path.join(base, "trace%d.jsonl" % idx)
    if trace:
        env.update({vlib.GUARD: "1", "ABLAB_ISOQUANT_TRACE": tr})
        wrapper = os.path.join(vlib.HERE, "c06_wrapper.py")
        if os.path.exists(tr):
            os.remove(tr)
    prefix = cfg.get("prefix", PREFIX)
    rc, log = pipeline.run_isoquant(out, pipeline.std_args(paths, prefix=prefix, threads=cfg.get("threads", 1),
                                                           genedb=(optset != "nogenedb"), extra=extra,
                                                           gzipped=(optset in GZ_OPTSETS and not trace)),
                                    home=os.path.join(base, "home%d" % idx), env=env, wrapper=wrapper, timeout=timeout)
    files = {}
    for fn, p in pipeline.out_files(out, prefix).items():
        # .gz outputs (default mode) are compared decompressed: the command-line header that the statement lets us ignore
        # and the gzip time stamp are both inside the compressed stream (reading rule, docs/C06.md)
        files[fn] = pipeline.strip_cmdline(pipeline.read_text(p))
    recs = []
    if trace and os.path.exists(tr):
        with open(tr) as f:
            recs = [json.loads(l) for l in f if l.strip()]
    shutil.rmtree(out, ignore_errors=True)
    return rc, files, log, recs


def diff_files(a, b):
    """-> list of (file, detail) for files that differ or exist on one side only"""
    res = []
    for fn in sorted(set(a) | set(b)):
        x, y = a.get(fn), b.get(fn)
        if x == y:
            continue
        if x is None or y is None:
            res.append((fn, "only in %s run" % ("second" if x is None else "first")))
            continue
        lx, ly = x.split("\n"), y.split("\n")
        first = next(((i, p, q) for i, (p, q) in enumerate(zip(lx, ly)) if p != q), None)
        if first is None:
            res.append((fn, "line counts %d vs %d" % (len(lx), len(ly))))
        else:
            res.append((fn, "line %d: %r vs %r" % (first[0] + 1, first[1][:200], first[2][:200])))
    return res


def cfg_axes(ref, cfg):
    ax = [k for k in ("threads", "hashseed", "high_memory", "keep_tmp") if ref.get(k) != cfg.get(k)]
    return ax or ["repetition"]


def make_configs(rng, tier, broken):
    ref = {"threads": 1, "hashseed": 0, "high_memory": False, "keep_tmp": False}
    seeds = lambda: rng.randint(1, 4294967295)
    cfgs = [ref,
            {"threads": 2, "hashseed": seeds(), "high_memory": False, "keep_tmp": False},
            {"threads": 3, "hashseed": seeds(), "high_memory": True, "keep_tmp": False},
            {"threads": 16, "hashseed": seeds(), "high_memory": False, "keep_tmp": True},
            {"threads": 1, "hashseed": seeds(), "high_memory": True, "keep_tmp": True},
            dict(ref),                                                        # repetition
            {"threads": 3, "hashseed": 0, "high_memory": False, "keep_tmp": False},   # threads only
            {"threads": 1, "hashseed": seeds(), "high_memory": False, "keep_tmp": False},   # hash seed only
            {"threads": 1, "hashseed": 0, "high_memory": True, "keep_tmp": False},          # memory mode only
            {"threads": 1, "hashseed": 0, "high_memory": False, "keep_tmp": True},          # keep_tmp only
            ]
    if tier == "thorough" or broken:
        for t in (2, 3, 16):
            for hm in (False, True):
                cfgs.append({"threads": t, "hashseed": seeds(), "high_memory": hm, "keep_tmp": rng.random() < 0.5})
        cfgs.append({"threads": 16, "hashseed": 0, "high_memory": False, "keep_tmp": False})
        cfgs.append({"threads": 2, "hashseed": 0, "high_memory": False, "keep_tmp": False})
    return cfgs


def pipeline_matrix(ctx, data_seed, optset, cfgs, n_chroms=3, workers=6, label="matrix", chrom_names=None):
    """runs all configurations on one synthetic dataset; reports every difference to the first configuration"""
    import random
    base = tempfile.mkdtemp(prefix="isoverif_c06_")
    try:
        ds = c06data.build(random.Random(data_seed), n_chroms=n_chroms, chrom_names=chrom_names)
        paths = ds.write(os.path.join(base, "data"))
        with ThreadPoolExecutor(workers) as ex:
            res = list(ex.map(lambda ic: run_config(base, paths, ic[0], ic[1], optset), enumerate(cfgs)))
        ref_rc, ref_files, ref_log, _ = res[0]
        ctx.count("pipeline_runs", len(res))
        ctx.count("optset:" + optset, len(res))
        if ref_rc != 0 or not ref_files:
            # audit2-B GAP C06-3: the exit status is an output as well - a reference configuration that fails is no
            # excuse for the others; they must fail the same way
            ctx.count("pipeline_reference_failed")
            differs = 0
            for cfg, (rc, files, log, _) in zip(cfgs[1:], res[1:]):
                if rc != ref_rc:
                    differs += 1
                    inp = {"data_seed": data_seed, "n_chroms": n_chroms, "optset": optset, "ref": cfgs[0], "cfg": cfg}
                    if chrom_names:
                        inp["chrom_names"] = list(chrom_names)
                    ctx.fail("exit_status_differs:" + "+".join(cfg_axes(cfgs[0], cfg)), inp,
                             "rc %s vs %s: %s || %s" % (ref_rc, rc, ref_log[-300:], log[-300:]))
                else:
                    ctx.count("configs_equal_exit_status_nonzero")
            refused = ref_rc == 254 and "Traceback" not in ref_log
            if not (refused and label in EXPECT_REFUSAL):
                ctx.notes.append("reference pipeline run failed (rc=%s) for data_seed=%s optset=%s: %s" % (ref_rc, data_seed, optset, ref_log[-400:]))
            else:
                ctx.count("pipeline_reference_refused_at_startup:" + label)
            return len(res)
        nbytes = sum(len(v) for v in ref_files.values())
        for cfg, (rc, files, log, _) in zip(cfgs[1:], res[1:]):
            axes = cfg_axes(cfgs[0], cfg)
            inp = {"data_seed": data_seed, "n_chroms": n_chroms, "optset": optset, "ref": cfgs[0], "cfg": cfg}
            if chrom_names:
                inp["chrom_names"] = list(chrom_names)
            if rc != ref_rc:
                ctx.fail("exit_status_differs:" + "+".join(axes), inp, "rc %s vs %s: %s" % (ref_rc, rc, log[-600:]))
                continue
            d = diff_files(ref_files, files)
            if d:
                ctx.fail("output_differs:" + "+".join(axes), inp,
                         {"files": [x[0] for x in d][:12], "first": d[0][1]})
            else:
                ctx.count("configs_equal")
                for a in axes:
                    ctx.count("axis_equal:" + a)
        ctx.extra.setdefault("pipeline_datasets", []).append(
            {"data_seed": data_seed, "optset": optset, "configs": len(cfgs), "files": len(ref_files), "bytes": nbytes,
             "meta": ds.meta})
        return len(res)
    finally:
        shutil.rmtree(base, ignore_errors=True)


# ------------------------------------------------------------------------------------------------
# correspondence A: merge_files / natural sort key

NAME_ALPHA = "chrCHRxXyYmMt_.-0123456789ab"


def rand_chr_names(rng):
    n = rng.randint(1, 7)
    names = []
    style = rng.random()
    while len(names) < n:
        if style < 0.4:
            # "#": a contig name may start with '#' (legal first character of a reference name in the SAM specification)
            nm = rng.choice(["chr", "Chr", "CHR", "", "scaffold_", "chr0", "#", "#c"]) + rng.choice(
                ["1", "2", "10", "11", "02", "X", "Y", "M", "MT", "1_random", "Un_gl000220", "2L", "2R", "10a", "010"])
        else:
            nm = "".join(rng.choice(NAME_ALPHA) for _ in range(rng.randint(1, 8)))
        if nm and nm not in names and "/" not in nm and nm not in (".", ".."):
            names.append(nm)
    return names


def merge_case(rng):
    chr_ids = rand_chr_names(rng)
    # labels that occur inside the suffix / the chromosome names as well (audit2-B defect 13: the part names must not depend on it)
    label = rng.choice(["Q7x", "smp9", "A_b", "a", "t", "reads", "gene", "S", "e", "_", "chr"])
    suffix = rng.choice([".transcript_models.gtf", ".gene_counts.tsv", ".read_assignments.tsv", "_7.bed",
                         ".novel_vs_known.SQANTI-like.tsv", ".corrected_reads.bed"])
    copy_header = rng.random() < 0.5
    header_lines = rng.choice([0, 0, 1, 1, 3])
    contents = []
    for c in chr_ids:
        if rng.random() < 0.15:
            contents.append(None)
            continue
        # every part of one merge is written by the same printer: the same number of header lines (the caller of
        # merge_files passes it); the RECORDS start with the contig name / a read id, which may begin with '#'
        hdr = ["#hdr %s %d" % (c, i) for i in range(header_lines)]
        first = rng.choice([c, c, "#read7", "#"]) if rng.random() < 0.3 else c
        body = ["%s\t%d" % (first if i == 0 else c, i) for i in range(rng.randint(0, 3))]
        if rng.random() < 0.1:
            body.insert(1 if body else 0, "#late comment " + c)
        contents.append(hdr + body)
    return {"chr_ids": chr_ids, "label": label, "suffix": suffix, "copy_header": copy_header, "contents": contents,
            "header_lines": header_lines}


def impl_merge(case, d):
    vlib.repo_on_path()
    import warnings
    with warnings.catch_warnings():
        warnings.simplefilter("ignore")
        from src.file_utils import merge_files, merge_file_list
    fname = os.path.join(d, case["label"] + case["suffix"])
    names = merge_file_list(fname, case["label"], case["chr_ids"])
    for n, c in zip(names, case["contents"]):
        if c is not None:
            with open(n, "w") as f:
                f.write("".join(l + "\n" for l in c))
    buf = io.StringIO()
    # merge_files removes every part unconditionally: a missing part raises FileNotFoundError *after* the merge
    err = None
    try:
        if "header_lines" in inspect.signature(merge_files).parameters:
            merge_files(fname, case["label"], case["chr_ids"], buf, copy_header=case["copy_header"],
                        header_lines=case["header_lines"])
        else:
            # a tree whose merge_files finds the header lines by content (before the repair fix_merge_header)
            merge_files(fname, case["label"], case["chr_ids"], buf, copy_header=case["copy_header"])
    except FileNotFoundError:
        err = "FileNotFoundError"
    for n in names:
        if os.path.exists(n):
            os.remove(n)
    lines = buf.getvalue().split("\n")
    if lines and lines[-1] == "":
        lines.pop()
    return names, lines, err


def corr_merge(ctx, n):
    d = tempfile.mkdtemp(prefix="isoverif_c06m_")
    try:
        cases, reqs, impls = [], [], []
        for _ in range(n):
            case = merge_case(ctx.rng)
            names, lines, err = impl_merge(case, d)
            cases.append(case)
            impls.append((names, lines, err))
            reqs.append(vlib.req("C06.merge_files", names=names, files=case["contents"], copy_header=case["copy_header"],
                                 header_lines=case["header_lines"]))
            reqs.append(vlib.req("C06.part_name", pre=os.path.join(d, ""), label=case["label"], suf=case["suffix"], chr=case["chr_ids"][0]))
        outs = ctx.driver.run(reqs)
        for i, case in enumerate(cases):
            mo, pn = outs[2 * i], outs[2 * i + 1]
            names, lines, err = impls[i]
            ctx.evaluations += 2
            ctx.traces_validated += 2
            ctx.count("op:merge_files")
            ctx.count("merge_parts:%d" % len(names))
            if mo != lines:
                ctx.disagree("merge_files", case, mo, lines)
            elif len([c for c in case["contents"] if c]) >= 2:
                ctx.mark_nontrivial(["merge_files", case])
            if pn != names[0]:
                ctx.disagree("part_name", {"label": case["label"], "suffix": case["suffix"], "chr": case["chr_ids"][0]}, pn, names[0])
            if i < 2:
                ctx.sample({"op": "merge_files", "input": case, "model": mo, "impl": lines})
    finally:
        shutil.rmtree(d, ignore_errors=True)


# ------------------------------------------------------------------------------------------------
# correspondence B: ReadAssignmentLoader.get_next (assignment-id matching)

class _FakeUnpickler:
    """feeds ReadAssignmentLoader.get_next with one gene block of read assignments"""

    def __init__(self, objs):
        self.objs = list(objs)      # ("gene", x) | ("read", x)
        self.i = 0
        # as NormalTmpFileAssignmentLoader without a reference: ReadAssignmentLoader.get_next reads it (fix f48e223)
        self.chr_record = None

    def has_next(self):
        return self.i < len(self.objs)

    def is_gene_info(self):
        return self.has_next() and self.objs[self.i][0] == "gene"

    def is_read_assignment(self):
        return self.has_next() and self.objs[self.i][0] == "read"

    def get_object(self):
        o = self.objs[self.i][1]
        self.i += 1
        return o


def loader_case(rng):
    chr_id = rng.choice(["chr1", "chr2"])
    nreads = rng.randint(1, 6)
    reads = []
    aid = rng.randint(0, 50)
    for i in range(nreads):
        aid += rng.randint(1, 3)
        reads.append({"aid": aid, "id": "r%d" % rng.randint(0, 3), "p": rng.randint(0, 9)})
    mm = []
    for r in reads:
        if rng.random() < 0.6:
            for _ in range(rng.randint(1, 3)):
                mm.append({"id": r["id"], "chr": rng.choice([chr_id, chr_id, "chr9"]),
                           "aid": rng.choice([r["aid"], r["aid"], rng.randint(0, 60)]),
                           "v": rng.choice([None, rng.randint(10, 19), rng.randint(10, 19)])})
    rng.shuffle(mm)
    return {"chr": chr_id, "reads": reads, "mm": mm}


def impl_loader(case):
    vlib.repo_on_path()
    from collections import defaultdict
    from types import SimpleNamespace
    import src.dataset_processor as DP
    from src.isoform_assignment import ReadAssignmentType
    ld = object.__new__(DP.ReadAssignmentLoader)
    objs = [("gene", "G")]
    for r in case["reads"]:
        objs.append(("read", SimpleNamespace(read_id=r["id"], assignment_id=r["aid"], chr_id=case["chr"], payload=r["p"],
                                             assignment_type=ReadAssignmentType.unique, gene_assignment_type=ReadAssignmentType.unique,
                                             multimapper=False)))
    ld.unpickler = _FakeUnpickler(objs)
    table = defaultdict(list)
    for a in case["mm"]:
        # the verdict travels in `multimapper` (copied verbatim by the loader); suspended records carry the enum
        table[a["id"]].append(SimpleNamespace(read_id=a["id"], chr_id=a["chr"], assignment_id=a["aid"], gene_id="g",
                                              assignment_type=ReadAssignmentType.suspended if a["v"] is None else ReadAssignmentType.ambiguous,
                                              gene_assignment_type=ReadAssignmentType.ambiguous, multimapper=a["v"]))
    ld.multimapped_chr_dict = table
    import logging
    logging.getLogger('IsoQuant').setLevel(logging.CRITICAL)
    _, storage = ld.get_next()
    res = []
    for ra in storage:
        p = ra.payload if ra.multimapper is False else ra.multimapper
        res.append({"id": ra.read_id, "p": p})
    return res


def renumber(case, g):
    c = json.loads(json.dumps(case))
    for r in c["reads"]:
        r["aid"] = g(r["aid"])
    for a in c["mm"]:
        a["aid"] = g(a["aid"])
    return c


def corr_loader(ctx, n):
    cases = [loader_case(ctx.rng) for _ in range(n)]
    outs = ctx.driver.run([vlib.req("C06.loader_match", **c) for c in cases])
    for c, mo in zip(cases, outs):
        io_ = impl_loader(c)
        ctx.evaluations += 1
        ctx.traces_validated += 1
        ctx.count("op:loader_match")
        if mo != io_:
            ctx.disagree("loader_match", c, mo, io_)
        elif c["mm"] and mo:
            ctx.mark_nontrivial(["loader_match", c])
    if cases:
        ctx.sample({"op": "loader_match", "input": cases[0], "model": outs[0]})


def oracle_loader(ctx, n):
    """property on the real loader: the kept reads do not change under an injective renumbering of the assignment ids"""
    for _ in range(n):
        c = loader_case(ctx.rng)
        k, m = ctx.rng.randint(1, 10 ** 6), ctx.rng.choice([1, 2, 7])
        a, b = impl_loader(c), impl_loader(renumber(c, lambda x: m * x + k))
        ctx.count("oracle_loader_renumbering")
        if a != b:
            ctx.fail("assignment_id_value_matters", {"kind": "loader", "case": c, "k": k, "m": m}, {"orig": a, "renumbered": b})


# ------------------------------------------------------------------------------------------------
# correspondence C: set-iteration sites under several PYTHONHASHSEED values (real functions in sub-processes)

SITE_SCRIPT = r'''
import io, json, sys, os, logging, tempfile
sys.path.insert(0, os.environ["VERIF_REPO"])
import warnings
warnings.simplefilter("ignore")
logging.disable(logging.CRITICAL)
from types import SimpleNamespace
from src.gene_info import GeneInfo, FeatureProfiles
from src.isoform_assignment import ReadAssignment, BasicReadAssignment, ReadAssignmentType, IsoformMatch, MatchClassification
from src.long_read_counter import create_gene_counter
from src.multimap_resolver import MultimapResolver
from src.serialization import write_list, read_list, write_string, read_string
cases = json.load(sys.stdin)
out = []
for c in cases:
    k = c["kind"]
    if k == "gene_ids":
        # one feature shared by the isoforms t0..tn of the genes c["genes"]
        stub = SimpleNamespace(delta=0, chr_id="chr1", isoform_strands={}, gene_id_map={})
        fmap = {}
        for i, g in enumerate(c["genes"]):
            t = "t%d" % i
            stub.isoform_strands[t] = "+"
            stub.gene_id_map[t] = g
            fmap[t] = [(100, 200), (300, 400)]
        fp = FeatureProfiles()
        fp.set_features([(100, 200), (300, 400)])
        props = GeneInfo.set_feature_properties(stub, fmap, fp)
        out.append(props[0].to_str().split("\t")[5])
    elif k == "isoforms":
        ra = ReadAssignment("r", ReadAssignmentType.ambiguous)
        ra.chr_id = "chr1"; ra.exons = [(1, 2)]; ra.genomic_region = (1, 2)
        ra.isoform_matches = [IsoformMatch(MatchClassification.undefined, "G", t) for t in c["ids"]]
        ra.gene_assignment_type = ReadAssignmentType.unique
        out.append(BasicReadAssignment(ra).isoforms)
    elif k == "tie":
        def mk(isos):
            ra = ReadAssignment("r", ReadAssignmentType.ambiguous)
            ra.chr_id = "chr1"; ra.exons = [(100, 200), (300, 900)]; ra.genomic_region = (100, 900)
            ra.isoform_matches = [IsoformMatch(MatchClassification.undefined, "G", t) for t in isos]
            ra.gene_assignment_type = ReadAssignmentType.unique
            return BasicReadAssignment(ra)
        al = [mk(c["a"]), mk(c["b"])]
        MultimapResolver.select_noninformative(al, [0, 1])
        out.append([x.assignment_type.name for x in al])
    elif k == "ref_gene":
        from collections import defaultdict
        from src.graph_based_model_construction import GraphBasedModelConstructor
        m = object.__new__(GraphBasedModelConstructor)
        genes = sorted(set(g for gs in c["introns"] for g in gs))
        m.gene_info = SimpleNamespace(empty=lambda: False, gene_strands={g: ("-" if g in c["minus"] else "+") for g in genes})
        m.intron_genes = defaultdict(set)
        introns = [(100 * i, 100 * i + 50) for i in range(len(c["introns"]))]
        for i, gs in zip(introns, c["introns"]):
            if gs:
                m.intron_genes[i] = set(gs)
        out.append(m.select_reference_gene(introns, (0, 10 ** 6), c["strand"]))
    elif k == "groups":
        d = tempfile.mkdtemp()
        try:
            cnt = create_gene_counter(os.path.join(d, "x"), "unique_only", read_groups=set(c["groups"]))
            out.append(sorted([g, i] for g, i in cnt.group_numeric_ids.items()) + [cnt.ordered_groups])
        finally:
            import shutil; shutil.rmtree(d)
    elif k == "groups_header":
        allg = set()
        for per in c["per_chr"]:
            s = set(per)
            buf = io.StringIO()
            for g in s:                      # the _groups dump of collect_reads_in_parallel
                buf.write("%s\n" % g)
            allg.update(s)
        b = io.BytesIO()
        write_list(list(allg), b, write_string)          # the _info dump of collect_reads
        b.seek(0)
        back = set(read_list(b, read_string))            # load_read_info
        out.append(sorted(back))                         # AssignedFeatureCounter.ordered_groups
print(json.dumps(out))
'''


def site_cases(rng, n):
    pool = ["Gc1_alpha", "Gc1_Bx", "Gc1_c9", "G2", "g10", "ENSG007", "A", "b", "Zeta", "k7", "m10", "m9", "NA", "liver"]
    cases = []
    for _ in range(n):
        k = rng.choice(["gene_ids", "isoforms", "tie", "groups", "groups_header", "ref_gene"])
        if k == "gene_ids":
            cases.append({"kind": k, "genes": rng.sample(pool, rng.randint(1, 4))})
        elif k == "isoforms":
            cases.append({"kind": k, "ids": rng.sample(pool, rng.randint(1, 4))})
        elif k == "tie":
            a = rng.sample(pool, rng.randint(1, 3))
            b = rng.sample(pool, rng.randint(1, 3))
            if sorted(a) == sorted(b):
                b = b + ["zz"]
            cases.append({"kind": k, "a": a, "b": b})
        elif k == "ref_gene":
            gs = rng.sample(pool, rng.randint(2, 4))
            # several genes own the same introns equally often (readthrough / merged annotation sources)
            introns = [rng.sample(gs, rng.randint(0, len(gs))) if rng.random() < 0.4 else list(gs) for _ in range(rng.randint(1, 4))]
            cases.append({"kind": k, "introns": introns, "minus": rng.sample(gs, rng.choice([0, 0, 1])), "strand": rng.choice("++.")})
        elif k == "groups":
            cases.append({"kind": k, "groups": rng.sample(pool, rng.randint(1, 5))})
        else:
            cases.append({"kind": k, "per_chr": [rng.sample(pool, rng.randint(0, 4)) for _ in range(rng.randint(1, 3))]})
    return cases


def run_sites(cases, hashseed):
    env = dict(os.environ, PYTHONHASHSEED=str(hashseed), VERIF_REPO=vlib.REPO)
    p = subprocess.run([vlib.PY, "-c", SITE_SCRIPT], input=json.dumps(cases), capture_output=True, text=True, env=env, timeout=300)
    lines = [l for l in p.stdout.split("\n") if l.startswith("[")]
    if p.returncode != 0 or not lines:
        raise RuntimeError("site script failed under PYTHONHASHSEED=%s: %s" % (hashseed, (p.stdout + p.stderr)[-800:]))
    return json.loads(lines[-1])


def model_site_req(c):
    k = c["kind"]
    if k == "gene_ids":
        return vlib.req("C06.gene_ids_column", iter=c["genes"])
    if k == "isoforms":
        return vlib.req("C06.isoforms_key", iter=c["ids"])
    if k == "tie":
        return vlib.req("C06.isoforms_key", iter=c["a"])
    if k == "ref_gene":
        return vlib.req("C06.reference_gene", introns=c["introns"], minus=c["minus"], strand=c["strand"])
    if k == "groups":
        return vlib.req("C06.group_numbering", iter=c["groups"])
    return vlib.req("C06.groups_header", per_chr=c["per_chr"], reverse2=False)


def site_results(ctx, cases, seeds):
    with ThreadPoolExecutor(min(4, len(seeds))) as ex:
        return list(ex.map(lambda s: run_sites(cases, s), seeds))


def corr_sites(ctx, n, seeds):
    cases = site_cases(ctx.rng, n)
    per_seed = site_results(ctx, cases, seeds)
    mouts = ctx.driver.run([model_site_req(c) for c in cases])
    for i, c in enumerate(cases):
        if c["kind"] == "tie":
            continue          # covered by the oracle (no model value beyond the key)
        mo = mouts[i]
        if c["kind"] == "groups":
            mo = sorted(mo) + [sorted(c["groups"])]
        for s, outs in zip(seeds, per_seed):
            ctx.evaluations += 1
            ctx.traces_validated += 1
            ctx.count("op:site_" + c["kind"])
            if outs[i] != mo:
                ctx.disagree("site_" + c["kind"], {"case": c, "hashseed": s}, mo, outs[i])
            else:
                ctx.mark_nontrivial(["site", c])
    if cases:
        ctx.sample({"op": "site_" + cases[0]["kind"], "input": cases[0], "model": mouts[0], "impl": per_seed[0][0]})


def oracle_sites(ctx, n, seeds, given=None):
    """property on the real functions: the value does not change with PYTHONHASHSEED"""
    cases = (given or []) + site_cases(ctx.rng, n)
    if not cases:
        return
    per_seed = site_results(ctx, cases, seeds)
    for i, c in enumerate(cases):
        vals = [outs[i] for outs in per_seed]
        ctx.count("oracle_site_" + c["kind"])
        for s, v in zip(seeds[1:], vals[1:]):
            if v != vals[0]:
                ctx.fail("hashseed_dependent_site:" + c["kind"], {"kind": "site", "case": c, "seeds": [seeds[0], s]},
                         {"seed_%s" % seeds[0]: vals[0], "seed_%s" % s: v})
                break


# ------------------------------------------------------------------------------------------------
# correspondence D: worker / task traces of real runs replayed through the schedule model

def trace_to_model(recs):
    """-> (request kwargs, observed) from the trace records of one run"""
    root = next(r for r in recs if r["phase"] == 0)
    p1 = sorted([r for r in recs if r["phase"] == 1], key=lambda r: r["t0"])
    p2 = sorted([r for r in recs if r["phase"] == 2], key=lambda r: r["t0"])
    threads1 = all(r["pid"] == root["pid"] for r in p1 + p2)
    # submission order = by-length order of get_chr_list = the order in which a 1-thread run executes; for a pool it
    # is recovered from the reference record list handed in by the caller
    return root, p1, p2, threads1


def corr_trace(ctx, runs):
    """runs: list of (threads, trace records, chr order)"""
    reqs, metas = [], []
    for threads, recs, order in runs:
        root, p1, p2, threads1 = trace_to_model(recs)
        if len(p1) != len(order) or len(p2) != len(order):
            ctx.disagree("trace", {"threads": threads}, "one task per chromosome and phase", "phase1=%d phase2=%d chromosomes=%d" % (len(p1), len(p2), len(order)))
            continue
        idx = {c: i for i, c in enumerate(order)}

        def sched(ps):
            pids = []
            ev = []
            for r in ps:
                if r["pid"] not in pids:
                    pids.append(r["pid"])
                ev.append([pids.index(r["pid"]), idx[r["chr"]]])
            return ev
        by1 = {r["chr"]: r for r in p1}
        by2 = {r["chr"]: r for r in p2}
        chrs = []
        for c in order:
            a, b = by1[c], by2[c]
            chrs.append({"name": c, "blocks": [{
                "feat": a["after"]["feat"] - a["before"]["feat"],
                "reads": [{"id": "x%d" % i, "p": 1} for i in range(a["after"]["assign"] - a["before"]["assign"])],
                "known": b["after"]["detected"],
                "assign2": b["after"]["assign"] - b["before"]["assign"]}]})
            # FeatureInfo objects are rebuilt when the save file is loaded: both phases create the same number
            if b["after"]["feat"] - b["before"]["feat"] != a["after"]["feat"] - a["before"]["feat"]:
                ctx.notes.append("trace: feature counter increments differ between the phases for %s" % c)
        reqs.append(vlib.req("C06.trace", chrs=chrs, s1=sched(p1), s2=sched(p2), threads1=threads1))
        metas.append((threads, order, by1, by2, threads1))
        # every task writes only files of its own chromosome
        for r in p1 + p2:
            bad = [w for w in r["written"] if ("_" + r["chr"]) not in w]
            ctx.count("trace_tasks")
            if bad:
                ctx.disagree("task_writes_foreign_file", {"threads": threads, "chr": r["chr"], "phase": r["phase"]}, [], bad)
    outs = ctx.driver.run(reqs)
    for (threads, order, by1, by2, threads1), mo in zip(metas, outs):
        ctx.evaluations += 1
        ctx.count("op:trace")
        ctx.count("trace_threads:%d" % threads)
        if not (isinstance(mo, dict) and mo.get("valid1") and mo.get("valid2")):
            ctx.disagree("trace", {"threads": threads}, mo, "valid schedules expected")
            continue
        ok = True
        for ph, by in (("phase1", by1), ("phase2", by2)):
            for i, c in enumerate(order):
                m, r = mo[ph][i], by[c]
                ctx.traces_validated += 1
                obs_b = {k: r["before"][k] for k in ("assign", "feat", "detected", "dup")}
                obs_a = {k: r["after"][k] for k in ("assign", "feat", "detected", "dup")}
                if m is None or m["before"] != obs_b or m["after"] != obs_a:
                    ok = False
                    ctx.disagree("trace_state", {"threads": threads, "phase": ph, "chr": c}, m, {"before": obs_b, "after": obs_a})
        if ok:
            ctx.mark_nontrivial(["trace", threads, order, len(set(r["pid"] for r in by1.values()))])
        ctx.sample({"op": "trace", "threads": threads, "workers_phase1": len(set(r["pid"] for r in by1.values())),
                    "workers_phase2": len(set(r["pid"] for r in by2.values())), "model_phase1": mo["phase1"][:2]})


def traced_runs(ctx, data_seed, thread_list, optset="grouped"):
    import random
    base = tempfile.mkdtemp(prefix="isoverif_c06t_")
    try:
        ds = c06data.build(random.Random(data_seed), n_chroms=3)
        paths = ds.write(os.path.join(base, "data"))
        cfgs = [{"threads": t, "hashseed": ctx.rng.randint(0, 10 ** 6), "high_memory": False, "keep_tmp": False} for t in thread_list]
        with ThreadPoolExecutor(3) as ex:
            res = list(ex.map(lambda ic: run_config(base, paths, ic[0], ic[1], optset, trace=True), enumerate(cfgs)))
        # submission order: by decreasing chromosome length (stable on the FASTA order) = get_chr_list
        order = sorted(ds.chroms, key=lambda c: len(ds.chroms[c]), reverse=True)
        runs = []
        files0 = None
        for cfg, (rc, files, log, recs) in zip(cfgs, res):
            ctx.count("pipeline_runs")
            if rc != 0:
                ctx.disagree("trace", {"threads": cfg["threads"]}, "rc 0", "rc %s: %s" % (rc, log[-500:]))
                continue
            runs.append((cfg["threads"], recs, order))
            # the traced runs are pipeline runs as well: their outputs must agree (oracle material)
            if files0 is None:
                files0 = (cfg, files)
            else:
                d = diff_files(files0[1], files)
                if d:
                    ctx.fail("output_differs:" + "+".join(cfg_axes(files0[0], cfg)),
                             {"data_seed": data_seed, "n_chroms": 3, "optset": optset, "ref": files0[0], "cfg": cfg},
                             {"files": [x[0] for x in d][:12], "first": d[0][1]})
        return runs
    finally:
        shutil.rmtree(base, ignore_errors=True)


# ------------------------------------------------------------------------------------------------

def corr_inventory(ctx):
    """what the Lean side sees (compiled Gen files) = what the translator extracted from the current tree"""
    mo = ctx.driver.run([vlib.req("C06.inventory")])[0]
    ctx.evaluations += 1
    with open(os.path.join(vlib.LEAN, "IsoVerif", "Gen", "gen_info.json")) as f:
        info = json.load(f).get("info", {})
    ss = info.get("SharedState", {})
    label = lambda i: ((i["owner"] + ".") if i["owner"] else i["file"] + ":") + i["name"]
    exp = [label(i) for i in ss.get("shared_state", [])]
    ctx.traces_validated += 1
    if mo.get("shared_state") != exp:
        ctx.disagree("inventory", "shared_state", mo.get("shared_state"), exp)
    if mo.get("set_sites") != len(info.get("SetSites", {}).get("set_sites", [])):
        ctx.disagree("inventory", "set_sites", mo.get("set_sites"), len(info.get("SetSites", {}).get("set_sites", [])))
    for k in ("unhandled_state", "unhandled_args", "unhandled_set_sites", "unhandled_nondet", "unhandled_aid_readers",
              "unhandled_feature_readers"):
        if mo.get(k):
            ctx.disagree("inventory_unhandled", k, mo.get(k), [])
    ctx.extra["inventory"] = {"shared_state": exp, "unreachable": mo.get("unreachable"),
                              "set_iteration_sites": mo.get("set_sites"),
                              "args_fields": ss.get("args_fields")}
    if exp:
        ctx.mark_nontrivial("inventory")


BOOK_CHRS = ["c1", "c2", "c3"]          # get_chr_list order: by decreasing length


def book_case(rng):
    per = []
    for c in BOOK_CHRS:
        per.append([{"id": "r%d" % rng.randint(0, 4), "chr": c, "polya": rng.random() < 0.5, "susp": False,
                     "tag": rng.randint(0, 5)} for _ in range(rng.randint(0, 4))])
    return per


def impl_bookkeeping(per_chr, high_memory):
    """the real DatasetProcessor.collect_reads (threads 1) with the chromosome task, the save-file loader and the
    resolver replaced by stand-ins; returns what the run leaves on disk: multimapper tables + the info file"""
    vlib.repo_on_path()
    import logging
    from types import SimpleNamespace
    import src.dataset_processor as DP
    from src.isoform_assignment import BasicReadAssignment, ReadAssignmentType
    from src.stats import EnumStats
    logging.getLogger('IsoQuant').setLevel(logging.CRITICAL)
    d = tempfile.mkdtemp(prefix="isoverif_c06b_")

    def mk(r):
        a = BasicReadAssignment.__new__(BasicReadAssignment)
        a.assignment_id = 1
        a.read_id, a.chr_id, a.start, a.end = r["id"], r["chr"], r["tag"], r["tag"] + 10
        a.genomic_region = (1, 100)
        a.multimapper, a.polyA_found = False, r["polya"]
        a.assignment_type = ReadAssignmentType.suspended if r["susp"] else ReadAssignmentType.unique
        a.gene_assignment_type = a.assignment_type
        a.penalty_score, a.genes, a.isoforms = 0.0, ["g"], ["t"]
        return a

    class ToyResolver:
        def __init__(self, strategy):
            pass

        def resolve(self, l):
            best = max([a.start for a in l] + [0])
            found = False
            for a in l:
                if not found and a.start == best:
                    found = True
                else:
                    a.assignment_type = ReadAssignmentType.suspended
            return l

    class FakeLoader:
        def __init__(self, fname):
            self.recs = per_chr[BOOK_CHRS.index(fname.rsplit("_", 1)[1])]
            self.done = False

        def has_next(self):
            return not self.done

        def get_next(self):
            self.done = True
            for r in self.recs:
                yield mk(r)

    def fake_collect(sample, chr_id, args):
        recs = per_chr[BOOK_CHRS.index(chr_id)]
        return {"NA"}, EnumStats(), ([mk(r) for r in recs] if args.high_memory else [r["id"] for r in recs])

    saved = (DP.collect_reads_in_parallel, DP.BasicReadAssignmentLoader, DP.MultimapResolver)
    try:
        DP.collect_reads_in_parallel, DP.BasicReadAssignmentLoader, DP.MultimapResolver = fake_collect, FakeLoader, ToyResolver
        dp = object.__new__(DP.DatasetProcessor)
        dp.args = SimpleNamespace(threads=1, high_memory=high_memory, resume=False, multimap_strategy=None, keep_tmp=True,
                                  read_group=None)      # written to `_info` by collect_reads (run set-up of a restart)
        dp.alignment_stat_counter = EnumStats()
        dp.gffutils_db = None           # read by warn_about_skipped_sequences (fix b09aace)
        dp.reference_record_dict = {c: "A" * (30 - 10 * i) for i, c in enumerate(BOOK_CHRS)}
        sample = SimpleNamespace(out_raw_file=os.path.join(d, "x.save"), file_list=[], prefix="x")
        dp.collect_reads(sample)
        total, polya, _groups = dp.load_read_info(sample.out_raw_file)
        table = {}
        for c in BOOK_CHRS:
            rows = []
            with open(sample.out_raw_file + "_multimappers_" + c, "rb") as f:
                n = DP.read_int(f)
                while n != DP.TERMINATION_INT:
                    for _ in range(n):
                        a = BasicReadAssignment.deserialize(f)
                        rows.append({"id": a.read_id, "chr": a.chr_id, "polya": a.polyA_found,
                                     "susp": a.assignment_type == ReadAssignmentType.suspended, "tag": a.start})
                    n = DP.read_int(f)
            table[c] = rows
        return {"table": table, "total": total, "polya": polya}
    finally:
        DP.collect_reads_in_parallel, DP.BasicReadAssignmentLoader, DP.MultimapResolver = saved
        shutil.rmtree(d, ignore_errors=True)


def corr_bookkeeping(ctx, n):
    """multimapper bookkeeping of the real DatasetProcessor.collect_reads in both memory modes vs the model (§5)"""
    cases = [book_case(ctx.rng) for _ in range(n)]
    outs = ctx.driver.run([vlib.req("C06.bookkeeping", recs=[r for per in c for r in per]) for c in cases])
    for c, o in zip(cases, outs):
        for mode, hm in (("low", False), ("high", True)):
            ctx.evaluations += 1
            ctx.traces_validated += 1
            ctx.count("op:bookkeeping_" + mode)
            io_ = vlib.call_impl(impl_bookkeeping, c, hm)
            mo = o.get(mode)
            if isinstance(mo, dict) and "table" in mo:
                mo = {"table": {ch: [r for r in mo["table"] if r["chr"] == ch] for ch in BOOK_CHRS}, "total": mo["total"], "polya": mo["polya"]}
            if mo != io_:
                ctx.disagree("bookkeeping_" + mode, c, mo, io_)
            elif any(io_["table"].values()):
                ctx.mark_nontrivial(["bookkeeping", mode, c])
    if cases:
        ctx.sample({"op": "bookkeeping", "input": cases[0], "model": outs[0]})


def oracle_bookkeeping(ctx, n, given=None):
    """property on the real code: both memory modes leave the same multimapper tables and totals"""
    for c in (given or []) + [book_case(ctx.rng) for _ in range(n)]:
        a, b = vlib.call_impl(impl_bookkeeping, c, False), vlib.call_impl(impl_bookkeeping, c, True)
        ctx.count("oracle_bookkeeping")
        if a != b:
            ctx.fail("memory_mode_bookkeeping_differs", {"kind": "bookkeeping", "case": c}, {"default": a, "high_memory": b})


# ------------------------------------------------------------------------------------------------
# the hypothesis of memory_mode_equal: both memory modes hand the resolver the same records.  --high_memory builds a
# BasicReadAssignment from the ReadAssignment in memory, the default mode re-reads the save file with
# BasicReadAssignment.deserialize_from_read_assignment; field by field the two must agree.

REC_FIELDS = ("assignment_id", "read_id", "chr_id", "start", "end", "genomic_region", "multimapper", "polyA_found",
              "assignment_type", "gene_assignment_type", "penalty_score", "genes", "isoforms")


def record_case(rng):
    n = rng.randint(0, 3)
    pool = ["Ta", "Tb", "Tc9", "T10", "ENST7"]
    return {"read": "r%d" % rng.randint(0, 99), "chr": rng.choice(["chr1", "chr2"]),
            "exons": sorted([(100 * i + rng.randint(0, 20), 100 * i + 60) for i in range(1, rng.randint(2, 5))]),
            "matches": [{"gene": rng.choice(["Ga", "Gb"]), "tx": t, "penalty": rng.choice([0, 0.1, 0.6, 1.0, 1.6, 2.5])}
                        for t in rng.sample(pool, n)],
            "type": rng.choice(["inconsistent", "inconsistent_non_intronic", "inconsistent_ambiguous", "unique", "ambiguous",
                                "unique_minor_difference", "noninformative"]),
            "multimapper": rng.random() < 0.5, "polya": rng.random() < 0.5}


def impl_records(case):
    """-> (fields of BasicReadAssignment(ra), fields of the record re-read from ra's serialisation)"""
    vlib.repo_on_path()
    from src.isoform_assignment import (ReadAssignment, BasicReadAssignment, ReadAssignmentType, IsoformMatch,
                                        MatchClassification)
    from src.polya_finder import PolyAInfo
    matches = [IsoformMatch(MatchClassification.undefined, m["gene"], m["tx"], penalty_score=m["penalty"]) for m in case["matches"]]
    ra = ReadAssignment(case["read"], ReadAssignmentType[case["type"]], matches)
    ra.chr_id = case["chr"]
    ra.exons = [tuple(e) for e in case["exons"]]
    ra.corrected_exons = list(ra.exons)
    ra.genomic_region = (ra.exons[0][0] - 50, ra.exons[-1][1] + 50)
    ra.multimapper, ra.polyA_found = case["multimapper"], case["polya"]
    ra.polya_info = PolyAInfo(-1, -1, -1, -1)
    ra.exon_gene_profile, ra.intron_gene_profile = [1, -1], [1]
    ra.introns_match = False
    buf = io.BytesIO()
    ra.serialize(buf)
    buf.seek(0)
    a = BasicReadAssignment(ra)
    b = BasicReadAssignment.deserialize_from_read_assignment(buf)

    def fields(x):
        d = {}
        for f in REC_FIELDS:
            v = getattr(x, f)
            d[f] = v.name if hasattr(v, "name") and hasattr(v, "value") else vlib.canon(v)
        return d
    return fields(a), fields(b)


def oracle_records(ctx, n, given=None):
    fixed = [{"read": "mi0", "chr": "chr1", "exons": [(100, 200), (400, 500), (700, 800)], "type": "inconsistent",
              "matches": [{"gene": "Ga", "tx": "Ta", "penalty": 1.0}], "multimapper": True, "polya": False},
             {"read": "mi0", "chr": "chr2", "exons": [(100, 200), (300, 600), (700, 800)], "type": "inconsistent",
              "matches": [{"gene": "Gb", "tx": "Tb", "penalty": 0.6}, {"gene": "Gb", "tx": "Tc9", "penalty": 1.6}],
              "multimapper": True, "polya": False}]
    for c in (given or []) + fixed + [record_case(ctx.rng) for _ in range(n)]:
        r = vlib.call_impl(impl_records, c)
        ctx.count("oracle_records")
        if vlib.is_err(r):
            ctx.notes.append("record constructors raised %s on %s" % (r.get("exc"), c))
            ctx.count("oracle_records_error")
            continue
        a, b = r
        if a != b:
            diff = sorted(f for f in REC_FIELDS if a[f] != b[f])
            ctx.fail("memory_mode_record_differs:" + "+".join(diff), {"kind": "record", "case": c},
                     {"in_memory": {f: a[f] for f in diff}, "re_read": {f: b[f] for f in diff}})
        elif c["matches"]:
            ctx.mark_nontrivial(["record", c])


def correspondence(ctx):
    quick = ctx.tier == "quick"
    corr_inventory(ctx)
    corr_merge(ctx, 300 if quick else 3000)
    corr_loader(ctx, 300 if quick else 3000)
    corr_bookkeeping(ctx, 200 if quick else 2000)
    seeds = [0, 1, 7, 12345] if quick else [0, 1, 2, 3, 7, 99, 12345, 4294967295]
    corr_sites(ctx, 40 if quick else 200, seeds)
    ctx.extra["hash_seeds_unit_level"] = seeds
    runs = traced_runs(ctx, ctx.rng.randint(0, 10 ** 9), [1, 2, 3] if quick else [1, 2, 3, 16])
    corr_trace(ctx, runs)


def oracle(ctx, disagreements, broken):
    quick = ctx.tier == "quick"
    # 1. seeded with the disagreeing inputs
    given_sites = []
    for d in disagreements:
        if d["op"].startswith("site_") and isinstance(d["input"], dict) and "case" in d["input"]:
            given_sites.append(d["input"]["case"])
        if d["op"] == "loader_match":
            c = d["input"]
            a, b = impl_loader(c), impl_loader(renumber(c, lambda x: 3 * x + 17))
            if a != b:
                ctx.fail("assignment_id_value_matters", {"kind": "loader", "case": c, "k": 17, "m": 3}, {"orig": a, "renumbered": b})
    seeds = [0, 3, 5, 77] if quick else [0, 1, 2, 3, 4, 5, 6, 7, 77, 1000, 65537, 4294967295]
    # known order-sensitive shapes first (tie between {Tb} and {Ta,Tc}; three genes on one feature)
    fixed = [{"kind": "tie", "a": ["Tb"], "b": ["Ta", "Tc"]}, {"kind": "gene_ids", "genes": ["Gc1_alpha", "Gc1_Bx", "Gc1_c9"]},
             {"kind": "ref_gene", "introns": [["Gc1_twinP", "Gc1_Qtwin"], ["Gc1_Qtwin", "Gc1_twinP"]], "minus": [], "strand": "+"},
             {"kind": "ref_gene", "introns": [["ENSMUSG00000095547.1", "MERGEDG00000000001.1", "G3"]] * 2, "minus": [], "strand": "."},
             {"kind": "groups", "groups": ["Zeta", "k7", "liver", "m10", "m9"]}]
    oracle_sites(ctx, 30 if quick else 300, seeds, given=given_sites[:20] + fixed)
    oracle_loader(ctx, 200 if quick else 2000)
    oracle_records(ctx, 300 if quick else 3000)
    oracle_bookkeeping(ctx, 100 if quick else 1000,
                       given=[d["input"] for d in disagreements if d["op"].startswith("bookkeeping_") and isinstance(d["input"], list)][:20])
    # 2. the real pipeline over the configuration matrix
    searching = bool(broken)
    if quick and not searching:
        plan = [(ctx.rng.randint(0, 10 ** 9), "grouped"), (ctx.rng.randint(0, 10 ** 9), ctx.rng.choice(["linear", "all", "nomodel", "nogenedb"]))]
    elif quick:
        plan = [(ctx.rng.randint(0, 10 ** 9), o) for o in ("grouped", "linear", "all")]
    else:
        plan = [(ctx.rng.randint(0, 10 ** 9), o) for o in ("grouped", "linear", "all", "nomodel", "nogenedb", "plain") * 4]
    runs = 0
    for data_seed, o in plan:
        cfgs = make_configs(ctx.rng, ctx.tier, searching)
        runs += pipeline_matrix(ctx, data_seed, o, cfgs, n_chroms=ctx.rng.choice([3, 3, 4] if quick else [3, 4, 5, 6]))
        if len(ctx.failures) > 10:
            break
    # contigs with EQUAL natural sort keys (chr1, Chr1, chr01, chr001; hypothesis audit G8: outside `distinct` of
    # merge_order_of_perm): the merged order among them is the submission order, the outputs must still be the same
    cfgs = make_configs(ctx.rng, ctx.tier, searching)
    if quick:
        cfgs = [cfgs[0]] + [c for c in cfgs[1:] if c["threads"] > 1][:3]
    runs += pipeline_matrix(ctx, ctx.rng.randint(0, 10 ** 9), "grouped", cfgs, chrom_names=c06data.EQUAL_KEY_CHROMS,
                            label="equal_natural_keys")
    # contigs whose auxiliary files share a name (audit2-B GAP C06-1, gen/c06data.py AUX_NAME_CHROMS): reference run
    # threads 1 against multi-threaded runs only (the collision shows when two tasks overlap in time)
    seeds = lambda: ctx.rng.randint(1, 4294967295)
    cfgs = [{"threads": 1, "hashseed": 0, "high_memory": False, "keep_tmp": False}] + \
           [{"threads": t, "hashseed": seeds(), "high_memory": hm, "keep_tmp": False}
            for t, hm in ([(4, False), (2, True), (4, False), (3, False), (16, False), (4, True), (2, False)] if quick else
                          [(4, False), (2, True), (4, False), (3, False), (16, False), (4, True), (2, False)] * 3)]
    runs += pipeline_matrix(ctx, ctx.rng.randint(0, 10 ** 9), "plain", cfgs, chrom_names=c06data.AUX_NAME_CHROMS,
                            label="aux_file_names", workers=8)
    ctx.extra["oracle_pipeline_runs"] = runs


def replay(ctx, failure):
    inp = failure["input"]
    if inp.get("kind") == "site":
        seeds = inp["seeds"]
        r = [run_sites([inp["case"]], s)[0] for s in seeds]
        return r[0] != r[1]
    if inp.get("kind") == "record":
        r = vlib.call_impl(impl_records, inp["case"])
        return vlib.is_err(r) or r[0] != r[1]
    if inp.get("kind") == "bookkeeping":
        return vlib.call_impl(impl_bookkeeping, inp["case"], False) != vlib.call_impl(impl_bookkeeping, inp["case"], True)
    if inp.get("kind") == "loader":
        c = inp["case"]
        return impl_loader(c) != impl_loader(renumber(c, lambda x: inp["m"] * x + inp["k"]))
    import random
    base = tempfile.mkdtemp(prefix="isoverif_c06r_")
    try:
        ds = c06data.build(random.Random(inp["data_seed"]), n_chroms=inp.get("n_chroms", 3), chrom_names=inp.get("chrom_names"))
        paths = ds.write(os.path.join(base, "data"))
        a = run_config(base, paths, 0, inp["ref"], inp["optset"])
        b = run_config(base, paths, 1, inp["cfg"], inp["optset"])
        # a difference that needs two tasks to overlap in time (contigs sharing an auxiliary file) does not show in every
        # run: the failing configuration is repeated
        tries = 12 if inp.get("chrom_names") == c06data.AUX_NAME_CHROMS else 1
        while a[0] == b[0] and tries > 1:
            tries -= 1
            b = run_config(base, paths, 1, inp["cfg"], inp["optset"])
        d = diff_files(a[1], b[1])
        if a[0] != b[0]:
            print("  exit status %s vs %s" % (a[0], b[0]))
            return True
        for fn, det in d[:5]:
            print("  %s: %s" % (fn, det))
        return bool(d)
    finally:
        shutil.rmtree(base, ignore_errors=True)
