"""C08 — the real pipeline on synthetic multi-chromosome BAMs with multi-mapped reads (both memory modes)."""
import collections
import math
import os
import shutil

import pipeline as P
import vlib
from gen import multimap_synth as MS
from gen import resolver as G

OUT_COMPARED = ["S.read_assignments.tsv", "S.corrected_reads.bed", "S.transcript_counts.tsv", "S.gene_counts.tsv",
                "S.transcript_model_reads.tsv", "S.transcript_models.gtf", "S.transcript_model_counts.tsv"]
# the run without the alignments that lost must give the same read-level files, tables and annotations
OUT_DIFFERENTIAL = OUT_COMPARED + ["S.extended_annotation.gtf"]


def _mods():
    vlib.repo_on_path()
    import logging
    logging.getLogger("IsoQuant").setLevel(logging.CRITICAL)
    import src.dataset_processor as DP
    import src.isoform_assignment as IA
    return DP, IA


# ------------------------------------------------------------------------------------------------
# running

def run(ds, workdir, tag, extra=(), bams=None, threads=1):
    """ds: gen.synth.Dataset; returns dict(rc, log, out (dir), files, paths)"""
    data = os.path.join(workdir, "data_" + tag)
    paths = ds.write(data)
    if bams:
        # split the reads over several BAM files (given as lists of read predicates), passed in the given order
        files = []
        for i, pred in enumerate(bams):
            sub = [r for r in ds.reads if pred(r)]
            pp = ds.write(data, bam_name="part%d.bam" % i, reads=sub, write_ref=False)
            files.append(pp["bam"])
        args = ["--threads", str(threads), "--bam"] + files + ["--reference", paths["ref"], "--data_type", "nanopore", "-p", "S",
                                                       "--no_gzip", "--genedb", paths["gtf"], "--complete_genedb"]
    else:
        args = P.std_args(paths, threads=threads)
    out = os.path.join(workdir, "out_" + tag)
    rc, log = P.run_isoquant(out, args + list(extra), home=os.path.join(workdir, "home"))
    return {"rc": rc, "log": log, "out": out, "files": P.out_files(out), "paths": paths}


def parse_assignments(path):
    """-> {read: {(chr, start, end, exons): {"types": set, "isoforms": set, "genes": set, "gene_types": set}}}"""
    res = collections.OrderedDict()
    for row in P.read_assignments(path):
        ex = row["exons"]
        try:
            blocks = [tuple(int(x) for x in b.split("-")) for b in ex.split(",")]
        except ValueError:
            blocks = [(0, 0)]
        k = (row["chr"], blocks[0][0], blocks[-1][1], ex)     # two alignments may share their outer coordinates
        d = res.setdefault(row["read_id"], collections.OrderedDict()).setdefault(
            k, {"types": set(), "isoforms": set(), "genes": set(), "gene_types": set()})
        d["types"].add(row["assignment_type"])
        if row["isoform_id"] not in (".", "*", "None"):
            d["isoforms"].add(row["isoform_id"])
        if row["gene_id"] not in (".", "*", "None"):
            d["genes"].add(row["gene_id"])
        info = row.get("additional_info", "")
        for kv in info.split(";"):
            kv = kv.strip()
            if kv.startswith("gene_assignment="):
                d["gene_types"].add(kv.split("=", 1)[1])
    return res


def parse_counts(path):
    rows, _, _ = P.read_table(path)
    return {k: float(v[0]) for k, v in rows.items()}


def strip(text):
    return P.strip_cmdline(text)


# ------------------------------------------------------------------------------------------------
# the statement on the outputs

def repo_class(tname):
    DP, IA = _mods()
    t = IA.ReadAssignmentType[tname]
    if t.is_inconsistent():
        return "inconsistent"
    if t.is_consistent():
        return "consistent"
    return "uninformative"


def expected_retained(alns):
    """alns: [(key, type name, secondary, isoforms)] -> (mode, set of keys)
    mode 'all': exactly these alignments are retained; 'some': a non-empty subset (the statement does not rank
    inconsistent alignments among themselves); 'one': exactly one of these"""
    cl = [repo_class(t) for _, t, _, _ in alns]
    pu = [a for a, c in zip(alns, cl) if c == "consistent" and not a[2] and a[1] != "ambiguous"]
    if pu:
        return "all", set(a[0] for a in pu)
    cons = [a for a, c in zip(alns, cl) if c == "consistent"]
    if cons:
        return "all", set(a[0] for a in cons)
    inc = [a for a, c in zip(alns, cl) if c == "inconsistent"]
    pinc = [a for a in inc if not a[2]]
    if pinc:
        return "some", set(a[0] for a in pinc)
    if inc:
        return "some", set(a[0] for a in inc)
    return "one", set(a[0] for a in alns)


def load_outputs(files):
    got = parse_assignments(files["S.read_assignments.tsv"])
    bed = collections.defaultdict(list)
    for row in P.read_bed(files["S.corrected_reads.bed"]):
        bed[row[3]].append((row[0], int(row[1]) + 1, int(row[2])))
    model_reads = collections.defaultdict(set)
    if "S.transcript_model_reads.tsv" in files:
        for l in P.read_lines(files["S.transcript_model_reads.tsv"]):
            p = l.split("\t")
            if len(p) >= 2 and p[1] not in ("*", "."):
                model_reads[p[0]].add(p[1])
    model_span = {}
    if "S.transcript_models.gtf" in files:
        for f in P.parse_gtf(files["S.transcript_models.gtf"]):
            if f["feature"] == "transcript":
                model_span[f["attrs"]["transcript_id"]] = (f["chr"], f["start"], f["end"])
    mcounts = parse_counts(files["S.transcript_model_counts.tsv"]) if "S.transcript_model_counts.tsv" in files else {}
    return (got, bed, model_reads, parse_counts(files["S.transcript_counts.tsv"]), parse_counts(files["S.gene_counts.tsv"]),
            model_span, mcounts)


def check_mode(md, cls, files, mode, with_totals):
    """the clauses of the statement on the outputs of one run; returns (failures, {read: retained keys}, n reads)"""
    fails = []
    got, bed, model_reads, tcounts, gcounts, model_span, mcounts = load_outputs(files)
    retained_by_read = {}
    n_multi = 0
    for name, alns in md.reads:
        a_list = []
        ok = True
        for k in range(len(alns)):
            c = cls.get("%s~%d" % (name, k))
            if not c or len(c) != 1:
                ok = False          # the alignment was not reported on its own (filtered before assignment): skip the read
                break
            key, d = list(c.items())[0]
            if len(d["types"]) != 1:
                ok = False
                break
            a_list.append((key, list(d["types"])[0], alns[k][2], frozenset(d["isoforms"])))
        if not ok or len(a_list) < 2:
            continue
        n_multi += 1
        mode_, exp = expected_retained(a_list)
        kept = set(got.get(name, {}).keys())
        retained_by_read[name] = kept
        all_keys = set(a[0] for a in a_list)
        detail = {"read": name, "run": mode,
                  "alignments": [(a[0], a[1], "secondary" if a[2] else "primary", sorted(a[3])) for a in a_list],
                  "retained": sorted(kept), "expected": sorted(exp), "mode": mode_}
        if mode_ == "all" and kept != exp:
            fails.append(("pipeline:priority", detail))
        elif mode_ == "some" and not (kept and kept <= exp):
            fails.append(("pipeline:priority", detail))
        elif mode_ == "one" and not (len(kept) == 1 and kept <= exp):
            fails.append(("pipeline:priority", detail))
        # losers nowhere: the BED lines of the read are the retained alignments (corrected coordinates may differ from
        # the aligned ones, so: as many lines per chromosome as retained alignments, each overlapping one of them)
        lines = bed.get(name, [])
        ovl = lambda b_, k_: b_[0] == k_[0] and b_[1] <= k_[2] and k_[1] <= b_[2]
        if (sorted(b_[0] for b_ in lines) != sorted(k_[0] for k_ in kept)
                or not all(any(ovl(b_, k_) for k_ in kept) for b_ in lines)):
            fails.append(("pipeline:loser_visible", dict(detail, bed=sorted(lines))))
        # flagged when the retained loci disagree on the isoform (also when they are isoforms of ONE gene)
        isoforms = set(i for k_ in kept for i in got[name][k_]["isoforms"])
        if len(kept) > 1 and len(isoforms) > 1:
            for k_ in kept:
                if not got[name][k_]["types"] <= {"ambiguous", "inconsistent_ambiguous"}:
                    fails.append(("pipeline:ties_not_flagged", dict(detail, types=sorted(got[name][k_]["types"]))))
        # transcript_model_reads: the read supports no transcript of a gene where it has no retained alignment
        key_gene = {}
        for k in range(len(alns)):
            key_gene.setdefault(a_list[k][0], set()).add(md.loci[alns[k][0]][2])
        kept_genes = set(g for k_ in kept for g in key_gene.get(k_, ()))
        lost_genes = set(g for k_ in all_keys - kept for g in key_gene.get(k_, ())) - kept_genes
        bad = [t for t in model_reads.get(name, ()) if any(t.startswith(g + "_") for g in lost_genes)]
        # ... and no transcript model (annotated or novel) lying in a locus where it has no retained alignment
        lost_loci = [md.loci[alns[k][0]] for k in range(len(alns)) if md.loci[alns[k][0]][2] in lost_genes]
        for t in model_reads.get(name, ()):
            sp = model_span.get(t)
            if sp and any(sp[0] == "chr%d" % (c + 1) and p_ < sp[2] and sp[1] <= p_ + MS.LOCUS_LEN for c, p_, _ in lost_loci):
                bad.append(t)
        if bad:
            fails.append(("pipeline:loser_visible", dict(detail, transcript_model_reads=sorted(set(bad)))))
        if not with_totals:
            continue
        # what the read adds to the tables: every isoform of its loci has exactly one other (confirming) read,
        # every gene exactly two
        # (the copies of a read share their loci and behave alike: the group's total divided by the number of copies)
        base_name, ncop = md.group.get(name, (name, 1))
        if ncop > 1 and name != base_name + ".0":
            continue
        tt = gg = 0.0
        loci = sorted(set(a[0] for a in alns))
        for li in loci:
            gid = md.loci[li][2]
            for suf in ("_Ta", "_Tb"):
                tt += max(0.0, tcounts.get(gid + suf, 0.0) - 1.0)
            gg += max(0.0, gcounts.get(gid, 0.0) - 2.0)
        tt /= ncop
        gg /= ncop
        # transcript_model_counts.tsv (the counter fed by GraphBasedModelConstructor.forward_counts, one constructor per
        # locus): what the transcript models lying in the read's loci got beyond the two confirming reads of each locus
        # (a confirming read adds at most 1 to its locus, so this never over-estimates the multi-mapped read's share)
        mt = 0.0
        for li in loci:
            c_, p_, _ = md.loci[li]
            in_locus = [t for t, sp in model_span.items() if sp[0] == "chr%d" % (c_ + 1) and p_ < sp[1] <= p_ + MS.LOCUS_LEN]
            mt += max(0.0, sum(mcounts.get(t, 0.0) for t in in_locus) - 2.0)
        mt /= ncop
        if tt > 1.005 or gg > 1.005 or mt > 1.005:
            w = lambda x: min(len(kept), int(math.ceil(x - 0.005))) if x > 1.005 else 0
            fails.append(("read_total_gt_one",
                          {"strategy": "pipeline default", "transcript_total": tt, "gene_total": gg, "model_total": mt,
                           "retained": len(kept), "weighted_records_transcript": w(tt), "weighted_records_gene": w(gg),
                           "weighted_records_model": w(mt),
                           "read": name, "level": "pipeline", "alignments": detail["alignments"]}))
    return fails, retained_by_read, n_multi


RUN_MODES = [("default", [], 1), ("high_memory", ["--high_memory"], 1),
             ("high_memory_threads2", ["--high_memory"], 2), ("default_threads2", [], 2)]


def check_dataset(md, workdir, tag, thorough=False):
    """runs the dataset in the needed variants; returns (failures [(kind, detail)], info)"""
    fails = []
    info = {}
    split = run(md.build(split_names=True), workdir, tag + "_s")
    if split["rc"] != 0 or "S.read_assignments.tsv" not in split["files"]:
        return [("pipeline:run_failed", "classification run: rc=%s %s" % (split["rc"], split["log"][-600:]))], info
    cls = parse_assignments(split["files"]["S.read_assignments.tsv"])
    runs = {}
    for nm, extra, th in RUN_MODES:
        r = run(md.build(), workdir, tag + "_" + nm, extra=extra, threads=th)
        if r["rc"] != 0 or "S.read_assignments.tsv" not in r["files"]:
            return [("pipeline:run_failed", "%s run: rc=%s %s" % (nm, r["rc"], r["log"][-600:]))], info
        runs[nm] = r
    base = runs["default"]
    # memory modes x thread counts: identical outputs
    for nm, _, _ in RUN_MODES[1:]:
        for fn in OUT_COMPARED:
            if fn in base["files"] or fn in runs[nm]["files"]:
                a = strip(open(base["files"][fn]).read()) if fn in base["files"] else None
                b = strip(open(runs[nm]["files"][fn]).read()) if fn in runs[nm]["files"] else None
                if a != b:
                    fails.append(("pipeline:memory_modes_differ", "%s differs between the default run and the %s run" % (fn, nm)))
    # a USED output folder (seed C08_a4): an earlier run into the same folder kept its intermediate files (--keep_tmp; it
    # saw no secondary alignment, so its `S.save_multimappers_<chr>` files hold the terminator only); a fresh --force run
    # must give the outputs of the run into a fresh folder
    first = run(md.build(), workdir, tag + "_used", extra=["--no_secondary", "--keep_tmp"])
    again = run(md.build(), workdir, tag + "_used", extra=["--force"])
    if first["rc"] != 0 or again["rc"] != 0:
        fails.append(("pipeline:run_failed", "used-folder runs: rc=%s / %s %s" % (first["rc"], again["rc"], (again["log"] if again["rc"] else first["log"])[-600:])))
    else:
        info["used_folder_runs"] = 1
        for fn in OUT_COMPARED:
            a = strip(open(base["files"][fn]).read()) if fn in base["files"] else None
            b = strip(open(again["files"][fn]).read()) if fn in again["files"] else None
            if a != b:
                fails.append(("pipeline:used_output_folder_changes_result",
                              "%s of a --force run into a folder that holds the kept intermediate files of an earlier "
                              "--no_secondary --keep_tmp run differs from the run into a fresh folder" % fn))
                break
    # the clauses on every run (each mode has its own path to the resolver)
    retained_by_read = {}
    n_multi = 0
    for nm, _, _ in RUN_MODES:
        f, rb, n = check_mode(md, cls, runs[nm]["files"], nm, with_totals=(nm == "default"))
        fails += f
        if nm == "default":
            retained_by_read, n_multi = rb, n
    info["multi_reads_checked"] = n_multi
    # differential form of "the alignments that lose are suppressed everywhere": the same data set WITHOUT the records the
    # default run did not report (suspended by the resolver, or filtered before it) gives the same outputs
    f, dinfo = differential(md, cls, base, workdir, tag)
    fails += f
    info.update(dinfo)
    # other orders: chromosome processing order reversed (lengths), chromosome order in FASTA / BAM header reversed,
    # the alignments spread over two BAM files given in either order
    variants = []
    n = md.n_chroms
    pads = [(n - c) * 40000 for c in range(n)]
    variants.append(("chrlen", lambda: run(md.build(paddings=pads[::-1]), workdir, tag + "_o1")))
    variants.append(("chrorder", lambda: run(md.build(chrom_order=list(range(n))[::-1], paddings=pads), workdir, tag + "_o2")))
    sec = lambda r: bool(r["flag"] & 256)
    variants.append(("files_ab", lambda: run(md.build(), workdir, tag + "_f1", bams=[lambda r: not sec(r), sec])))
    variants.append(("files_ba", lambda: run(md.build(), workdir, tag + "_f2", bams=[sec, lambda r: not sec(r)])))
    if not thorough:
        variants = [variants[0], variants[3]]
    for vn, fn in variants:
        r = fn()
        if r["rc"] != 0 or "S.read_assignments.tsv" not in r["files"]:
            fails.append(("pipeline:run_failed", "%s run: rc=%s %s" % (vn, r["rc"], r["log"][-600:])))
            continue
        g2 = parse_assignments(r["files"]["S.read_assignments.tsv"])
        for name, kept in retained_by_read.items():
            k2 = set(g2.get(name, {}).keys())
            if k2 != kept:
                fails.append(("pipeline:order_dependent", {"read": name, "variant": vn, "retained": sorted(kept),
                                                           "retained_variant": sorted(k2)}))
    return fails, info


def _norm_lines(fn, text):
    ls = strip(text).split("\n")
    # the order of lines inside a chromosome follows the read clusters: read-level files and tables are compared as multisets
    return sorted(ls) if fn.endswith(".tsv") or fn.endswith(".bed") else ls


def differential(md, cls, full, workdir, tag):
    """run the data set once more without the alignment records that `full` did not report and compare the outputs"""
    got = parse_assignments(full["files"]["S.read_assignments.tsv"])
    keep = {}
    removed = 0
    for name, alns in md.reads:
        kept = set(got.get(name, {}).keys())
        ks = set()
        for k in range(len(alns)):
            c = cls.get("%s~%d" % (name, k))
            if c and (set(c.keys()) & kept):
                ks.add(k)
            else:
                removed += 1
        keep[name] = ks
    info = {"differential_records_removed": removed}
    if not removed:
        return [], info
    red = run(md.build(keep=keep), workdir, tag + "_red")
    if red["rc"] != 0 or "S.read_assignments.tsv" not in red["files"]:
        return [("pipeline:run_failed", "run without the losing records: rc=%s %s" % (red["rc"], red["log"][-600:]))], info
    fails = []
    models_full = models_red = 0
    for fn in OUT_DIFFERENTIAL:
        a = _norm_lines(fn, open(full["files"][fn]).read()) if fn in full["files"] else None
        b = _norm_lines(fn, open(red["files"][fn]).read()) if fn in red["files"] else None
        if fn == "S.transcript_model_reads.tsv":
            multi = tuple(n + "\t" for n, _ in md.reads)
            models_full = sum(1 for l in (a or []) if l.startswith(multi) and not l.endswith("\t*"))
            models_red = sum(1 for l in (b or []) if l.startswith(multi) and not l.endswith("\t*"))
        if a != b:
            only_a = [l for l in (a or []) if l not in set(b or [])][:4]
            only_b = [l for l in (b or []) if l not in set(a or [])][:4]
            fails.append(("pipeline:loser_changes_outputs",
                          {"file": fn, "records_removed": removed, "only_with_losers": [x[:200] for x in only_a],
                           "only_without_losers": [x[:200] for x in only_b]}))
    info["differential_model_support_lines"] = max(models_full, models_red)
    return fails, info


# ------------------------------------------------------------------------------------------------
# correspondence: verdict files of both modes vs the model's prediction from the dump files

def interned(objs_by_chr, verdict_objs):
    """order-preserving interning of the strings of all records"""
    names = {"read": set(), "chr": set(), "iso": set(), "gene": set()}
    allobjs = [o for l in objs_by_chr.values() for o in l] + verdict_objs
    for o in allobjs:
        names["read"].add(o.read_id)
        names["chr"].add(o.chr_id)
        names["iso"].update(o.isoforms)
        names["gene"].update(o.genes)
    return {k: {s: i for i, s in enumerate(sorted(v))} for k, v in names.items()}


def to_num(o, rk):
    p = o.penalty_score * G.SHORT_FLOAT_MULTIPLIER
    return {"aid": o.assignment_id, "read": rk["read"][o.read_id], "chr": rk["chr"][o.chr_id], "start": o.start, "end": o.end,
            "region": [o.genomic_region[0], o.genomic_region[1]], "mm": bool(o.multimapper), "polya": bool(o.polyA_found),
            "atype": o.assignment_type.name, "gtype": o.gene_assignment_type.name, "pen": int(p),
            "iso": [rk["iso"][i] for i in o.isoforms], "genes": [rk["gene"][g] for g in o.genes]}


def verdicts_vs_model(ctx, md, workdir, tag):
    DP, IA = _mods()
    from props import C08flow
    ds = md.build()
    lengths = collections.OrderedDict((n, len(s)) for n, s in ds.chroms.items())
    order = sorted(lengths.keys(), key=lambda x: lengths[x], reverse=True)
    for hm, th in ((False, 1), (True, 1), (True, 2)):
        r = run(ds, workdir, tag + ("_kh%d" % th if hm else "_kd"), extra=["--keep_tmp"] + (["--high_memory"] if hm else []),
                threads=th)
        ctx.evaluations += 1
        ctx.count("op:pipeline_verdicts:" + ("high_memory" if hm else "default") + ("_threads%d" % th))
        if r["rc"] != 0:
            ctx.disagree("pipeline_verdicts", {"seed": md.seed, "high_memory": hm, "threads": th}, None, {"error": "error", "log": r["log"][-400:]})
            continue
        aux = os.path.join(r["out"], "S", "aux")
        objs = collections.OrderedDict()
        for c in order:
            ld = DP.BasicReadAssignmentLoader(os.path.join(aux, "S.save_" + c))
            lst = []
            while ld.has_next():
                for a in ld.get_next():
                    if a is not None:
                        lst.append(a)
            objs[c] = lst
        # monitor (hypothesis audit G5): `huniq` of loader_applies_verdict / losers_never_loaded - the (assignment id,
        # chromosome) pairs of the records one run saves are pairwise different (ids come from the per-chromosome counter,
        # C06 `collect_ids_increasing`); a repeated pair means those theorems say nothing about this run
        seen = collections.Counter((a.assignment_id, a.chr_id) for c in order for a in objs[c])
        ctx.count("monitor:aid_chr_unique:records", sum(seen.values()))
        rep = sorted(k for k, v in seen.items() if v > 1)
        if rep:
            ctx.disagree("monitor_aid_chr_unique", {"seed": md.seed, "high_memory": hm, "threads": th},
                         "pairwise different (assignment id, chromosome)", {"repeated": rep[:10], "records": sum(seen.values())})
        vfiles = {c: C08flow.read_verdict_file(os.path.join(aux, "S.save_multimappers_" + c), c) for c in order}
        vobjs = [a for v in vfiles.values() for l in v.values() for a in l]
        rk = interned(objs, vobjs)
        stream = [to_num(o, rk) for c in order for o in objs[c]]
        out = ctx.driver.run([vlib.req("C08.group", records=stream, strategy="take_best", high_memory=hm,
                                       pickled=(hm and th > 1))])[0]
        impl = {str(rk["chr"][c]): [[rk["read"][rid], [to_num(a, rk) for a in lst]] for rid, lst in vfiles[c].items()] for c in order}
        if isinstance(out, dict) or any(vlib.is_err(kv[1]) for kv in out):
            ctx.disagree("pipeline_verdicts", {"seed": md.seed, "high_memory": hm, "threads": th}, out, impl)
            continue
        vs = ctx.driver.run([vlib.req("C08.verdicts_for", chr=rk["chr"][c], resolved=out) for c in order])
        model = {str(rk["chr"][c]): v for c, v in zip(order, vs)}
        ctx.traces_validated += 1
        if model != vlib.canon(impl):
            ctx.disagree("pipeline_verdicts", {"seed": md.seed, "high_memory": hm, "threads": th, "stream": stream}, model, impl)
        elif any(v for v in model.values()):
            ctx.mark_nontrivial(["pipeline_verdicts", md.seed, hm, th])
            ctx.count("pipeline_multimapped_reads", sum(len(v) for v in model.values()))


def datasets(ctx):
    quick = ctx.tier == "quick"
    n = 1 if quick else 6
    res = []
    for i in range(n):
        seed = ctx.rng.randrange(10 ** 6)
        import random
        r = random.Random(seed)
        res.append(MS.random_dataset(r, seed, n_reads=21 if quick else 30, n_chroms=3))
    return res


def correspondence(ctx):
    work = P.scratch("isoverif_c08pipe_")
    try:
        for i, md in enumerate(datasets(ctx)):
            verdicts_vs_model(ctx, md, work, "c%d" % i)
    finally:
        shutil.rmtree(work, ignore_errors=True)


def oracle(ctx, disagreements, broken):
    work = P.scratch("isoverif_c08pipe_")
    total = 0
    try:
        for i, md in enumerate(datasets(ctx)):
            fails, info = check_dataset(md, work, "o%d" % i, thorough=(ctx.tier != "quick"))
            total += info.get("multi_reads_checked", 0)
            ctx.extra["pipeline_differential_records_removed"] = (ctx.extra.get("pipeline_differential_records_removed", 0)
                                                                  + info.get("differential_records_removed", 0))
            ctx.extra["pipeline_model_support_lines_of_multimapped_reads"] = (
                ctx.extra.get("pipeline_model_support_lines_of_multimapped_reads", 0) + info.get("differential_model_support_lines", 0))
            seen = set()
            for kind, detail in fails:
                sig = (kind, detail.get("retained") if isinstance(detail, dict) and kind == "read_total_gt_one" else str(detail)[:300])
                if sig in seen:
                    continue
                seen.add(sig)
                ctx.fail(kind, {"dataset_seed": md.seed, "n_reads": md.n_groups, "level": "pipeline"}, detail)
    finally:
        shutil.rmtree(work, ignore_errors=True)
    ctx.extra["pipeline_multi_reads_checked"] = total


def replay(ctx, failure):
    import random
    seed = failure["input"]["dataset_seed"]
    md = MS.random_dataset(random.Random(seed), seed, n_reads=failure["input"].get("n_reads", 14), n_chroms=3)
    work = P.scratch("isoverif_c08pipe_")
    try:
        fails, _ = check_dataset(md, work, "r", thorough=True)
        return any(k == failure["kind"] for k, _ in fails)
    finally:
        shutil.rmtree(work, ignore_errors=True)
