"""C11 extension — exon / intron counting (Model/FeatureCounts.lean, C13) under translation.
Theorems: lean/IsoVerif/Props/C11Counts.lean.  Real code: src/long_read_profiles.py construct_exon_profile /
construct_intron_profile, src/gene_info.py GeneInfo.set_feature_properties, src/long_read_counter.py ExonCounter /
IntronCounter (add_read_info, dump)."""
import vlib
from gen import c11gen as T
from gen import c13_features as F
from props.c11ext import Rel

PROPS = ["IsoVerif/Props/C11Counts.lean", "IsoVerif/Props/C11Ids.lean", "IsoVerif/Props/C11Sites.lean"]
TARGETS = ["IsoVerif.Props.C11Counts", "IsoVerif.Props.C11Ids", "IsoVerif.Props.C11Sites"]


def _c13():
    from props import C13 as M
    return M


def _c17():
    from props import C17 as M
    return M


def _exon_history_impl(kw):
    M = _c17()
    try:
        return M.impl_call("exon_history", kw)
    except M.StubUnavailable:
        return {"error": "stub_unavailable"}


def _tl(l):
    return [tuple(x) for x in l]


def _sl(k, l):
    return [list(x) for x in T.shift_l(k, _tl(l))]


def no_coll(k, p):
    return p == -1 or p + k != -1


def _prof_tin(par, kw):
    k = par["k"]
    return dict(kw, known=_sl(k, kw["known"]), gene_region=list(T.shift_iv(k, tuple(kw["gene_region"]))),
                blocks=_sl(k, kw["blocks"]), polya=T.shift_pos(k, kw["polya"]), polyt=T.shift_pos(k, kw["polyt"]))


def shift_fi(k, f):
    return dict(f, start=f["start"] + k, end=f["end"] + k)


def _strip_text(rows):
    return rows if vlib.is_err(rows) else [{x: v for x, v in r.items() if x != "text"} for r in rows]


def _props_eq(a, b):
    if vlib.is_err(a) or vlib.is_err(b):
        return vlib.same(a, b)
    return a["props"] == b["props"]


def _shift_text(k, t):
    p = t.split("\t")
    p[1], p[2] = str(int(p[1]) + k), str(int(p[2]) + k)
    return "\t".join(p)


RELS = [
    Rel("S.exon_profile", "shift_equivariant_constructExonProfile",
        model=lambda kw: vlib.req("C13.exon_profile", **kw), impl=lambda kw: _c13().impl_profile("exon_profile", kw),
        tin=_prof_tin, tout=lambda par, kw, v: v,
        domain=lambda par, kw: no_coll(par["k"], kw["polya"]) and no_coll(par["k"], kw["polyt"]),
        nontrivial=lambda kw, v: not vlib.is_err(v) and any(x in (1, -1) for x in v["gene"])),
    Rel("S.intron_profile", "shift_equivariant_constructIntronProfile",
        model=lambda kw: vlib.req("C13.intron_profile", **kw), impl=lambda kw: _c13().impl_profile("intron_profile", kw),
        tin=_prof_tin, tout=lambda par, kw, v: v,
        domain=lambda par, kw: no_coll(par["k"], kw["polya"]) and no_coll(par["k"], kw["polyt"]),
        nontrivial=lambda kw, v: not vlib.is_err(v) and any(x in (1, -1) for x in v["gene"])),
    Rel("S.feature_properties", "shift_equivariant_setFeatureProperties",
        model=lambda kw: vlib.req("C13.feature_properties", **kw), impl=lambda kw: _c13().impl_feature_properties(kw),
        tin=lambda par, kw: dict(kw, features=_sl(par["k"], kw["features"]),
                                 isoforms=[dict(t, feats=_sl(par["k"], t["feats"])) for t in kw["isoforms"]]),
        tout=lambda par, kw, v: {"props": [shift_fi(par["k"], f) for f in v["props"]]},
        eq=_props_eq,
        nontrivial=lambda kw, v: not vlib.is_err(v) and len(v["props"]) > 0),
    Rel("S.count_rows", "shift_equivariant_count_rows",
        model=lambda kw: vlib.req("C13.count_dump", **{x: v for x, v in kw.items() if x != "_which"}),
        impl=lambda kw: _c13().impl_count_dump({x: v for x, v in kw.items() if x != "_which"}, kw["_which"]),
        tin=lambda par, kw: dict(kw, pmaps=[[shift_fi(par["k"], f) for f in pm] for pm in kw["pmaps"]]),
        tout=lambda par, kw, v: [dict(shift_fi(par["k"], r), text=_shift_text(par["k"], r["text"])) for r in v],
        nontrivial=lambda kw, v: not vlib.is_err(v) and len(v) > 0),
]

RELS.append(
    Rel("S.exon_ids", "shift_equivariant_exon_ids (C17 FeatureIdStorage: same exon_id for the shifted exon)",
        model=lambda kw: vlib.req("C17.exon_history", **kw), impl=_exon_history_impl,
        tin=lambda par, kw: dict(kw, genedb=None if kw["genedb"] is None else
                                 [dict(f, start=f["start"] + par["k"], end=f["end"] + par["k"]) for f in kw["genedb"]],
                                 calls=[[c[0], c[1] + par["k"], c[2] + par["k"], c[3]] for c in kw["calls"]]),
        tout=lambda par, kw, v: v,
        nontrivial=lambda kw, v: not vlib.is_err(v) and len(v) > 0))

def _c18():
    from props import C18 as M
    return M


WRAP_WITNESS = {"seq": "CCCCAGCGTC", "start": 1, "intron": [-2, 6]}


def _dom_insert(par, kw):
    """`insert_bases_siteRaw`: intron inside the chromosome; `insert_bases_wrap_witness`: a negative slice index wraps"""
    it = kw["intron"] if "intron" in kw else None
    its = [it] if it is not None else kw["introns"]
    if all(kw["start"] <= a and kw["start"] + 1 <= b for a, b in its):
        return True
    return "witness" if vlib.canon(kw) == WRAP_WITNESS and par["k"] == 3 else False


RELS += [
    # region start shifted with the intron (what the pipeline does: the reference region is re-cut)
    Rel("S.get_intron_strand", "shift_equivariant_getIntronStrand",
        model=lambda kw: vlib.req("C18.get_intron_strand", **kw), impl=lambda kw: _c18().impl_call("get_intron_strand", kw),
        tin=lambda par, kw: dict(kw, start=kw["start"] + par["k"], intron=list(T.shift_iv(par["k"], tuple(kw["intron"])))),
        tout=lambda par, kw, v: v, nontrivial=lambda kw, v: v in ("+", "-")),
    Rel("S.common_get_strand", "shift_equivariant_commonGetStrand",
        model=lambda kw: vlib.req("C18.common_get_strand", **kw), impl=lambda kw: _c18().impl_call("common_get_strand", kw),
        tin=lambda par, kw: dict(kw, start=kw["start"] + par["k"], introns=_sl(par["k"], kw["introns"])),
        tout=lambda par, kw, v: v, nontrivial=lambda kw, v: v in ("+", "-")),
    # the statement of C11 literally: k bases inserted at the start of the chromosome
    Rel("S.insert_bases_site_raw", "insert_bases_siteRaw / insert_bases_wrap_witness",
        model=lambda kw: vlib.req("C18.site_raw", **kw), impl=lambda kw: _c18().impl_call("site_raw", kw),
        tin=lambda par, kw: dict(kw, seq="N" * par["k"] + kw["seq"], intron=list(T.shift_iv(par["k"], tuple(kw["intron"])))),
        tout=lambda par, kw, v: v, domain=_dom_insert,
        nontrivial=lambda kw, v: not vlib.is_err(v) and len(v[0]) == 2 and len(v[1]) == 2),
    Rel("S.insert_bases_intron_strand", "insert_bases_getIntronStrand",
        model=lambda kw: vlib.req("C18.get_intron_strand", **kw), impl=lambda kw: _c18().impl_call("get_intron_strand", kw),
        tin=lambda par, kw: dict(kw, seq="N" * par["k"] + kw["seq"], intron=list(T.shift_iv(par["k"], tuple(kw["intron"])))),
        tout=lambda par, kw, v: v, domain=lambda par, kw: _dom_insert(par, kw) is True,
        nontrivial=lambda kw, v: v in ("+", "-")),
]

KS = [1, 255, 256, 1000, -7]
SITE_PAIRS = [("GT", "AG"), ("GC", "AG"), ("AT", "AC"), ("CT", "AC"), ("CT", "GC"), ("GT", "AT"), ("AA", "TT"), ("gt", "ag")]


def _site_cases(rng, n):
    out = []
    for _ in range(n):
        l, r = rng.choice(SITE_PAIRS)
        a = rng.randint(0, 6)
        mid = "".join(rng.choice("ACGT") for _ in range(rng.randint(0, 12)))
        tail = "".join(rng.choice("ACGT") for _ in range(rng.randint(0, 5)))
        seq = "".join(rng.choice("ACGT") for _ in range(a)) + l + mid + r + tail
        start = rng.choice([1, 1, 100])
        it = [start + a, start + a + len(l + mid + r) - 1]
        if rng.random() < 0.15:      # hanging over an end: outside the hypothesis of the insertion theorems
            it = [it[0] - rng.randint(1, 4), it[1]]
        out.append((seq, start, it))
    return out


def cases(ctx):
    rng = ctx.rng
    quick = ctx.tier == "quick"
    out = []
    pc = F.profile_cases(rng, quick)
    pc = rng.sample(pc, min(len(pc), 1200 if quick else 12000))
    for op, kw in pc:
        out.append(("S." + op, {"k": rng.choice(KS)}, kw))
    iso_sets = F.small_isoform_sets(rng, quick)
    iso_sets = rng.sample(iso_sets, min(len(iso_sets), 150 if quick else 1500))
    for _ in range(30 if quick else 300):
        iso_sets.append(F.genome_annotation(rng, micro=rng.random() < 0.3))
    for isos in iso_sets:
        for kind in ("exon", "intron"):
            ii = isos if kind == "exon" else [dict(t, feats=F.junctions(t["feats"])) for t in isos]
            feats = sorted({tuple(e) for t in ii for e in t["feats"]})
            kw = {"chr": "chrQ", "d": rng.choice([0, 1, 2, 6]), "features": [list(f) for f in feats], "isoforms": ii,
                  "next_id": rng.randint(0, 50)}
            out.append(("S.feature_properties", {"k": rng.choice(KS)}, kw))
    for i in range(120 if quick else 1500):
        h = F.history_case(rng, quick, malformed=(i % 7 == 0))
        kw = dict(h, key="coord", ignore_groups=rng.random() < 0.5, _which="exon" if i % 2 else "intron")
        out.append(("S.count_rows", {"k": rng.choice(KS)}, kw))
    out.append(("S.insert_bases_site_raw", {"k": 3}, dict(WRAP_WITNESS)))
    for seq, start, it in _site_cases(rng, 200 if quick else 3000):
        k = rng.choice([1, 3, 255, 256, 1000])
        out.append(("S.get_intron_strand", {"k": rng.choice(KS)}, {"intron": it, "seq": seq, "start": start}))
        out.append(("S.common_get_strand", {"k": rng.choice(KS)}, {"introns": [it], "seq": seq, "start": start}))
        out.append(("S.insert_bases_site_raw", {"k": k}, {"seq": seq, "start": start, "intron": it}))
        out.append(("S.insert_bases_intron_strand", {"k": k}, {"intron": it, "seq": seq, "start": start}))
    from gen import ids as GI
    for _ in range(80 if quick else 800):
        chrom = rng.choice(GI.CHROMS)
        feats = GI.rand_exon_reference(rng, chrom)
        dist = None
        if rng.random() < 0.2:
            g, t = GI.rand_ref_ids(rng, chrom)
            dist = {"genes": g, "transcripts": t}
        calls = [list(c) for c in GI.rand_calls(rng, chrom, feats)]
        out.append(("S.exon_ids", {"k": rng.choice([1, 255, 256, 1000])},
                    {"dist": dist, "genedb": None if rng.random() < 0.1 else feats, "chr": chrom, "calls": calls}))
    return out
