"""C03 — output annotations are well-formed and reproduce reference transcripts verbatim.

correspondence: the Lean model (Model/Gtf.lean, through the driver) against the real `validate_exons`,
`GFFPrinter.dump` (call histories on one printer, GTF parsed back), `TranscriptModel.from_reference_transcript`,
`create_extended_storage` (real gffutils database), `get_exons`, `correct_novel_transcript_ends`,
`generate_monoexon_from_clustered`, `merge_files` (order of concatenation); props/C03ref.py: exon-less transcript records,
the second loop of `TranscriptToGeneJoiner.__init__`, the task list (= FASTA keys) of the extended annotation.
oracle: every clause of the property statement (a) on the real printer for call histories inside the
assumption interface, (b) on the two GTF files written by the real pipeline for synthetic multi-chromosome data
(with / without annotation, several construction strategies and data types) against the input GTF and the .fai.
"""
import logging
import os
import shutil
import tempfile
import types

import vlib
import pipeline as P
from gen import c03gen as G

ID = "C03"
PROPS = ["IsoVerif/Props/C03.lean", "IsoVerif/Props/C03Hist.lean", "IsoVerif/Props/C03Build.lean",
         "IsoVerif/Props/C03Merge.lean", "IsoVerif/Props/C03Whole.lean", "IsoVerif/Props/C03Paths.lean",
         "IsoVerif/Props/C03Text.lean", "IsoVerif/Props/C03TextOrder.lean", "IsoVerif/Props/C03Ref.lean",
         "IsoVerif/Props/C03Check.lean"]
TARGETS = ["IsoVerif.Props.C03", "IsoVerif.Props.C03Hist", "IsoVerif.Props.C03Build", "IsoVerif.Props.C03Merge",
           "IsoVerif.Props.C03Whole", "IsoVerif.Props.C03Paths", "IsoVerif.Props.C03Text", "IsoVerif.Props.C03TextOrder",
           "IsoVerif.Props.C03Ref", "IsoVerif.Props.C03Check"]
GEN_DEPS = ["Prims", "Enums", "Constants", "Strategies", "ModelConstruction", "GtfFormat"]
LEVEL = "proof"
RULE = ("dump call histories: exhaustive universe (every single call of <=2 models from a 12-model pool x 2 contexts, "
        "all ordered pairs of a sample of them) + seeded random histories (<=4 calls, <=5 models, recurring genes, "
        "malformed exon lists, chromosome mismatches, reference regions); real gffutils databases for the reference "
        "path; end correction / get_exons / mono-exon / merge order on seeded random cases; a case is non-trivial when "
        "the model returns a non-error value with at least one output line (or a non-empty list) and model == "
        "implementation; distinct by (op, input)")
TRUSTED = ["identifiers are interned to naturals, strands to 0/1/2, feature kinds to integers order-isomorphic to the "
           "Python string order of the kind names (harness/props/C03.py: KINDS)",
           "the attribute column of the GTF (source, exon_id, additional attributes) is outside the interned model "
           "(Model/Gtf.lean); it is modelled at text level by Model/GtfText.lean (props/C03text.py: raw text compared byte for byte)",
           "text level: feature_attributes of a GeneInfo is a defaultdict(str); the empty entry a read of a missing key inserts "
           "is not modelled (visible only for two models with one transcript_id); gffutils' attribute order and its order of "
           "transcripts with equal start are taken as returned by the real database",
           "gffutils returns the annotation's genes / transcripts / exons as written (reference path compared on real databases)",
           "harness/pipeline.parse_gtf and the GTF validator of this file"]
ASSUMPTIONS = ["assumption interface of the unmodelled intron graph (monitored on every pipeline output, not proved): "
               "intron paths are strictly increasing and inside the transcript range, so that get_exons yields sorted "
               "disjoint exons; exons lie within the chromosome",
               "transcript ids handed to one printer are pairwise distinct (id distributor / detected_known_isoforms; C17)",
               "all models attributed to one gene carry the gene's strand (select_reference_gene / TranscriptToGeneJoiner)",
               "the input annotation is itself well-formed as far as gene records go (they contain their transcripts); that the exon "
               "records of a reference transcript are sorted and pairwise disjoint is no longer assumed: the input check guarantees it "
               "(Model/GtfCheck.lean, Props/C03Check.lean: checked_exons_sd, checked_reference_models_sd; correspondence exon_check on "
               "the real check_gtf_duplicates, GTF and GFF3) - it holds for runs that use the check (a run with --no_gtf_check or a "
               "pre-built .db vouches for the annotation itself)",
               "reading rule docs/C03.md 10.3: 'every reference transcript' = transcript records with >= 1 exon record, passing the "
               "gate, on a sequence of the reference FASTA, of a gene whose gene_id is used on one sequence - provided the log names "
               "what is left out (props/C03ref.py checks exactly that; a silent omission or an abort is a failure)"]

STRANDS = "+-."
logging.getLogger("IsoQuant").setLevel(logging.CRITICAL)


def _mods():
    vlib.repo_on_path()
    import src.transcript_printer as TP
    import src.gene_info as GI
    import src.common as C
    import src.graph_based_model_construction as GB
    import src.file_utils as FU
    import src.id_policy as IDP
    return TP, GI, C, GB, FU, IDP


def kinds():
    """feature kind names in Python string order; code = index - index('exon')"""
    TP, GI, C, GB, FU, IDP = _mods()
    names = sorted(set(GI.GeneInfo.OTHER_FEATURES) | {"exon"})
    z = names.index("exon")
    return {n: i - z for i, n in enumerate(names)}


class FakeGeneInfo:
    """exactly what GFFPrinter.dump reads from a GeneInfo"""

    def __init__(self, ctx):
        self.chr_id = "c%d" % ctx["chr"]
        self._regions = {"G%d" % g: tuple(r) for g, r in ctx["regions"]}
        self.feature_attributes = {}
        self.sources = {}

    def empty(self):
        return not self._regions

    def get_gene_regions(self):
        return self._regions


def to_real_model(m):
    TP, GI, C, GB, FU, IDP = _mods()
    inv = {v: k for k, v in kinds().items()}
    tt = GI.TranscriptModelType.known if m["known"] else GI.TranscriptModelType.novel_not_in_catalog
    return GI.TranscriptModel("c%d" % m["chr"], STRANDS[m["strand"]], "T%d" % m["tid"], "G%d" % m["gid"],
                              [tuple(e) for e in m["exons"]], tt,
                              other_features=[(a, b, inv[k]) for a, b, k in m["other"]])


def lines_of_gtf(path, intern=True):
    """GTF -> model line encoding"""
    kd = kinds()
    res = []

    def num(s):
        return int(s[1:]) if intern else s

    for r in P.parse_gtf(path):
        st = STRANDS.index(r["strand"]) if intern else r["strand"]
        c = num(r["chr"])
        a = r["attrs"]
        if r["feature"] == "gene":
            res.append(["gene", c, r["start"], r["end"], st, num(a["gene_id"]), int(a["transcripts"])])
        elif r["feature"] == "transcript":
            res.append(["tx", c, r["start"], r["end"], st, num(a["gene_id"]), num(a["transcript_id"])])
        else:
            res.append(["feat", c, kd[r["feature"]], r["start"], r["end"], st, num(a["gene_id"]), num(a["transcript_id"]),
                        int(a["exon_number"])])
    return res


_counter = [0]


def real_history(calls, scratch, gene_infos=None):
    """run the real GFFPrinter on a history of dump calls; -> {'lines': [...]} or the error enum"""
    TP, GI, C, GB, FU, IDP = _mods()
    _counter[0] += 1
    name = "s%d" % _counter[0]
    printer = TP.GFFPrinter(scratch, name, IDP.FeatureIdStorage(IDP.SimpleIDDistributor()), output_r2t=False)
    err = None
    try:
        for i, c in enumerate(calls):
            gi = gene_infos[i] if gene_infos else FakeGeneInfo(c["ctx"])
            printer.dump(gi, [to_real_model(m) for m in c["models"]])
    except (AssertionError, IndexError, KeyError) as ex:
        err = {"error": "error", "exc": type(ex).__name__}
    finally:
        printer.out_gff.close()
    path = printer.model_fname
    try:
        if err:
            return err
        return {"lines": lines_of_gtf(path), "printed": sorted(int(g[1:]) for g in printer.printed_gene_ids)}
    finally:
        os.remove(path)


def canon_calls(calls):
    return vlib.canon(calls)


# ------------------------------------------------------------------------------------------------
# reference path on a real gffutils database


def make_db(ann, scratch):
    import gffutils
    _counter[0] += 1
    gtf = os.path.join(scratch, "ann%d.gtf" % _counter[0])
    with open(gtf, "w") as f:
        f.write(G.annotation_gtf(ann))
    db = gffutils.create_db(gtf, ":memory:", force=True, keep_order=True, merge_strategy="error",
                            sort_attribute_values=True, disable_infer_transcripts=True, disable_infer_genes=True)
    os.remove(gtf)
    return db


class Interner:
    def __init__(self):
        self.d = {}

    def __call__(self, s):
        if s not in self.d:
            self.d[s] = len(self.d)
        return self.d[s]


def ctx_of_annotation(ann, gene_order, it_g, it_t):
    """the model's GeneCtx for a chromosome-wide GeneInfo, built from the *generated* annotation; genes in the
    order gffutils returned them (trusted), transcripts of a gene by start (order_by='start'; ties as written)"""
    kd = kinds()
    byid = {g["gid"]: g for g in ann["genes"]}
    iso = []
    regions = []
    for gid in gene_order:
        g = byid[gid]
        regions.append((it_g(gid), (g["start"], g["end"])))
        for t in sorted(g["transcripts"], key=lambda t: t["exons"][0][0]):
            iso.append({"tid": it_t(t["tid"]), "gid": it_g(gid), "strand": STRANDS.index(g["strand"]),
                        "exons": t["exons"], "other": [(a, b, kd["CDS"]) for a, b in t["cds"]]})
    return {"chr": 1, "regions": regions, "isoforms": iso}


def canon_tx_blocks(lines):
    """lines -> [gene line, sorted transcript blocks...] per gene in file order; transcript blocks of a gene are
    compared as a set (gffutils' tie order between transcripts with equal start is not modelled)"""
    genes = []
    cur = None
    for l in lines:
        if l[0] == "gene":
            cur = {"gene": l, "tx": []}
            genes.append(cur)
        elif l[0] == "tx":
            if cur is None or cur["gene"][5] != l[5]:
                cur = {"gene": None, "tx": []}
                genes.append(cur)
            cur["tx"].append([l])
        else:
            cur["tx"][-1].append(l)
    for g in genes:
        g["tx"].sort(key=lambda b: b[0][6])
    return [[g["gene"], g["tx"]] for g in genes]


def extended_case(ctx_run, rng, scratch):
    """one correspondence case of create_extended_storage + dump + from_reference_transcript"""
    TP, GI, C, GB, FU, IDP = _mods()
    ann = G.annotation(rng)
    db = make_db(ann, scratch)
    it_g, it_t = Interner(), Interner()
    chr_len = max(g["end"] for g in ann["genes"]) + 100
    chr_record = "A" * chr_len
    # novel models: some in reference genes, some in novel genes
    novel = []
    for k in range(rng.randint(0, 3)):
        ex = G.sd_exons(rng, maxc=600)
        if rng.random() < 0.5:
            g = rng.choice(ann["genes"])
            gid, strand = g["gid"], g["strand"]
        else:
            gid, strand = "novel_gene_c1_%d" % k, rng.choice("+-.")
        novel.append({"tid": "transcript%d.c1.nnic" % k, "gid": gid, "strand": strand, "exons": ex})
    real_novel = [GI.TranscriptModel("c1", n["strand"], n["tid"], n["gid"], [tuple(e) for e in n["exons"]],
                                     GI.TranscriptModelType.novel_not_in_catalog) for n in novel]
    all_models, gene_info = TP.create_extended_storage(db, "c1", chr_record, real_novel)
    gene_order = [g.id for g in gene_info.gene_db_list]
    mctx = ctx_of_annotation(ann, gene_order, it_g, it_t)
    mnovel = [{"chr": 1, "strand": STRANDS.index(n["strand"]), "tid": it_t(n["tid"]), "gid": it_g(n["gid"]),
               "exons": n["exons"], "known": False, "other": []} for n in novel]
    mo = ctx_run.driver.run([vlib.req("C03.extended_dump", ctx=mctx, novel=mnovel)])[0]
    # real: storage summary + dump
    kd = kinds()
    real_storage = sorted([[it_t(m.transcript_id), it_g(m.gene_id), STRANDS.index(m.strand), vlib.canon(m.exon_blocks),
                            m.transcript_type == GI.TranscriptModelType.known,
                            sorted(vlib.canon([(a, b, kd[k]) for a, b, k in m.other_features]))] for m in all_models])
    _counter[0] += 1
    printer = TP.GFFPrinter(scratch, "e%d" % _counter[0], IDP.FeatureIdStorage(IDP.SimpleIDDistributor()), output_r2t=False)
    err = None
    try:
        printer.dump(gene_info, all_models)
    except (AssertionError, IndexError, KeyError) as ex:
        err = {"error": "error", "exc": type(ex).__name__}
    printer.out_gff.close()
    raw = lines_of_gtf(printer.model_fname, intern=False)
    os.remove(printer.model_fname)
    real_lines = []
    for l in raw:
        l = list(l)
        l[1] = 1
        l[4 if l[0] != "feat" else 5] = STRANDS.index(l[4 if l[0] != "feat" else 5])
        if l[0] == "gene":
            l[5] = it_g(l[5])
        elif l[0] == "tx":
            l[5], l[6] = it_g(l[5]), it_t(l[6])
        else:
            l[6], l[7] = it_g(l[6]), it_t(l[7])
        real_lines.append(l)
    inp = {"ann": ann, "novel": novel}
    ctx_run.evaluations += 1
    ctx_run.traces_validated += 1
    ctx_run.count("op:extended_dump")
    if vlib.is_err(mo) or "driver_error" in mo:
        if not (err and vlib.is_err(mo)):
            ctx_run.disagree("extended_dump", inp, mo, err or "ok")
        return
    model_storage = sorted([[m["tid"], m["gid"], m["strand"], m["exons"], m["known"], sorted(m["other"])] for m in mo["storage"]])
    if model_storage != real_storage:
        ctx_run.disagree("extended_storage", inp, model_storage, real_storage)
        return
    md = mo["dump"]
    if vlib.is_err(md) != bool(err):
        ctx_run.disagree("extended_dump", inp, md, err or "ok")
        return
    if not err:
        a, b = canon_tx_blocks(md["lines"]), canon_tx_blocks(real_lines)
        if a != b:
            ctx_run.disagree("extended_dump", inp, a, b)
            return
        ctx_run.mark_nontrivial(["extended_dump", inp])
    # from_reference_transcript on every isoform + one missing id
    for r in mctx["isoforms"]:
        tname = [k for k, v in it_t.d.items() if v == r["tid"]][0]
        m = GI.TranscriptModel.from_reference_transcript(gene_info, tname)
        real = {"chr": 1, "strand": STRANDS.index(m.strand), "tid": it_t(m.transcript_id), "gid": it_g(m.gene_id),
                "exons": vlib.canon(m.exon_blocks), "known": m.transcript_type == GI.TranscriptModelType.known,
                "other": sorted(vlib.canon([(a, b, kd[k]) for a, b, k in m.other_features]))}
        mo1 = ctx_run.driver.run([vlib.req("C03.from_reference", ctx=mctx, isoform=r["tid"])])[0]
        ctx_run.evaluations += 1
        ctx_run.traces_validated += 1
        ctx_run.count("op:from_reference")
        if not vlib.is_err(mo1):
            mo1["other"] = sorted(mo1["other"])
        if mo1 != real:
            ctx_run.disagree("from_reference", {"ann": ann, "isoform": tname}, mo1, real)
        else:
            ctx_run.mark_nontrivial(["from_reference", ann, tname])
    mo2 = ctx_run.driver.run([vlib.req("C03.from_reference", ctx=mctx, isoform=10 ** 6)])[0]
    try:
        GI.TranscriptModel.from_reference_transcript(gene_info, "no_such_isoform")
        real2 = "ok"
    except KeyError:
        real2 = {"error": "error"}
    ctx_run.evaluations += 1
    ctx_run.count("op:from_reference")
    ctx_run.count("model_error")
    if not (vlib.is_err(mo2) and vlib.is_err(real2)):
        ctx_run.disagree("from_reference", {"ann": ann, "isoform": None}, mo2, real2)


# ------------------------------------------------------------------------------------------------
# constructors


def real_fl_novel_exons(kw):
    """the two statements of construct_fl_isoforms that build a novel exon list, extracted from the current source
    (the assignment `novel_exons = get_exons(...)` and the statement that follows it) and executed on the real
    get_exons; -> exon list, or None when the path is skipped (`continue`)"""
    import ast
    import inspect
    TP, GI, C, GB, FU, IDP = _mods()
    src = inspect.getsource(GB.GraphBasedModelConstructor.construct_fl_isoforms)
    import textwrap
    fn = ast.parse(textwrap.dedent(src)).body[0]
    loop = [n for n in fn.body if isinstance(n, ast.For)][0]
    idx = [i for i, n in enumerate(loop.body) if isinstance(n, ast.Assign) and getattr(n.targets[0], "id", None) == "novel_exons"]
    if not idx:
        raise RuntimeError("construct_fl_isoforms no longer assigns novel_exons")
    stmts = [loop.body[idx[0]]]
    nxt = loop.body[idx[0] + 1]
    if isinstance(nxt, ast.If) and "novel_exons" in ast.unparse(nxt.test) and \
            all(isinstance(b, (ast.Continue, ast.Expr)) for b in nxt.body):
        stmts.append(nxt)
    code = "def _f(transcript_range, intron_path, get_exons):\n    for _ in [0]:\n" + \
           "".join(textwrap.indent(ast.unparse(st), "        ") + "\n" for st in stmts) + \
           "        return novel_exons\n    return None\n"
    env = {}
    exec(code, env)
    return vlib.canon(env["_f"](tuple(kw["r"]), tuple(tuple(x) for x in kw["l"]), C.get_exons))


def real_correct_ends(kw):
    TP, GI, C, GB, FU, IDP = _mods()
    fake = types.SimpleNamespace(params=types.SimpleNamespace(apa_delta=kw["apa"]))
    m = GI.TranscriptModel("c1", "+", "T", "G", [tuple(e) for e in kw["exons"]], GI.TranscriptModelType.novel_not_in_catalog)
    # a read is only looked at through corrected_exons[0][0] and corrected_exons[-1][1]
    reads = [types.SimpleNamespace(corrected_exons=[(a, a), (b, b)]) for a, b in kw["reads"]]
    try:
        GB.GraphBasedModelConstructor.correct_novel_transcript_ends(fake, m, reads)
    except IndexError:
        return {"error": "error", "exc": "IndexError"}
    return vlib.canon(m.exon_blocks)


def real_mono_exon(kw):
    """generate_monoexon_from_clustered on one cluster with an empty model storage"""
    TP, GI, C, GB, FU, IDP = _mods()
    cnt = [0]

    def get_id():
        cnt[0] += 1
        return cnt[0]

    fake = types.SimpleNamespace(params=types.SimpleNamespace(min_novel_count=kw["cutoff"]), get_transcript_id=get_id,
                                 gene_info=types.SimpleNamespace(chr_id="c1"), transcript_model_storage=[],
                                 save_assigned_read=lambda a, t: None)
    reads = [types.SimpleNamespace(corrected_exons=[tuple(r)]) for r in kw["reads"]]
    try:
        GB.GraphBasedModelConstructor.generate_monoexon_from_clustered(fake, {kw["three"]: reads}, kw["forward"])
    except (ValueError, IndexError):
        return {"error": "error"}
    if not fake.transcript_model_storage:
        return []
    return vlib.canon(fake.transcript_model_storage[0].exon_blocks)


def real_merge_order(names, scratch, contents=None, header_lines=0):
    """run the real merge_files on per-chromosome files; returns the merged records (ints, or the text lines when the
    contents are text records).  `header_lines` is what the caller of merge_files passes since the repair
    fix_merge_header (0 for both GTF merges); a tree whose merge_files has no such parameter finds the header lines by
    content and is called without it."""
    import inspect
    TP, GI, C, GB, FU, IDP = _mods()
    d = tempfile.mkdtemp(dir=scratch)
    text = bool(contents) and any(isinstance(v, str) for l in contents for v in l)
    try:
        base = os.path.join(d, "S.out.txt")
        for i, n in enumerate(names):
            with open(C.rreplace(base, "S", "S_" + n), "w") as f:
                for v in (contents[i] if contents else [i]):
                    f.write("%s\n" % v if text else "%d\n" % v)
        kw = {"header_lines": header_lines} if "header_lines" in inspect.signature(FU.merge_files).parameters else {}
        with open(base, "w") as out:
            try:
                FU.merge_files(base, "S", names, out, copy_header=False, **kw)
            except TypeError:
                return {"error": "error", "exc": "TypeError"}
        with open(base) as f:
            if text:
                return [l.rstrip("\n") for l in f]
            return [int(x) for x in f.read().split()]
    finally:
        shutil.rmtree(d, ignore_errors=True)


def gtf_like_records(rng, name, header_lines=0):
    """the lines of one per-chromosome file as the printers write them: `header_lines` header lines, then records that
    start with the contig name (GTF, BED) - or with a read id (read_assignments.tsv)"""
    hdr = ["#header %d" % i for i in range(header_lines)]
    first = name if rng.random() < 0.8 else rng.choice(["#read_1", "read_2"])
    return hdr + ["%s\tIsoQuant\t%s\t%d" % (first if i == 0 else name, rng.choice(["gene", "transcript", "exon"]), rng.randint(1, 999))
                  for i in range(rng.randint(0, 4))]


# ------------------------------------------------------------------------------------------------
# correspondence


# the inputs of the Lean `…_witness` theorems / examples (Props/C03*.lean), run through model and implementation on every run
def _m(tid, gid, strand, exons, known=False):
    return {"chr": 0, "strand": strand, "tid": tid, "gid": gid, "exons": exons, "known": known, "other": []}


WITNESS_HISTORIES = {
    "gene_contains_all_transcripts_witness": [
        {"ctx": {"chr": 0, "regions": [(7, (10, 50))], "isoforms": []}, "models": [_m(1, 7, 0, [(10, 20), (30, 40)], True)]},
        {"ctx": {"chr": 0, "regions": [(7, (10, 50))], "isoforms": []}, "models": [_m(2, 7, 0, [(30, 40), (45, 50), (70, 80)])]}],
    "gene_strand_witness": [
        {"ctx": {"chr": 0, "regions": [], "isoforms": []}, "models": [_m(1, 7, 0, [(10, 20)]), _m(2, 7, 1, [(30, 40)])]}],
    "gate_overlap_witness": [
        {"ctx": {"chr": 0, "regions": [], "isoforms": []}, "models": [_m(1, 1, 0, [(1, 10), (2, 5)])]}],
    "empty_exons_abort": [
        {"ctx": {"chr": 0, "regions": [], "isoforms": []}, "models": [_m(1, 1, 0, [])]}],
}
WITNESS_CASES = [
    ("validate_exons", {"l": [(1, 10), (2, 5)]}),
    ("validate_exons", {"l": []}),
    ("get_exons", {"r": (5, 50), "l": [(31, 39), (11, 19)]}),
    ("get_exons", {"r": (5, 50), "l": [(11, 19), (31, 39)]}),
    ("correct_ends", {"exons": [(100, 200), (300, 400)], "reads": [(150, 400), (160, 395)], "apa": 10}),
    ("mono_exon", {"cutoff": 2, "forward": True, "reads": [(40, 90), (35, 95), (50, 99)], "three": 100}),
]


def nontrivial_history(mo):
    return (not vlib.is_err(mo)) and len(mo.get("lines", [])) > 0


def correspondence(ctx):
    TP, GI, C, GB, FU, IDP = _mods()
    rng = ctx.rng
    quick = ctx.tier == "quick"
    scratch = vlib.scratch_dir("isoverif_c03_")
    try:
        # ---- validate_exons
        cases = []
        for _ in range(1500 if quick else 15000):
            cases.append(("validate_exons", {"l": G.exon_list(rng, small=rng.random() < 0.5)}))
        small = [(a, b) for a in range(0, 4) for b in range(0, 4)]
        for a in small:
            cases.append(("validate_exons", {"l": [a]}))
            for b in small:
                cases.append(("validate_exons", {"l": [a, b]}))
        ctx.diff_batch("C03", cases, lambda op, kw: vlib.call_impl(TP.validate_exons, [tuple(x) for x in kw["l"]]),
                       nontrivial=lambda op, kw, mo: mo is True and len(kw["l"]) > 0)
        # ---- dump histories
        one, pool, ctxs = G.small_universe_histories()
        hist = list(one)
        pairs = [(a, b) for a in one for b in one]
        for a, b in rng.sample(pairs, 1500 if quick else 20000):
            hist.append(a + b)
        for _ in range(1500 if quick else 20000):
            hist.append(G.history(rng, small=rng.random() < 0.5))
        hist = list(WITNESS_HISTORIES.values()) + hist
        ctx.extra["history_universe"] = {"pool_models": len(pool), "contexts": len(ctxs), "single_calls": len(one),
                                         "pairs_sampled": len(hist) - len(one)}
        hist = [canon_calls(h) for h in hist]
        outs = ctx.driver.run([vlib.req("C03.dump_history", calls=h) for h in hist])
        for h, mo in zip(hist, outs):
            ctx.evaluations += 1
            ctx.count("op:dump_history")
            ctx.count("calls:%d" % len(h))
            if isinstance(mo, dict) and "driver_error" in mo:
                ctx.disagree("dump_history", {"calls": h}, mo, None)
                continue
            io = real_history(h, scratch)
            ctx.traces_validated += 1
            if vlib.is_err(mo):
                ctx.count("model_error")
            ok = vlib.same(mo, io) if (vlib.is_err(mo) or vlib.is_err(io)) else \
                (mo["lines"] == io["lines"] and sorted(mo["printed"]) == io["printed"])
            if not ok:
                ctx.disagree("dump_history", {"calls": h}, mo, io)
            elif nontrivial_history(mo):
                ctx.mark_nontrivial(["dump_history", h])
                if any(l[0] == "gene" for l in mo["lines"]) and len(h) > 1:
                    ctx.count("history_multi_call_with_gene")
            if len(ctx.samples) < 4 and rng.random() < 0.002:
                ctx.sample({"op": "dump_history", "input": h, "model": mo, "impl": io})
        # ---- reference path on real gffutils databases
        for _ in range(40 if quick else 400):
            extended_case(ctx, rng, scratch)
        # ---- text level: raw lines, attribute column, GeneInfo-side attribute assembly (props/C03text.py)
        from props import C03text
        C03text.correspondence(ctx)
        # ---- reference side of a run: exon-less transcript records, task list = FASTA keys (props/C03ref.py)
        from props import C03ref
        C03ref.correspondence(ctx)
        # ---- constructors
        cases = []
        for _ in range(2500 if quick else 25000):
            cases.append(("correct_ends", G.end_case(rng, small=rng.random() < 0.6)))
        for _ in range(800 if quick else 8000):
            cases.append(("get_exons", G.intron_path_case(rng, small=rng.random() < 0.5)))
        for _ in range(600 if quick else 6000):
            c = G.intron_path_case(rng, small=rng.random() < 0.6)
            if rng.random() < 0.3 and len(c["l"]) > 1:      # touching / overlapping consecutive introns (substitution)
                i = rng.randrange(len(c["l"]) - 1)
                c["l"][i] = (c["l"][i][0], c["l"][i + 1][0] - rng.choice([1, 0, -2]))
            cases.append(("fl_novel_exons", c))
        cases.append(("fl_novel_exons", {"r": (5, 50), "l": [(31, 39), (11, 19)]}))
        for _ in range(400 if quick else 4000):
            n = rng.randint(1, 4)
            reads = [(rng.randint(1, 50), 0) for _ in range(n)]
            reads = [(a, a + rng.randint(0, 30)) for a, _ in reads]
            cases.append(("mono_exon", {"cutoff": rng.choice([0, 1, 2, 3]), "forward": rng.random() < 0.5, "reads": reads,
                                        "three": rng.randint(1, 90)}))
        cases.append(("mono_exon", {"cutoff": 1, "forward": True, "reads": [], "three": 5}))
        cases.append(("mono_exon", {"cutoff": 0, "forward": True, "reads": [], "three": 5}))
        cases.append(("mono_exon", {"cutoff": 0, "forward": False, "reads": [], "three": 5}))
        cases = WITNESS_CASES + cases

        def impl(op, kw):
            if op == "correct_ends":
                return real_correct_ends(kw)
            if op == "get_exons":
                return vlib.call_impl(C.get_exons, tuple(kw["r"]), [tuple(x) for x in kw["l"]])
            if op == "fl_novel_exons":
                return real_fl_novel_exons(kw)
            if op == "mono_exon":
                return real_mono_exon(kw)
            if op == "validate_exons":
                return vlib.call_impl(TP.validate_exons, [tuple(x) for x in kw["l"]])
            raise RuntimeError(op)

        ctx.diff_batch("C03", [(op, vlib.canon(kw)) for op, kw in cases], impl,
                       nontrivial=lambda op, kw, mo: (mo is not None) and (not vlib.is_err(mo)) and (mo is True or (isinstance(mo, list) and len(mo) > 0)))
        # ---- merge order
        cases = []
        name_sets = [["chr01", "chr1"], ["chr1", "chr01"], ["chr10", "chrX", "chr2", "chr1"]]
        name_sets += [G.chr_names(rng) for _ in range(150 if quick else 1500)]
        for names in name_sets:
            contents = [[rng.randint(0, 99) for _ in range(rng.randint(0, 3))] for _ in names]
            cases.append(("merge_files", {"files": [["%s/S_%s.out.txt" % ("/x", n), c] for n, c in zip(names, contents)],
                                          "_names": names, "_contents": contents}))
        lines = [vlib.req("C03.merge_files", files=kw["files"]) for _, kw in cases]
        outs = ctx.driver.run(lines)
        for (op, kw), mo in zip(cases, outs):
            ctx.evaluations += 1
            ctx.count("op:merge_files")
            io = real_merge_order(kw["_names"], scratch, kw["_contents"])
            ctx.traces_validated += 1
            if not vlib.same(mo, io):
                ctx.disagree("merge_files", {"names": kw["_names"], "contents": kw["_contents"]}, mo, io)
            elif not vlib.is_err(mo) and len(kw["_names"]) > 1:
                ctx.mark_nontrivial(["merge_files", kw["_names"], kw["_contents"]])
        # ---- text records (a contig / read name may start with '#'): merge_files with the number of header lines the
        #      writer put (0: GTF, read-to-model; 1: BED; 3: read_assignments.tsv)
        tcases = [{"names": ["#c1", "c2"], "header_lines": 0,
                   "contents": [["#c1\tIsoQuant\tgene\t1", "#c1\tIsoQuant\ttranscript\t2", "#c1\tIsoQuant\texon\t3"],
                                ["c2\tIsoQuant\tgene\t4"]]}]
        for _ in range(150 if quick else 1500):
            names = G.chr_names(rng)
            k = rng.choice([0, 0, 0, 1, 3])
            tcases.append({"names": names, "header_lines": k, "contents": [gtf_like_records(rng, n, k) for n in names]})
        outs = ctx.driver.run([vlib.req("C03.merge_lines", header_lines=c["header_lines"],
                                        files=[["/x/S_%s.out.txt" % n, l] for n, l in zip(c["names"], c["contents"])])
                               for c in tcases])
        for c, mo in zip(tcases, outs):
            ctx.evaluations += 1
            ctx.count("op:merge_lines")
            if any(l and l[c["header_lines"]:][:1] and l[c["header_lines"]].startswith("#") for l in c["contents"]):
                ctx.count("merge_lines:hash_led_first_record")
            io = real_merge_order(c["names"], scratch, c["contents"], c["header_lines"])
            ctx.traces_validated += 1
            if not vlib.same(mo, io):
                ctx.disagree("merge_lines", c, mo, io)
            elif not vlib.is_err(mo) and len(c["names"]) > 1:
                ctx.mark_nontrivial(["merge_lines", c["names"]])
        # ---- merge order observed through the real pipeline (chromosome blocks of the merged GTFs)
        names = rng.sample(["chr1", "chr2", "chr10", "chrX", "2L", "scaffold_3", "chrUn_KI270302v1", "Chr3"], 4)
        spec = {"gen": "pipeline_dataset", "seed": rng.randrange(10 ** 6), "n_chroms": 4, "split_locus": False, "chrom_names": names}
        fails, info = run_pipeline_case(spec, CONFIGS_QUICK[0])
        ctx.evaluations += 1
        ctx.count("op:pipeline_chr_order")
        if info.get("chr_order"):
            fn = lambda c: "/o/S_%s.transcript_models.gtf" % c
            mo = ctx.driver.run([vlib.req("C03.sort_natural", names=[fn(c) for c in info["chroms"]])])[0]
            ctx.traces_validated += 1
            exp = None if vlib.is_err(mo) else [c for n in mo for c in info["chroms"] if n == fn(c) and c in info["chr_order"]]
            if exp != info["chr_order"]:
                ctx.disagree("pipeline_chr_order", {"spec": spec}, exp, info["chr_order"])
            else:
                ctx.mark_nontrivial(["pipeline_chr_order", spec])
        else:
            ctx.disagree("pipeline_chr_order", {"spec": spec}, "a merged GTF with chromosome blocks", str(fails)[:300])
    finally:
        shutil.rmtree(scratch, ignore_errors=True)


# ------------------------------------------------------------------------------------------------
# the property itself: GTF validator


def validate_records(recs, chr_len=None, where=""):
    """every structural clause of the statement on one GTF (list of parse_gtf records).
    -> list of (kind, detail)"""
    fails = []
    genes = {}
    txs = {}
    exons = {}
    order = []
    for i, r in enumerate(recs):
        a = r["attrs"]
        if r["feature"] == "gene":
            genes.setdefault(a.get("gene_id"), []).append((i, r))
        elif r["feature"] == "transcript":
            txs.setdefault(a.get("transcript_id"), []).append((i, r))
            order.append(a.get("transcript_id"))
        elif r["feature"] == "exon":
            exons.setdefault(a.get("transcript_id"), []).append((i, r))
    for g, l in genes.items():
        if len(l) != 1:
            fails.append(("gene_record_not_once", "%s gene %s has %d records" % (where, g, len(l))))
    for t in set(exons) - set(txs):
        fails.append(("transcript_record_missing", "%s exons of %s without a transcript record" % (where, t)))
    for t, l in txs.items():
        if len(l) != 1:
            fails.append(("transcript_record_not_once", "%s transcript %s has %d records" % (where, t, len(l))))
            continue
        ti, tr = l[0]
        ex = [r for _, r in exons.get(t, [])]
        if not ex:
            fails.append(("transcript_without_exons", "%s %s" % (where, t)))
            continue
        co = [(e["start"], e["end"]) for e in ex]
        asc = co if tr["strand"] != "-" else co[::-1]
        if any(asc[i] > asc[i + 1] for i in range(len(asc) - 1)) and sorted(co) != co:
            fails.append(("exons_unsorted", "%s %s %s" % (where, t, co)))
        s = sorted(co)
        if any(s[i][1] >= s[i + 1][0] for i in range(len(s) - 1)):
            fails.append(("exons_overlap", "%s %s %s" % (where, t, s)))
        for a, b in co:
            if not (1 <= a <= b):
                fails.append(("exon_coordinates", "%s %s (%d,%d)" % (where, t, a, b)))
            if chr_len is not None and b > chr_len.get(tr["chr"], 10 ** 18):
                fails.append(("exon_beyond_chromosome", "%s %s (%d,%d) > %s" % (where, t, a, b, chr_len.get(tr["chr"]))))
        if (tr["start"], tr["end"]) != (min(a for a, _ in co), max(b for _, b in co)):
            fails.append(("transcript_record_span", "%s %s record (%d,%d) exons %s" % (where, t, tr["start"], tr["end"], s)))
        for e in ex:
            if e["chr"] != tr["chr"] or e["strand"] != tr["strand"] or e["attrs"].get("gene_id") != tr["attrs"].get("gene_id"):
                fails.append(("exon_transcript_mismatch", "%s %s" % (where, t)))
                break
        g = tr["attrs"].get("gene_id")
        if g not in genes:
            fails.append(("gene_record_missing", "%s gene %s of %s" % (where, g, t)))
            continue
        gi, gr = genes[g][0]
        if gr["chr"] != tr["chr"]:
            fails.append(("gene_chromosome", "%s %s on %s, gene %s on %s" % (where, t, tr["chr"], g, gr["chr"])))
        if gr["strand"] != tr["strand"]:
            fails.append(("gene_strand", "%s %s strand %s, gene %s strand %s" % (where, t, tr["strand"], g, gr["strand"])))
        if not (gr["start"] <= tr["start"] and tr["end"] <= gr["end"]):
            fails.append(("gene_not_containing_transcript", {"where": where, "gene": g, "transcript": t,
                                                             "gene_range": [gr["start"], gr["end"]],
                                                             "transcript_range": [tr["start"], tr["end"]]}))
    return fails


def tx_table(recs):
    """transcript_id -> (chr, strand, gene, exon tuple sorted)"""
    t = {}
    for r in recs:
        if r["feature"] == "transcript":
            t[r["attrs"]["transcript_id"]] = [r["chr"], r["strand"], r["attrs"]["gene_id"], []]
    for r in recs:
        if r["feature"] == "exon" and r["attrs"].get("transcript_id") in t:
            t[r["attrs"]["transcript_id"]][3].append((r["start"], r["end"]))
    return {k: (v[0], v[1], v[2], tuple(sorted(v[3]))) for k, v in t.items()}


def read_regions(ds):
    """per chromosome, the maximal runs of overlapping alignments as the collector forms them
    (AbstractAlignmentStorage.alignment_is_not_adjacent): list of (start, end) 1-based closed"""
    import re
    per = {}
    if hasattr(ds, "alignment_intervals"):
        per = ds.alignment_intervals()
    else:
        for r in ds.reads:
            if (r.get("flag", 0) & 4) or not r.get("cigar") or r.get("chr") is None or not isinstance(r["cigar"], str):
                continue      # an unmapped read / a record without CIGAR forms no read region (audit2-A: TypeError on cigar None)
            ln = sum(int(n) for n, op in re.findall(r"(\d+)([MDN=X])", r["cigar"]))
            per.setdefault(r["chr"], []).append((r["start0"] + 1, r["start0"] + ln))
    res = {}
    for c, l in per.items():
        l.sort()
        regs = []
        for a, b in l:
            if regs and a <= regs[-1][1]:
                regs[-1] = (regs[-1][0], max(regs[-1][1], b))
            else:
                regs.append((a, b))
        res[c] = regs
    return res


def region_index(regs, span):
    """index of the read region with the largest overlap with `span`"""
    best, bi = 0, None
    for i, (a, b) in enumerate(regs):
        ov = min(b, span[1]) - max(a, span[0]) + 1
        if ov > best:
            best, bi = ov, i
    return bi


def check_outputs(ds, files, with_annotation, fai):
    """all clauses on one pipeline run; -> list of (kind, detail)"""
    fails = []
    from props import C03text
    for nm in ("transcript_models", "extended_annotation"):      # text-level clauses on the raw files
        if files.get(nm) and os.path.exists(files[nm]) and not files[nm].endswith(".gz"):
            with open(files[nm], newline="") as f:
                fails += C03text.text_failures(f.read(), nm)[:5]
    tm = P.parse_gtf(files["transcript_models"])
    ref = {}
    if with_annotation:
        for g in ds.genes:
            for tid, ex in g["transcripts"]:
                ref[tid] = (g["chr"], g["strand"], g["gene_id"], tuple(sorted(ex)))
    regs = read_regions(ds)
    tm_fails = validate_records(tm, fai, "transcript_models")
    # classify gene-range failures: is the transcript in another read region than the gene's first transcript?
    first_tx_of_gene = {}
    for r in tm:
        if r["feature"] == "transcript":
            first_tx_of_gene.setdefault(r["attrs"]["gene_id"], r)
    for kind, det in tm_fails:
        if kind == "gene_not_containing_transcript":
            t = [r for r in tm if r["feature"] == "transcript" and r["attrs"]["transcript_id"] == det["transcript"]][0]
            f = first_tx_of_gene[det["gene"]]
            r1 = region_index(regs.get(t["chr"], []), (t["start"], t["end"]))
            r0 = region_index(regs.get(f["chr"], []), (f["start"], f["end"]))
            if r0 is not None and r1 is not None and r0 != r1 and det["gene"] in {v[2] for v in ref.values()}:
                kind = "gene_range_across_calls"
                det = dict(det, gene_first_region=r0, transcript_region=r1)
        fails.append((kind, det))
    if with_annotation:
        rg0 = {g["gene_id"]: g for g in ds.genes}
        for r in tm:
            if r["feature"] == "gene" and r["attrs"]["gene_id"] in rg0:
                g = rg0[r["attrs"]["gene_id"]]
                if r["chr"] != g["chr"] or r["strand"] != g["strand"]:
                    fails.append(("reference_gene_changed", "transcript_models: gene %s printed on %s%s, annotated on %s%s"
                                  % (r["attrs"]["gene_id"], r["chr"], r["strand"], g["chr"], g["strand"])))
    tmt = tx_table(tm)
    for t, v in tmt.items():
        if t in ref and v != ref[t]:
            fails.append(("reference_not_verbatim", "transcript_models %s: %s vs reference %s" % (t, v, ref[t])))
    if with_annotation:
        if "extended_annotation" not in files:
            fails.append(("extended_annotation_missing", ""))
            return fails
        ext = P.parse_gtf(files["extended_annotation"])
        fails += validate_records(ext, fai, "extended_annotation")
        et = tx_table(ext)
        for t, v in ref.items():
            if t not in et:
                fails.append(("reference_transcript_missing", "extended_annotation lacks %s" % t))
            elif et[t] != v:
                fails.append(("reference_not_verbatim", "extended_annotation %s: %s vs reference %s" % (t, et[t], v)))
        novel_tm = {t: v for t, v in tmt.items() if t not in ref}
        novel_ext = {t: v for t, v in et.items() if t not in ref}
        if novel_tm != novel_ext:
            only_tm = sorted(set(novel_tm) - set(novel_ext))
            only_ext = sorted(set(novel_ext) - set(novel_tm))
            diff = sorted(t for t in set(novel_tm) & set(novel_ext) if novel_tm[t] != novel_ext[t])
            fails.append(("extended_novel_set", "only in transcript_models %s; only in extended %s; differing %s"
                          % (only_tm[:5], only_ext[:5], diff[:5])))
        # reference gene records of the extended annotation: same chromosome / strand as in the input
        rg = {g["gene_id"]: g for g in ds.genes}
        for r in ext:
            if r["feature"] == "gene" and r["attrs"]["gene_id"] in rg:
                g = rg[r["attrs"]["gene_id"]]
                if r["chr"] != g["chr"] or r["strand"] != g["strand"]:
                    fails.append(("reference_gene_changed", "extended_annotation: gene %s printed on %s%s, annotated on %s%s"
                                  % (r["attrs"]["gene_id"], r["chr"], r["strand"], g["chr"], g["strand"])))
    # assumption interface monitor: chromosome blocks in natural order
    return fails


def fai_lengths(ref_path):
    res = {}
    with open(ref_path + ".fai") as f:
        for l in f:
            p = l.split("\t")
            res[p[0]] = int(p[1])
    return res


CONFIGS_QUICK = [
    {"data_type": "nanopore", "genedb": True, "strategy": None, "threads": 2},
    {"data_type": "nanopore", "genedb": False, "strategy": None, "threads": 1},
    {"data_type": "pacbio_ccs", "genedb": True, "strategy": "sensitive_pacbio", "threads": 1},
    {"data_type": "nanopore", "genedb": True, "strategy": "all", "threads": 2},
    {"data_type": "nanopore", "genedb": False, "strategy": "sensitive_ont", "threads": 2},
    {"data_type": "assembly", "genedb": True, "strategy": "assembly", "threads": 1},
    # reads without tails count: a known isoform supported only by truncated reads in two separate read regions is reported
    {"data_type": "nanopore", "genedb": True, "strategy": None, "threads": 1, "extra": ["--polya_requirement", "never"]},
]
CONFIGS_MORE = [
    {"data_type": "pacbio_ccs", "genedb": True, "strategy": "reliable", "threads": 2},
    {"data_type": "pacbio_ccs", "genedb": False, "strategy": "fl_pacbio", "threads": 1},
    {"data_type": "nanopore", "genedb": True, "strategy": "default_ont", "threads": 3, "extra": ["--report_novel_unspliced", "true"]},
    {"data_type": "pacbio_ccs", "genedb": True, "strategy": "default_pacbio", "threads": 1, "extra": ["--report_canonical", "all"]},
    {"data_type": "nanopore", "genedb": True, "strategy": "all", "threads": 1, "extra": ["--polya_requirement", "never"]},
    {"data_type": "assembly", "genedb": False, "strategy": "assembly", "threads": 2},
]


class ToyData:
    """the repository's own toy data (tests/simple_data: chr9.4M, simulated ONT reads) behind the interface of
    gen.synth.Dataset that the validator uses (genes, chroms, write, alignment intervals)"""

    def __init__(self):
        self.src = P.TOY
        self.genes = []
        self.chroms = {}
        self._intervals = None

    def write(self, d):
        paths = P.copy_toy(d)
        import pysam
        pysam.faidx(paths["ref"])
        fai = paths["ref"] + ".fai"
        with open(fai) as f:
            for l in f:
                self.chroms[l.split("\t")[0]] = int(l.split("\t")[1])
        by_gene = {}
        tx = {}
        for r in P.parse_gtf(paths["gtf"]):
            a = r["attrs"]
            if r["feature"] == "gene":
                by_gene[a["gene_id"]] = {"chr": r["chr"], "gene_id": a["gene_id"], "strand": r["strand"], "transcripts": []}
            elif r["feature"] in ("transcript", "mRNA"):
                tx[a["transcript_id"]] = (a["gene_id"], [])
            elif r["feature"] == "exon":
                tx[a["transcript_id"]][1].append((r["start"], r["end"]))
        for tid, (gid, ex) in tx.items():
            if ex and gid in by_gene:
                by_gene[gid]["transcripts"].append((tid, sorted(ex)))
        self.genes = [g for g in by_gene.values() if g["transcripts"]]
        per = {}
        with pysam.AlignmentFile(paths["bam"], "rb") as bam:
            for al in bam:
                if al.reference_id >= 0 and al.reference_end:
                    per.setdefault(al.reference_name, []).append((al.reference_start + 1, al.reference_end))
        self._intervals = per
        return paths

    def alignment_intervals(self):
        return self._intervals


def build_dataset(spec):
    if spec["gen"] == "split_witness":
        return split_witness_dataset(), {"split_genes": ["G1"]}
    if spec["gen"] == "toy":
        return ToyData(), {}
    if spec["gen"] == "antisense":
        return G.antisense_dataset(spec["seed"], reference_antisense=spec.get("reference_antisense", True)), {}
    return G.pipeline_dataset(spec["seed"], n_chroms=spec.get("n_chroms", 3), split_locus=spec.get("split_locus", True),
                              chrom_names=spec.get("chrom_names"))


def split_witness_dataset():
    """the pipeline-level witness of `gene_contains_all_transcripts_witness`: gene G1 is loaded for two read
    regions; the region processed second yields a novel isoform of G1 ending beyond the printed gene record"""
    from gen import synth
    ds = synth.Dataset(5)
    ds.add_chrom("chr1", 40000)
    ds.add_chrom("chr2", 20000)
    s5 = [(1000, 1200), (1500, 1700)]
    lg = s5 + [(10000, 10200), (20000, 20200), (21000, 21300)]
    s3 = [(20000, 20200), (21000, 21300)]
    ds.add_gene("chr1", "G1", "+", [("T_s5", s5), ("T_long", lg), ("T_s3", s3)])
    nov = s3 + [(22000, 22400)]
    ds.plant_sites("chr1", [(21301, 21999)], "+")
    for k in range(12):
        ds.read_from_exons("a%d" % k, "chr1", s5, polya=25)
        ds.read_from_exons("b%d" % k, "chr1", s3, polya=25)
        ds.read_from_exons("c%d" % k, "chr1", nov, polya=25)
    ds.add_gene("chr2", "G2", "-", [("T2", [(500, 800), (1200, 1500)])])
    for k in range(6):
        ds.read_from_exons("d%d" % k, "chr2", [(500, 800), (1200, 1500)], polyt=25)
    return ds


def run_pipeline_case(spec, cfg, keep=None):
    """-> (fails, info)"""
    ds, meta = build_dataset(spec)
    d = P.scratch("isoverif_c03p_")
    try:
        paths = ds.write(os.path.join(d, "in"))
        extra = []
        if cfg.get("strategy"):
            extra += ["--model_construction_strategy", cfg["strategy"]]
        extra += cfg.get("extra", [])
        args = P.std_args(paths, data_type=cfg["data_type"], threads=cfg.get("threads", 1), genedb=cfg["genedb"], extra=extra)
        rc, log = P.run_isoquant(os.path.join(d, "out"), args)
        if rc != 0:
            return [("pipeline_crash", "rc=%s %s" % (rc, log[-600:]))], {"rc": rc}
        of = P.out_files(os.path.join(d, "out"))
        files = {}
        for fn, p in of.items():
            if fn.endswith(".transcript_models.gtf"):
                files["transcript_models"] = p
            elif fn.endswith(".extended_annotation.gtf"):
                files["extended_annotation"] = p
        if "transcript_models" not in files:
            return [("transcript_models_missing", str(sorted(of)))], {"rc": rc}
        fai = fai_lengths(paths["ref"])
        fails = check_outputs(ds, files, cfg["genedb"], fai)
        tm = P.parse_gtf(files["transcript_models"])
        ref_ids = {tid for g in ds.genes for tid, _ in g["transcripts"]}
        ntx = [r["attrs"]["transcript_id"] for r in tm if r["feature"] == "transcript"]
        chr_order = []
        for r in tm:
            if not chr_order or chr_order[-1] != r["chr"]:
                chr_order.append(r["chr"])
        info = {"transcripts": len(ntx), "novel": len([t for t in ntx if t not in ref_ids or not cfg["genedb"]]),
                "nic": len([t for t in ntx if t.endswith(".nic")]),
                "chr_order": chr_order, "chroms": list(ds.chroms)}
        return fails, info
    finally:
        shutil.rmtree(d, ignore_errors=True)


# ---- in-process oracle on the real printer (call histories inside the assumption interface)


def realistic_history(rng):
    """what the pipeline can hand to one printer: sorted disjoint exons, distinct transcript ids, one strand per gene,
    one chromosome; reference genes (with a region, recurring across calls) and novel genes (one call only)"""
    n_ref = rng.randint(1, 3)
    regs = {}
    pos = rng.randint(1, 300)
    for g in range(n_ref):
        regs[g] = (pos, pos + rng.randint(200, 3000))
        pos = regs[g][1] + rng.randint(-100, 800)
    strand = {g: rng.choice([0, 1]) for g in range(n_ref)}
    calls = []
    tid = 0
    ngene = n_ref
    for _ in range(rng.randint(1, 4)):
        present = [g for g in range(n_ref) if rng.random() < 0.7]
        ms = []
        for g in present:
            for _ in range(rng.randint(0, 3)):
                a, b = regs[g]
                n = rng.randint(1, 4)
                cuts = sorted(rng.sample(range(a, b + 1), min(2 * n, b - a + 1)))
                ex = [(cuts[i], cuts[i + 1]) for i in range(0, len(cuts) - 1, 2)]
                ex = [e for i, e in enumerate(ex) if i == 0 or e[0] > ex[i - 1][1]]
                known = rng.random() < 0.5
                if not known and rng.random() < 0.3:          # novel isoform extending beyond the annotated gene
                    ex[-1] = (ex[-1][0], b + rng.randint(1, 400))
                ms.append({"chr": 0, "strand": strand[g], "tid": tid, "gid": g, "exons": ex, "known": known, "other": []})
                tid += 1
        for _ in range(rng.randint(0, 2)):
            ex = G.sd_exons(rng, maxc=4000)
            ms.append({"chr": 0, "strand": rng.choice([0, 1, 2]), "tid": tid, "gid": ngene, "exons": ex, "known": False, "other": []})
            tid += 1
            ngene += 1
        rng.shuffle(ms)
        calls.append({"ctx": {"chr": 0, "regions": [(g, regs[g]) for g in present], "isoforms": []}, "models": ms})
    return calls


def oracle_history(calls, scratch):
    """property clauses on the real printer's output for one history; -> list of (kind, detail)"""
    TP, GI, C, GB, FU, IDP = _mods()
    _counter[0] += 1
    printer = TP.GFFPrinter(scratch, "o%d" % _counter[0], IDP.FeatureIdStorage(IDP.SimpleIDDistributor()), output_r2t=False)
    call_of_tx = {}
    try:
        for i, c in enumerate(calls):
            printer.dump(FakeGeneInfo(c["ctx"]), [to_real_model(m) for m in c["models"]])
            for m in c["models"]:
                call_of_tx.setdefault("T%d" % m["tid"], i)
    except (AssertionError, IndexError, KeyError) as ex:
        printer.out_gff.close()
        os.remove(printer.model_fname)
        return [("printer_exception", type(ex).__name__)]
    printer.out_gff.close()
    recs = P.parse_gtf(printer.model_fname)
    os.remove(printer.model_fname)
    fails = []
    first_call_of_gene = {}
    for r in recs:
        if r["feature"] == "transcript":
            g = r["attrs"]["gene_id"]
            first_call_of_gene[g] = min(first_call_of_gene.get(g, 10 ** 9), call_of_tx[r["attrs"]["transcript_id"]])
    for kind, det in validate_records(recs, None, "history"):
        if kind == "gene_not_containing_transcript" and call_of_tx[det["transcript"]] != first_call_of_gene[det["gene"]]:
            kind = "gene_range_across_calls"
        fails.append((kind, det))
    # every model handed over is printed verbatim
    tt = tx_table(recs)
    for c in calls:
        for m in c["models"]:
            v = tt.get("T%d" % m["tid"])
            exp = ("c%d" % m["chr"], STRANDS[m["strand"]], "G%d" % m["gid"], tuple(sorted(tuple(e) for e in m["exons"])))
            if v != exp:
                fails.append(("model_not_verbatim", "T%d: %s vs %s" % (m["tid"], v, exp)))
    return fails


def in_domain(calls):
    """assumption interface for call histories"""
    tids = [m["tid"] for c in calls for m in c["models"]]
    if len(set(tids)) != len(tids):
        return False
    gs = {}
    for c in calls:
        for m in c["models"]:
            ex = [tuple(e) for e in m["exons"]]
            if not ex or any(not (1 <= a <= b) for a, b in ex) or any(ex[i][1] >= ex[i + 1][0] for i in range(len(ex) - 1)):
                return False
            if m["chr"] != c["ctx"]["chr"]:
                return False
            if gs.setdefault(m["gid"], m["strand"]) != m["strand"]:
                return False
    return True


def _fail(ctx, kind, inp, det, cap=3):
    """record at most `cap` failures per (kind, level): enough for the replay, keeps the known class from flooding"""
    key = "fails:%s:%s" % (kind, inp.get("level"))
    ctx.count(key)
    if ctx.hist[key] <= cap:
        ctx.fail(kind, inp, det)


def oracle(ctx, disagreements, broken):
    rng = ctx.rng
    quick = ctx.tier == "quick"
    from props import C03text
    C03text.oracle(ctx, disagreements, broken)
    from props import C03ref
    C03ref.oracle(ctx, disagreements, broken)
    scratch = vlib.scratch_dir("isoverif_c03o_")
    n_hist = 0
    try:
        # 1. disagreeing inputs first
        for d in disagreements:
            if d["op"] == "dump_history" and in_domain(d["input"]["calls"]):
                for kind, det in oracle_history(d["input"]["calls"], scratch):
                    _fail(ctx, kind, {"level": "history", "calls": d["input"]["calls"]}, det)
            if d["op"] == "validate_exons":
                l = [tuple(x) for x in d["input"]["l"]]
                TP = _mods()[0]
                exp = l == sorted(l) and all(0 < a <= b for a, b in l)
                if bool(TP.validate_exons(l)) != exp:
                    _fail(ctx, "gate_semantics", {"level": "gate", "l": d["input"]["l"]}, "validate_exons(%s) != %s" % (l, exp))
            if d["op"] == "correct_ends":
                r = oracle_correct_ends(d["input"])
                if r:
                    _fail(ctx, "end_correction_breaks_exons", {"level": "ends", "case": d["input"]}, r)
            if d["op"] == "get_exons":
                r = oracle_get_exons(d["input"])
                if r:
                    _fail(ctx, "get_exons_malformed", {"level": "get_exons", "case": d["input"]}, r)
            if d["op"] == "fl_novel_exons":
                r = oracle_fl_exons(d["input"])
                if r:
                    _fail(ctx, "novel_exons_malformed", {"level": "fl_exons", "case": d["input"]}, r)
            if d["op"] in ("merge_files", "merge_lines"):
                r = oracle_merge(d["input"], scratch)
                if r:
                    _fail(ctx, "merge_loses_records", {"level": "merge", "case": d["input"]}, r)
        # 1b. the history of `gene_contains_all_transcripts_witness` replayed on the real printer
        wf = oracle_history(vlib.canon(WITNESS_HISTORIES["gene_contains_all_transcripts_witness"]), scratch)
        if any(k == "gene_range_across_calls" for k, _ in wf):
            ctx.count("lean_witness_reproduced_on_real_printer")
        else:
            ctx.notes.append("gene_contains_all_transcripts_witness no longer fails on the real GFFPrinter: %s" % (wf,))
        for kind, det in wf:
            _fail(ctx, kind, {"level": "history", "calls": vlib.canon(WITNESS_HISTORIES["gene_contains_all_transcripts_witness"])}, det)
        # 2. real printer on realistic call histories
        for _ in range(400 if quick else 6000):
            h = vlib.canon(realistic_history(rng))
            n_hist += 1
            for kind, det in oracle_history(h, scratch):
                _fail(ctx, kind, {"level": "history", "calls": h}, det)
        # 3. constructors on the real code
        for _ in range(1500 if quick else 15000):
            c = vlib.canon(G.end_case(rng, small=rng.random() < 0.5))
            r = oracle_correct_ends(c)
            if r:
                _fail(ctx, "end_correction_breaks_exons", {"level": "ends", "case": c}, r)
        for _ in range(500 if quick else 5000):
            c = vlib.canon(G.intron_path_case(rng, small=rng.random() < 0.5))
            r = oracle_get_exons(c)
            if r:
                _fail(ctx, "get_exons_malformed", {"level": "get_exons", "case": c}, r)
        for _ in range(500 if quick else 5000):
            c = G.intron_path_case(rng, small=rng.random() < 0.5)
            if rng.random() < 0.3 and len(c["l"]) > 1:
                i = rng.randrange(len(c["l"]) - 1)
                c["l"][i] = (c["l"][i][0], c["l"][i + 1][0] - rng.choice([1, 0, -2]))
            c = vlib.canon(c)
            r = oracle_fl_exons(c)
            if r:
                _fail(ctx, "novel_exons_malformed", {"level": "fl_exons", "case": c}, r)
        nj = 0
        for _ in range(1500 if quick else 15000):
            c = vlib.canon(joiner_case(rng))
            nj += 1
            r = oracle_joiner(c)
            if r:
                _fail(ctx, "exonless_transcript_aborts_model_construction" if "KeyError" in r else "joiner_mixes_strands",
                      {"level": "joiner", "case": c}, r)
        ctx.extra["joiner_cases"] = nj
        for _ in range(60 if quick else 600):
            names = G.chr_names(rng)
            c = {"names": names, "contents": [[rng.randint(0, 99) for _ in range(rng.randint(0, 3))] for _ in names]}
            r = oracle_merge(c, scratch)
            if r:
                _fail(ctx, "merge_loses_records", {"level": "merge", "case": c}, r)
        # text records: per-chromosome GTF-like files of contigs whose name may start with '#'
        for _ in range(60 if quick else 600):
            names = G.chr_names(rng)
            k = rng.choice([0, 0, 1, 3])
            c = {"names": names, "header_lines": k, "contents": [gtf_like_records(rng, n, k) for n in names]}
            r = oracle_merge(c, scratch)
            if r:
                _fail(ctx, "merge_loses_records", {"level": "merge", "case": c}, r)
    finally:
        shutil.rmtree(scratch, ignore_errors=True)
    # 4. the real pipeline
    runs = []
    specs = [({"gen": "split_witness"}, CONFIGS_QUICK[0])]
    # overlapping genes of opposite strands + gene joining (TranscriptToGeneJoiner): the repository's toy data and
    # synthetic antisense loci, with the strategy that reports every novel transcript, with and without annotation
    cfg_all = {"data_type": "nanopore", "genedb": True, "strategy": "all", "threads": 2}
    cfg_all_noann = {"data_type": "nanopore", "genedb": False, "strategy": "all", "threads": 2}
    specs += [({"gen": "toy"}, cfg_all), ({"gen": "toy"}, cfg_all_noann)]
    aseed = rng.randrange(10 ** 6)
    specs += [({"gen": "antisense", "seed": aseed, "reference_antisense": True}, cfg_all),
              ({"gen": "antisense", "seed": aseed, "reference_antisense": True}, CONFIGS_QUICK[0]),
              ({"gen": "antisense", "seed": aseed, "reference_antisense": False}, cfg_all_noann)]
    if not quick:
        specs += [({"gen": "toy"}, c) for c in (CONFIGS_QUICK[0], CONFIGS_QUICK[1], CONFIGS_QUICK[2])]
        for _ in range(4):
            aseed = rng.randrange(10 ** 6)
            specs += [({"gen": "antisense", "seed": aseed, "reference_antisense": ra}, c)
                      for ra, c in ((True, cfg_all), (True, CONFIGS_QUICK[2]), (False, cfg_all_noann), (False, CONFIGS_QUICK[4]))]
    configs = list(CONFIGS_QUICK) + ([] if quick else CONFIGS_MORE)
    n_data = 1 if quick else 5
    for k in range(n_data):
        seed = rng.randrange(10 ** 6)
        names = None if k % 2 == 0 else rng.sample(["chr1", "chr2", "chr10", "chrX", "2L", "scaffold_3", "chrUn_KI270302v1"], 3)
        for cfg in configs:
            specs.append(({"gen": "pipeline_dataset", "seed": seed, "n_chroms": 3, "split_locus": True,
                           "chrom_names": names}, cfg))
    if broken and quick:
        specs = specs + [({"gen": "pipeline_dataset", "seed": rng.randrange(10 ** 6), "n_chroms": 3, "split_locus": True}, cfg)
                         for cfg in configs]
    tot_tx = tot_novel = 0
    for spec, cfg in specs:
        fails, info = run_pipeline_case(spec, cfg)
        runs.append({"spec": spec, "cfg": cfg, "info": info, "fails": len(fails)})
        tot_tx += info.get("transcripts", 0)
        tot_novel += info.get("novel", 0)
        seen = set()
        for kind, det in fails:
            if kind in seen:
                continue
            seen.add(kind)
            _fail(ctx, kind, {"level": "pipeline", "spec": spec, "cfg": cfg}, det)
    ctx.extra["oracle"] = {"histories": n_hist, "pipeline_runs": len(runs), "pipeline_transcripts_checked": tot_tx,
                           "pipeline_novel_transcripts_checked": tot_novel,
                           "runs": [{"cfg": r["cfg"], "info": {k: v for k, v in r["info"].items() if k != "chroms"}} for r in runs][:12]}
    ctx.traces_validated += len(runs)


def oracle_correct_ends(c):
    """real end correction keeps a well-formed transcript well-formed, keeps the intron chain, only shrinks"""
    ex = [tuple(e) for e in c["exons"]]
    if not ex or any(not (1 <= a <= b) for a, b in ex) or any(ex[i][1] >= ex[i + 1][0] for i in range(len(ex) - 1)):
        return None
    if any(a < 1 for a, _ in c["reads"]):
        return None
    got = real_correct_ends(c)
    if vlib.is_err(got):
        return "exception on a well-formed transcript"
    got = [tuple(e) for e in got]
    if len(got) != len(ex):
        return "exon count changed: %s" % (got,)
    if any(not (1 <= a <= b) for a, b in got) or any(got[i][1] >= got[i + 1][0] for i in range(len(got) - 1)):
        return "malformed after correction: %s" % (got,)
    inner = lambda l: [(l[i][1], l[i + 1][0]) for i in range(len(l) - 1)]
    if inner(got) != inner(ex):
        return "intron chain changed: %s" % (got,)
    if got[0][0] < ex[0][0] or got[-1][1] > ex[-1][1]:
        return "transcript extended: %s" % (got,)
    return None


def oracle_get_exons(c):
    """inside the assumption interface get_exons yields sorted disjoint well-formed exons whose gaps are the introns"""
    C = _mods()[2]
    r = tuple(c["r"])
    l = [tuple(x) for x in c["l"]]
    if not l or any(a > b for a, b in l) or any(l[i][1] + 1 >= l[i + 1][0] for i in range(len(l) - 1)):
        return None
    if not (r[0] < l[0][0] and l[-1][1] < r[1]):
        return None
    got = C.get_exons(r, l)
    if any(a > b for a, b in got) or any(got[i][1] >= got[i + 1][0] for i in range(len(got) - 1)):
        return "malformed exons %s" % (got,)
    if (got[0][0], got[-1][1]) != r or C.junctions_from_blocks(got) != l:
        return "exons %s do not span %s with introns %s" % (got, r, l)
    return None


def oracle_fl_exons(c):
    """domain (assumption interface, docs/C03.md): every intron of the path is well-formed and intron starts do not
    decrease (a read's increasing introns, each replaced by a cluster representative closer than the intron is long).
    There a path that construct_fl_isoforms does not skip yields sorted disjoint well-formed exons (theorem
    get_exons_wellformed_of_monotone_starts: with or without the length guard)."""
    l = [tuple(x) for x in c["l"]]
    r = tuple(c["r"])
    if not l or any(a > b for a, b in l) or any(l[i][0] > l[i + 1][0] for i in range(len(l) - 1)):
        return None
    got = real_fl_novel_exons(c)
    if got is None:
        return None
    got = [tuple(e) for e in got]
    if not got or any(a > b for a, b in got) or any(got[i][1] >= got[i + 1][0] for i in range(len(got) - 1)):
        return "construct_fl_isoforms would build exons %s from path %s in range %s" % (got, l, r)
    return None


class FakeJoinGeneInfo:
    """what TranscriptToGeneJoiner reads from a GeneInfo"""

    def __init__(self, ref):
        self.gene_strands = {g["gid"]: g["strand"] for g in ref}
        self._regions = {g["gid"]: tuple(g["region"]) for g in ref}
        self.gene_id_map = {}
        self.all_isoforms_introns = {}
        for g in ref:
            for tid, introns in g["isoforms"]:
                self.gene_id_map[tid] = g["gid"]
                self.all_isoforms_introns[tid] = [tuple(i) for i in introns]
            # transcript records without exon records: GeneInfo lists them in gene_id_map (set_gene_ids) but
            # set_introns_and_exons skips them, so all_isoforms_introns has no entry
            for tid in g.get("exonless", []):
                self.gene_id_map[tid] = g["gid"]

    def get_gene_regions(self):
        return self._regions


def joiner_case(rng):
    """a locus as construct_fl_isoforms leaves it: reference genes (either strand), novel models attributed to a
    reference gene (with that gene's strand), and novel genes (one per novel transcript, strand + / - / .) that
    overlap each other and the reference genes"""
    base = rng.randint(100, 5000)
    span = rng.choice([3000, 6000])
    ref = []
    for k in range(rng.randint(0, 2)):
        a = base + rng.randint(0, span // 2)
        ex = G.sd_exons(rng, n=rng.randint(2, 4), maxc=50)
        ex = [(x + a, y + a) for x, y in ex]
        ref.append({"gid": "RG%d" % k, "strand": rng.choice("+-"), "region": (ex[0][0], ex[-1][1]),
                    "isoforms": [("RT%d" % k, [(ex[i][1] + 1, ex[i + 1][0] - 1) for i in range(len(ex) - 1)])], "exons": ex,
                    "exonless": ["RX%d" % k] if rng.random() < 0.2 else []})
    models = []
    for k in range(rng.randint(2, 7)):
        if ref and rng.random() < 0.3:
            g = rng.choice(ref)
            ex = list(g["exons"])
            ex[-1] = (ex[-1][0], ex[-1][1] + rng.randint(0, 300))
            models.append({"tid": "transcript%d.c.nnic" % k, "gid": g["gid"], "strand": g["strand"], "exons": ex})
        else:
            a = base + rng.randint(0, span)
            ex = G.sd_exons(rng, n=rng.randint(1, 4), maxc=50)
            ex = [(x + a, y + a) for x, y in ex]
            if models and rng.random() < 0.5:       # share an intron chain / overlap strongly with an earlier model
                ex = list(rng.choice(models)["exons"])
                ex[0] = (ex[0][0] + rng.randint(0, 5), ex[0][1])
            models.append({"tid": "transcript%d.c.nnic" % k, "gid": "novel_gene_c_%d" % k,
                           "strand": rng.choice("++--."), "exons": ex})
    return {"ref": ref, "models": models}


def oracle_joiner(c):
    """assumption interface `UniformStrands` on the real TranscriptToGeneJoiner: after joining, all models of one gene
    carry one strand, and a reference gene keeps only models of its annotated strand"""
    TP, GI, C, GB, FU, IDP = _mods()
    gi = FakeJoinGeneInfo(c["ref"])
    storage = [GI.TranscriptModel("c", m["strand"], m["tid"], m["gid"], [tuple(e) for e in m["exons"]],
                                  GI.TranscriptModelType.novel_not_in_catalog) for m in c["models"]]
    try:
        out = GB.TranscriptToGeneJoiner(storage, gi).join_transcripts()
    except AssertionError:
        return None     # the joiner refuses the input (its own strand assert): nothing is printed
    except KeyError as ex:
        return "TranscriptToGeneJoiner raises KeyError %s (reference transcript without exon records)" % ex
    strands = {}
    for m in out:
        strands.setdefault(m.gene_id, set()).add(m.strand)
    for g, st in strands.items():
        if len(st) > 1:
            return "gene %s joins transcripts of strands %s" % (g, sorted(st))
        if g in gi.gene_strands and st != {gi.gene_strands[g]}:
            return "reference gene %s (%s) received transcripts of strand %s" % (g, gi.gene_strands[g], sorted(st))
    return None


def oracle_merge(c, scratch):
    k = c.get("header_lines", 0)
    got = real_merge_order(c["names"], scratch, c["contents"], k)
    if vlib.is_err(got):
        return "merge_files raised %s" % got.get("exc")
    # every RECORD of every part (the lines after the k lines its writer put first), exactly as often as in the parts
    exp = sorted(v for l in c["contents"] for v in l[k:])
    if sorted(got) != exp:
        lost = [v for v in exp if v not in got]
        return "merged multiset differs" + (": lost %s" % lost[:3] if lost else "")
    return None


def replay(ctx, failure):
    inp = failure["input"]
    kind = failure["kind"]
    lvl = inp.get("level")
    if lvl == "text":
        from props import C03text
        return C03text.replay(ctx, failure)
    if lvl in ("refjoin", "refpipeline", "refcheck"):
        from props import C03ref
        return C03ref.replay(ctx, failure)
    if lvl == "history":
        scratch = vlib.scratch_dir("isoverif_c03r_")
        try:
            return any(k == kind for k, _ in oracle_history(inp["calls"], scratch))
        finally:
            shutil.rmtree(scratch, ignore_errors=True)
    if lvl == "pipeline":
        fails, _ = run_pipeline_case(inp["spec"], inp["cfg"])
        return any(k == kind for k, _ in fails)
    if lvl == "ends":
        return oracle_correct_ends(inp["case"]) is not None
    if lvl == "get_exons":
        return oracle_get_exons(inp["case"]) is not None
    if lvl == "fl_exons":
        return oracle_fl_exons(inp["case"]) is not None
    if lvl == "joiner":
        return oracle_joiner(inp["case"]) is not None
    if lvl == "merge":
        scratch = vlib.scratch_dir("isoverif_c03r_")
        try:
            return oracle_merge(inp["case"], scratch) is not None
        finally:
            shutil.rmtree(scratch, ignore_errors=True)
    if lvl == "gate":
        TP = _mods()[0]
        l = [tuple(x) for x in inp["l"]]
        return bool(TP.validate_exons(l)) != (l == sorted(l) and all(0 < a <= b for a, b in l))
    return False


def matches_finding(failure, entry):
    return failure["kind"] == entry.get("kind")
