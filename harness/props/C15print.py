"""Read-level printers (read_assignments.tsv, corrected_reads.bed): correspondence of Model/Printers.lean and
Model/ReusePrint.lean with the real code, and the failing-input search for the line-level clauses of C15 / C05 / C08.

Unit level (this module, `correspondence`):
  * `match_subtype_to_str` for EVERY MatchEventSubtype member x strand (validates the generated table
    Gen/PrinterTables.lean against the live objects), `match_subtype_to_str_with_additional_info` on generated events
    (sentinel regions, negative coordinates, slices beyond the lists), `range_list_to_str`;
  * the REAL `ReadAssignmentCompositePrinter([BEDPrinter(print_corrected=True), BasicTSVAssignmentPrinter])` on generated
    `ReadAssignment` objects (harness/gen/serial.py, adapters of props/C15.py) attached to a `GeneInfo` object carrying
    `chr_id`, `all_isoforms_introns`, `reference_region`, `all_read_region_start`, `canonical_sites`: the lines of both
    files must equal the model's (`C15.print_records`), text and split fields; several records share one gene info so
    that the memo of `check_sites_are_canonical` is exercised; `PrintOnlyFunctor` checkers; records that make the real
    printer raise (transcript unknown to the gene info, gene id None, no corrected exons) must be errors of the model;
  * the real `merge_files(..., copy_header=False)` on generated part files (body lines starting with `#` included)
    against `C15.merge_body`.
Run level (called from props/C15reuse.py): the two files of every in-process saving run and restart must be, line by
line, what `C15.print_saved` predicts from the REAL saved files, the real `all_isoforms_introns` of every gene-info
header (real `GeneInfo.deserialize` on the real database) and the reference sequences.
"""
import io
import os
import shutil
import tempfile
import types

import vlib
from gen import serial as G

HASH_KIND = "printers:hash_led_line_lost"


def _c15():
    from props import C15
    return C15


def _mods():
    m = _c15()._impl()
    vlib.repo_on_path()
    import src.file_utils as FU
    return m, FU


# ------------------------------------------------------------------------------------------------
# real objects

def mk_gene_info(gv):
    m, _ = _mods()
    g = m.GI.GeneInfo.__new__(m.GI.GeneInfo)
    g.chr_id = G.from_cps(gv["chr"])
    g.all_isoforms_introns = {G.from_cps(t): [tuple(i) for i in introns] for t, introns in gv["iso"]}
    g.reference_region = gv["ref"] if gv["ref_present"] else None
    g.all_read_region_start = gv["start"]
    g.canonical_sites = {}
    return g


def mk_checker(c):
    m, _ = _mods()
    if c is None:
        return m.AIO.PrintAllFunctor()
    return m.AIO.PrintOnlyFunctor([m.IA.ReadAssignmentType(v) for v in c])


def mk_params(p):
    return types.SimpleNamespace(cage="cage.bed" if p["cage"] else None, check_canonical=p["check_canonical"])


def read_lines(path):
    with open(path, newline="") as f:
        data = f.read()
    if not data:
        return []
    lines = data.split("\n")
    assert lines[-1] == "", "file does not end with a newline"
    return [l + "\n" for l in lines[:-1]]


def real_print_records(case, root):
    """the real composite printer on the records of one gene region -> {"bed": [line], "tsv": [line]} | error"""
    m, _ = _mods()
    C15 = _c15()
    params = mk_params(case["params"])
    bed_path, tsv_path = os.path.join(root, "x.bed"), os.path.join(root, "x.tsv")
    bed = m.AIO.BEDPrinter(bed_path, params, print_corrected=True, assignment_checker=mk_checker(case["bed_checker"]))
    tsv = m.AIO.BasicTSVAssignmentPrinter(tsv_path, params, m.AIO.IOSupport(params))
    tsv.assignment_checker = mk_checker(case["tsv_checker"])
    comp = m.AIO.ReadAssignmentCompositePrinter([bed, tsv])
    gi = mk_gene_info(case["gv"])
    err = None
    try:
        for j in case["records"]:
            ra = C15.mk_ra(j)
            ra.gene_info = gi
            comp.add_read_info(ra)
        comp.flush()
    except (KeyError, TypeError, IndexError, AttributeError, ValueError) as ex:
        err = {"error": "error", "exc": type(ex).__name__}
    finally:
        bed.output_file.close()
        tsv.output_file.close()
    if err:
        return err
    return {"bed": read_lines(bed_path)[1:], "tsv": read_lines(tsv_path)[1:]}


# ------------------------------------------------------------------------------------------------
# generators

def rand_introns(rng, n=None):
    n = rng.choice([0, 1, 2, 4, 7]) if n is None else n
    p = rng.randint(1, 5000)
    out = []
    for _ in range(n):
        ln = rng.randint(1, 900)
        out.append([p, p + ln])
        p += ln + rng.randint(2, 400)
    return out


def rand_event(rng, enums, n_read, n_iso):
    """an event as a loaded record can hold it (regions >= 0) or, sometimes, one with negative coordinates"""
    def region(n):
        r = rng.random()
        if r < 0.2:
            return [1 << 31, 1 << 31]
        if r < 0.3:
            v = rng.choice([(1 << 30) - 1, (1 << 30) + 1, (1 << 31) - 1, 0])
            return [v, v]
        if r < 0.4:
            return [rng.randint(-3, 3), rng.randint(-3, 9)]
        a = rng.randint(0, max(0, n))
        return [a, a + rng.randint(0, 3)]
    return {"t": rng.choice(enums["MatchEventSubtype"]), "ir": region(n_iso), "rr": region(n_read),
            "info": rng.choice([0, 1, -1, 17, -250, 100000, G.rand_neg(rng)])}


def plant(seq, start, introns, strand, rng):
    """make the introns canonical on `strand` inside the window that begins at genomic position `start`"""
    s = list(seq)
    for a, b in introns:
        l, r = ("GT", "AG") if strand == "+" else ("CT", "AC")
        if rng.random() < 0.3:
            l, r = l.lower(), r.lower()
        i, k = a - start, b - start
        if 0 <= i and k + 1 <= len(s) and i + 2 <= k - 1:
            s[i:i + 2] = l
            s[k - 1:k + 1] = r
    return "".join(s)


def gen_print_case(rng, enums, cid):
    n = rng.choice([1, 1, 2, 3, 4])
    records = []
    shared_exons = None
    for k in range(n):
        r = G.rand_ra(rng, enums, in_domain=True, allow_empty_exons=False)
        if rng.random() < 0.75:
            r["exons"] = G.rand_exons(rng) if rng.random() < 0.5 else r["exons"]
        if shared_exons is not None and rng.random() < 0.5:
            r["exons"] = shared_exons                       # same introns asked again (other strand): the memo
        shared_exons = r["exons"]
        if rng.random() < 0.1:
            r["cexons"] = []                                 # IndexError of exon_blocks[0]
        elif not r["cexons"]:
            r["cexons"] = r["exons"]
        r["cintrons"] = G.junctions_from_blocks(r["cexons"])
        r["strand"] = G.cps(rng.choice(["+", "+", "-", "-", ".", ""]))
        r["chr"] = G.cps(rng.choice(["chr1", "chr9", "cé"]))
        if rng.random() < 0.7:
            r["read_id"] = G.cps(rng.choice(["r1", "read/2", "#r3", "ré4"]) + str(k))
        records.append(r)
    iso = {}
    for r in records:
        ri = G.junctions_from_blocks(r["exons"])
        for x in r["matches"]:
            if rng.random() < 0.6 and x["tr"] is None:
                x["tr"] = G.cps(rng.choice(["T1", "T2", "T3.1", "tré"]))
            if rng.random() < 0.85 and x["gene"] is None:
                x["gene"] = G.cps(rng.choice(["G1", "G2"]))
            if x["tr"] is not None and rng.random() < 0.92:
                iso.setdefault(tuple(x["tr"]), rand_introns(rng))
            n_iso = len(iso.get(tuple(x["tr"]) if x["tr"] is not None else (), []))
            x["events"] = [rand_event(rng, enums, len(ri), n_iso) for _ in range(rng.choice([0, 1, 2, 4]))]
    # reference window around the first record
    ex = records[0]["exons"]
    lo, hi = ex[0][0], ex[-1][1]
    ref_present = rng.random() < 0.85
    if hi - lo < 40000 and rng.random() < 0.9:
        start = max(1, lo - rng.randint(0, 5))
        seq = "".join(rng.choice("ACGTacgtN") for _ in range(hi - start + 1 + rng.randint(0, 4)))
        st = rng.choice("+-")
        if rng.random() < 0.7:
            seq = plant(seq, start, G.junctions_from_blocks(ex), st, rng)
    else:
        start = rng.choice([1, lo, 7])
        seq = "".join(rng.choice("ACGT") for _ in range(rng.choice([0, 10, 300])))
    if rng.random() < 0.1:
        seq = ""
    types_ = enums["ReadAssignmentType"]
    return {"id": cid, "records": records,
            "gv": {"chr": G.cps(rng.choice(["chr1", "chrX", "cé"])), "iso": [[list(t), i] for t, i in iso.items()],
                   "ref": seq, "ref_present": ref_present, "start": start},
            "params": {"cage": rng.random() < 0.3, "check_canonical": rng.random() < 0.75},
            "bed_checker": None if rng.random() < 0.8 else rng.sample(types_, rng.randint(0, 4)),
            "tsv_checker": None if rng.random() < 0.8 else rng.sample(types_, rng.randint(0, 4))}


def gen_window_case(rng, enums):
    n = rng.choice([0, 300, 1500])
    seq = "".join(rng.choice("ACGT") for _ in range(n))
    a = rng.choice([0, 1, 5, 200, 400])
    header = {"delta": 6, "genes": [], "chr": G.cps("chr1"), "start": a, "end": a + rng.randint(0, 600)}
    kept = []
    for _ in range(rng.choice([0, 1, 1, 2, 3])):
        r = G.rand_ra(rng, enums)
        p = rng.randint(1, 1200)
        r["exons"] = [[p, p + rng.randint(0, 80)], [p + 120, p + 120 + rng.randint(0, 300)]][:rng.choice([1, 2])]
        q = rng.randint(1, 1200)
        r["cexons"] = rng.choice([r["exons"], [], [[q, q + rng.randint(0, 500)]]])
        r["cintrons"] = G.junctions_from_blocks(r["cexons"])
        kept.append(r)
    return {"seq": seq, "header": header, "kept": kept}


def real_gene_window(c):
    """`GeneInfo.deserialize`, the two lines of `NormalTmpFileAssignmentLoader.get_object` that cut the window, then the
    REAL `ReadAssignmentLoader.extend_reference_region` -> {"start": all_read_region_start, "ref": reference_region}"""
    m, _ = _mods()
    C15 = _c15()
    buf = io.BytesIO()
    C15.mk_header(c["header"]).serialize(buf)
    buf.seek(0)
    gi = m.GI.GeneInfo.deserialize(buf, None)
    chr_record = c["seq"]
    if chr_record:
        gi.set_reference_sequence(gi.all_read_region_start, gi.all_read_region_end, chr_record)
    loader = m.DP.ReadAssignmentLoader.__new__(m.DP.ReadAssignmentLoader)
    loader.unpickler = types.SimpleNamespace(chr_record=chr_record)
    loader.reference_flank = 0      # set by __init__ since the --sqanti_output window repair (0 = run without --sqanti_output)
    loader.extend_reference_region(gi, [C15.mk_ra(j) for j in c["kept"]])
    return {"start": gi.all_read_region_start, "ref": gi.reference_region or ""}


def req_print_records(case):
    gv = case["gv"]
    return vlib.req("C15.print_records", records=case["records"], params=case["params"],
                    gv={"chr": gv["chr"], "iso": gv["iso"], "ref": gv["ref"] if gv["ref_present"] else "", "start": gv["start"]},
                    bed_checker=case["bed_checker"], tsv_checker=case["tsv_checker"])


def compare_lines(mo, real):
    """None or a description of the first difference between the model's answer and the real lines"""
    if vlib.is_err(mo) and vlib.is_err(real):
        return None
    if vlib.is_err(mo) or vlib.is_err(real):
        return "model %s, real %s" % ("raises" if vlib.is_err(mo) else "prints", real if vlib.is_err(real) else "prints")
    m_bed = [G.from_cps(b["line"]) for b in mo["bed"]]
    m_tsv = [G.from_cps(t) for t in mo["tsv_text"]]
    if m_bed != real["bed"]:
        return "BED lines: model %r real %r" % (m_bed[:3], real["bed"][:3])
    if m_tsv != real["tsv"]:
        d = next((i for i, (a, b) in enumerate(zip(m_tsv, real["tsv"])) if a != b), min(len(m_tsv), len(real["tsv"])))
        return "TSV line %d: model %r real %r (%d vs %d lines)" % (
            d, m_tsv[d:d + 1], real["tsv"][d:d + 1], len(m_tsv), len(real["tsv"]))
    # split fields (when no field holds a tab)
    for fields, line in zip(mo["tsv"], real["tsv"]):
        fs = [G.from_cps(f) for f in fields]
        if not any("\t" in f for f in fs) and line.rstrip("\n").split("\t") != fs:
            return "TSV fields: model %r real %r" % (fs, line)
    for b, line in zip(mo["bed"], real["bed"]):
        p = line.rstrip("\n").split("\t")
        nm, ch = G.from_cps(b["name"]), G.from_cps(b["chrom"])
        if "\t" in nm or "\t" in ch:
            continue
        exp = [ch, str(b["start"]), str(b["end"]), nm, "0", G.from_cps(b["strand"]), str(b["thick_start"]),
               str(b["thick_end"]), "0", str(b["count"]), ",".join(map(str, b["sizes"])), ",".join(map(str, b["starts"]))]
        if p != exp:
            return "BED fields: model %r real %r" % (exp, p)
    return None


# ------------------------------------------------------------------------------------------------
# merge_files

def gen_merge_case(rng, cid):
    names = rng.sample(["chr1", "chr2", "chr10", "chrX", "chr3_alt", "2", "11"], rng.randint(1, 4))
    parts = []
    # all parts of one merge are written by the same printer: the same number of header lines, which the caller of
    # merge_files passes (`printer.header_lines`: 3 for read_assignments.tsv, 1 for corrected_reads.bed, 0 for the GTFs)
    hl = rng.choice([0, 1, 3, 3])
    for nm in names:
        head = ["# Command line: x y\n", "# IsoQuant version: 3\n", "#read_id\tchr\n"][:hl]
        body = []
        for k in range(rng.choice([0, 1, 2, 5])):
            lead = "#" if rng.random() < 0.25 else ""
            body.append("%sr%d_%s\t%s\n" % (lead, k, nm, nm))
        parts.append(head + body)
    return {"id": cid, "names": names, "parts": parts, "header_lines": hl}


def real_merge(case, root):
    _, FU = _mods()
    base = os.path.join(root, "S.out.tsv")
    for nm, lines in zip(case["names"], case["parts"]):
        with open(os.path.join(root, "S_%s.out.tsv" % nm), "w", newline="") as f:
            f.write("".join(lines))
    import inspect
    # a tree whose merge_files finds the header lines by content (before the repair fix_merge_header) has no such parameter
    kw = {"header_lines": case.get("header_lines", 0)} if "header_lines" in inspect.signature(FU.merge_files).parameters else {}
    with open(base, "w", newline="") as out:
        FU.merge_files(base, "S", list(case["names"]), out, copy_header=False, **kw)
    left = [fn for fn in os.listdir(root) if fn.startswith("S_")]
    res = read_lines(base)
    os.remove(base)
    return res, left


# ------------------------------------------------------------------------------------------------
# correspondence (unit level)

def correspondence(ctx):
    rng = ctx.rng
    quick = ctx.tier == "quick"
    m, _ = _mods()
    C15 = _c15()
    E = C15.enums()
    IA = m.IA
    # 1. the generated event-name table, every member x strand
    cases, expect = [], []
    for t in IA.MatchEventSubtype:
        for strand in ["+", "-", ".", "", "x"]:
            cases.append(vlib.req("C15.subtype_str", t=t.value, strand=G.cps(strand)))
            expect.append(IA.match_subtype_to_str(IA.MatchEvent(t), strand))
    outs = ctx.driver.run(cases)
    for c, mo, ex in zip(cases, outs, expect):
        ctx.evaluations += 1
        ctx.count("op:subtype_str")
        if vlib.is_err(mo) or G.from_cps(mo) != ex:
            ctx.disagree("subtype_str", c, mo, ex)
        else:
            ctx.mark_nontrivial(["subtype_str", c])
    hd = ctx.driver.run([vlib.req("C15.printer_headers")])[0]
    root = tempfile.mkdtemp(prefix="isoverif_c15p_")
    try:
        p = types.SimpleNamespace(cage=None, check_canonical=False)
        b = m.AIO.BEDPrinter(os.path.join(root, "h.bed"), p)
        t = m.AIO.BasicTSVAssignmentPrinter(os.path.join(root, "h.tsv"), p, None)
        b.output_file.close()
        t.output_file.close()
        real_hd = {"bed": read_lines(os.path.join(root, "h.bed")), "tsv": read_lines(os.path.join(root, "h.tsv"))}
        ctx.evaluations += 1
        ctx.count("op:printer_headers")
        if [G.from_cps(hd["bed"])] != real_hd["bed"] or [G.from_cps(hd["tsv"])] != real_hd["tsv"]:
            ctx.disagree("printer_headers", {}, hd, real_hd)
        # 2. event strings
        n_ev = 1500 if quick else 12000
        cases, expect = [], []
        for _ in range(n_ev):
            ri, ii = rand_introns(rng), rand_introns(rng)
            e = rand_event(rng, E, len(ri), len(ii))
            strand = rng.choice(["+", "-", ".", ""])
            cases.append(vlib.req("C15.event_str", e=e, strand=G.cps(strand), ri=ri, ii=ii))
            ev = C15.mk_event(e)
            expect.append(vlib.call_impl(IA.match_subtype_to_str_with_additional_info, ev, strand,
                                         [tuple(x) for x in ri], [tuple(x) for x in ii]))
        outs = ctx.driver.run(cases)
        for c, mo, ex in zip(cases, outs, expect):
            ctx.evaluations += 1
            ctx.count("op:event_str")
            got = mo if vlib.is_err(mo) else G.from_cps(mo)
            if not vlib.same(got, ex):
                ctx.disagree("event_str", c, got, ex)
            elif not vlib.is_err(ex) and ":" in ex:
                ctx.mark_nontrivial(["event_str", c])
        # 3. the composite printer on the records of one gene region
        n_pr = 700 if quick else 6000
        pcs = [gen_print_case(rng, E, i) for i in range(n_pr)]
        outs = ctx.driver.run([req_print_records(c) for c in pcs])
        for c, mo in zip(pcs, outs):
            ctx.evaluations += 1
            ctx.count("op:print_records")
            real = real_print_records(c, root)
            why = compare_lines(mo, real)
            if why:
                ctx.disagree("print_records", c, {"why": why}, real if vlib.is_err(real) else None)
                continue
            if vlib.is_err(real):
                ctx.count("print_records:both_raise:" + real.get("exc", "?"))
                continue
            ctx.count("print_records:lines:%d" % min(len(real["tsv"]), 6))
            if any("Canonical=True" in l for l in real["tsv"]):
                ctx.count("print_records:canonical_true")
            if any("Canonical=False" in l for l in real["tsv"]):
                ctx.count("print_records:canonical_false")
            if real["tsv"] and real["bed"]:
                ctx.mark_nontrivial(["print_records", c["id"]])
            if len(ctx.samples) < 6 and real["tsv"] and rng.random() < 0.02:
                ctx.sample({"op": "print_records", "tsv": real["tsv"][:2], "bed": real["bed"][:1]})
        # 3b. the reference window of a gene region: set_reference_sequence + extend_reference_region (fix f48e223)
        n_gw = 300 if quick else 3000
        gws = [gen_window_case(rng, E) for _ in range(n_gw)]
        outs = ctx.driver.run([vlib.req("C15.gene_window", chr_seq=c["seq"], header=c["header"], kept=c["kept"]) for c in gws])
        for c, mo in zip(gws, outs):
            ctx.evaluations += 1
            ctx.count("op:gene_window")
            real = real_gene_window(c)
            if mo != real:
                ctx.disagree("gene_window", c, mo, real)
            elif real["ref"] and (real["start"] != max(1, c["header"]["start"]) or len(real["ref"]) != c["header"]["end"] - real["start"] + 1):
                ctx.mark_nontrivial(["gene_window", c["header"], len(c["kept"]), real["start"]])
        # 4. merge_files(copy_header=False)
        n_mg = 150 if quick else 1500
        mcs = [gen_merge_case(rng, i) for i in range(n_mg)]
        reqs = [vlib.req("C15.merge_body", order=vlib.model_merge_order(c["names"]), header_lines=c["header_lines"],
                         parts=[[G.cps(l) for l in p_] for p_ in c["parts"]]) for c in mcs]
        outs = ctx.driver.run(reqs)
        for c, mo in zip(mcs, outs):
            ctx.evaluations += 1
            ctx.count("op:merge_body")
            real, left = real_merge(c, root)
            got = mo if vlib.is_err(mo) else [G.from_cps(l) for l in mo]
            if got != real or left:
                ctx.disagree("merge_body", c, got, {"lines": real, "parts_left": left})
            elif real:
                ctx.mark_nontrivial(["merge_body", c["id"]])
    finally:
        shutil.rmtree(root, ignore_errors=True)


# ------------------------------------------------------------------------------------------------
# run level: hooks used by props/C15reuse.py

def printed_files(outdir, outputs_of):
    """the two read-level files of a real run as lists of lines"""
    fs = outputs_of(outdir)
    return {"tsv": read_lines(fs["read_assignments.tsv"]), "bed": read_lines(fs["corrected_reads.bed"])}


_ISO_CACHE = {}


def real_iso_introns(B, header):
    """`all_isoforms_introns` of the real `GeneInfo.deserialize` for this header on the real database"""
    key = tuple(tuple(x) for x in header["genes"])
    if key not in _ISO_CACHE:
        import gffutils
        m, _ = _mods()
        C15 = _c15()
        db = _ISO_CACHE.get("__db__")
        if db is None or _ISO_CACHE.get("__db_path__") != B["db"]:
            db = gffutils.FeatureDB(B["db"])
            _ISO_CACHE["__db__"], _ISO_CACHE["__db_path__"] = db, B["db"]
        buf = io.BytesIO()
        C15.mk_header(header).serialize(buf)
        buf.seek(0)
        gi = m.GI.GeneInfo.deserialize(buf, db)
        _ISO_CACHE[key] = [[G.cps(t), [list(i) for i in introns]] for t, introns in gi.all_isoforms_introns.items()]
    return _ISO_CACHE[key]


def reset_cache():
    _ISO_CACHE.clear()


def penv_of(case, B, common_header, check_canonical):
    iso, seen = [], set()
    for c in case["chroms"]:
        for g in c["groups"]:
            key = tuple(tuple(x) for x in g["gene"]["genes"])
            if key in seen:
                continue
            seen.add(key)
            iso.append([g["gene"]["genes"], real_iso_introns(B, g["gene"])])
    return {"params": {"cage": False, "check_canonical": check_canonical}, "iso": iso,
            "chr_seqs": [[G.cps(c["name"]), B["ds"].chroms[c["name"]]] for c in case["chroms"]],
            "common_header": [G.cps(l) for l in common_header]}


def req_print_saved(case, B, env, files, common_header, check_canonical):
    table, pos, derive = env
    names = [c["name"] for c in case["chroms"]]
    return vlib.req("C15.print_saved", table=[G.cps(s) for s in table], derive=derive,
                    penv=penv_of(case, B, common_header, check_canonical), merge_order=vlib.model_merge_order(names),
                    names=[G.cps(n) for n in names], files=files)


def compare_printed(mo, real):
    """None or how the model's two files differ from the real ones (line by line, exact text)"""
    if vlib.is_err(mo) or (isinstance(mo, dict) and "driver_error" in mo):
        return "model: %s" % str(mo)[:200]
    for k in ("tsv", "bed"):
        ml = [G.from_cps(l) for l in mo["files"][k]]
        if ml != real[k]:
            d = next((i for i, (a, b) in enumerate(zip(ml, real[k])) if a != b), min(len(ml), len(real[k])))
            return "%s line %d: model %r real %r (%d vs %d lines)" % (k, d, ml[d:d + 1], real[k][d:d + 1], len(ml), len(real[k]))
    return None


# ------------------------------------------------------------------------------------------------
# oracle: the line-level clauses on the real code (no model involved)

def lines_check(tsv_lines, bed_lines):
    """C05 / C08 on the two real files of one run (lists of lines, headers included): both files name the same reads
    -> list of (kind, detail)"""
    tsv = [l for l in tsv_lines[3:]]
    bed = [l for l in bed_lines[1:]]
    bed_names = [l.split("\t")[3] for l in bed]
    tsv_names = [l.split("\t")[0] for l in tsv]
    if set(bed_names) != set(tsv_names):
        only_bed, only_tsv = sorted(set(bed_names) - set(tsv_names)), sorted(set(tsv_names) - set(bed_names))
        kind = HASH_KIND if only_bed and not only_tsv and all(x.startswith("#") for x in only_bed) else "printers:files_disagree"
        return [(kind, "reads in corrected_reads.bed only: %s, in read_assignments.tsv only: %s" % (only_bed[:3], only_tsv[:3]))]
    return []


def hash_witness_unit():
    """`merged_hash_witness` on the real `merge_files`: a per-chromosome read_assignments file whose first body line
    belongs to read `#r1` -> True iff that line is missing from the merged file"""
    root = tempfile.mkdtemp(prefix="isoverif_c15p_")
    try:
        case = {"names": ["c1"], "header_lines": 3,
                "parts": [["# Command line: isoquant.py\n", "# IsoQuant version: 3.4.0\n", "#read_id\tchr\n",
                                            "#r1\tc1\t+\t.\t.\tintergenic\t.\t1-5\t*\n",
                                            "r2\tc1\t+\t.\t.\tintergenic\t.\t11-15\t*\n"]]}
        merged, _ = real_merge(case, root)
        return merged == ["r2\tc1\t+\t.\t.\tintergenic\t.\t11-15\t*\n"], merged
    finally:
        shutil.rmtree(root, ignore_errors=True)


def hash_witness_pipeline(seed=1):
    """the same through the real command line: the first read of chr1 is renamed `#first`; -> (reproduced, detail)"""
    import pipeline as P
    from gen import synth
    d = P.scratch("isoverif_c15p_")
    try:
        ds = synth.simple_dataset(seed=seed % 1000 + 3, n_chroms=2, genes_per_chrom=1, reads_per_tx=2)
        first = min((r for r in ds.reads if r["chr"] == "chr1"), key=lambda r: r["start0"])
        first["name"] = "#first"
        paths = ds.write(os.path.join(d, "data"))
        out = os.path.join(d, "out")
        rc, log = P.run_isoquant(out, P.std_args(paths, extra=["--no_model_construction"]), home=os.path.join(d, "home"),
                                 timeout=300)
        if rc != 0:
            return None, "pipeline rc=%s: %s" % (rc, log[-300:])
        fs = P.out_files(out)
        tsv, bed = read_lines(fs["S.read_assignments.tsv"]), read_lines(fs["S.corrected_reads.bed"])
        in_bed = any(l.split("\t")[3] == "#first" for l in bed[1:])
        in_tsv = any(l.split("\t")[0] == "#first" for l in tsv)
        fails = lines_check(tsv, bed)
        return (in_bed and not in_tsv), {"in_bed": in_bed, "in_tsv": in_tsv, "tsv_lines": len(tsv), "bed_lines": len(bed),
                                         "lines_check": fails}
    finally:
        shutil.rmtree(d, ignore_errors=True)


def oracle(ctx, report_finding=True):
    """replays `merged_hash_witness` on the real code (unit level and through the pipeline): the input on which the tree
    before the repair fix_merge_header loses a line of read_assignments.tsv.  Reproduced = a failing input of the real
    code (kind `printers:hash_led_line_lost`); on the repaired tree neither level reproduces it."""
    ok_u, merged = hash_witness_unit()
    ctx.count("oracle:hash_witness_unit")
    ok_p, detail = hash_witness_pipeline(ctx.seed)
    ctx.count("oracle:hash_witness_pipeline")
    ctx.extra["printers_hash_witness"] = {"unit_reproduced": ok_u, "pipeline_reproduced": ok_p, "pipeline_detail": detail}
    if ok_u or ok_p:
        msg = ("read-level printers: a read whose id starts with '#' and that is first on its chromosome is missing from "
               "read_assignments.tsv (merge_files takes its line for a header line): unit=%s pipeline=%s" % (ok_u, ok_p))
        ctx.notes.append(msg)
        if report_finding:
            ctx.fail(HASH_KIND, {"witness": "merged_hash_witness", "read_id": "#first", "level": "printers_hash"}, msg)


def replay(ctx, failure):
    ok_u, _ = hash_witness_unit()
    ok_p, detail = hash_witness_pipeline(ctx.seed)
    return {"reproduced": bool(ok_u or ok_p), "detail": detail}
