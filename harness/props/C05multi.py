"""C05 (growth) — experiments made of SEVERAL BAM files, both memory modes (Model/RegionsMulti.lean, Props/C05Multi.lean).

correspondence: the composed model (C12's k-way merger + C05's storages / splitting) through the driver ops `C05M.*`
  against the real `AlignmentCollector.__init__ / process / forward_alignments`, the real `BAMOnlineMerger`, both real
  storages holding `(bam_index, alignment)` pairs, `EnumStats.merge`, `count_unaligned_reads` and `FileNameGrouper` on
  k = 1..4 files (empty files, files without a record in some cluster, ties on (start, end) across files); fake pysam
  handles and, every few cases, real indexed BAM files written with pysam.
oracle: the multi-file clauses on the real code: every record of every file is forwarded for >= 1 region WITH THE INDEX OF
  ITS FILE in both modes, per region the two modes forward the same multiset of (file index, record), statistics = the
  per-category counts of the union, inserting an empty file only shifts the indices; and the real pipeline on three BAM
  files (one without any record) in both memory modes.
"""
import collections
import os
import shutil
import types

import vlib
from gen import coverage as G

_MODS = None


def _mods():
    global _MODS
    if _MODS is None:
        vlib.repo_on_path()
        import logging
        import src.alignment_processor as AP
        import src.stats as ST
        import src.read_groups as RG
        import src.dataset_processor as DP
        logging.getLogger("IsoQuant").setLevel(logging.CRITICAL)
        _MODS = (AP, ST, RG, DP)
    return _MODS


ERRS = (IndexError, AssertionError, ZeroDivisionError, KeyError, ValueError, TypeError, AttributeError)


# ------------------------------------------------------------------------------------------------
# fake / real BAM handles

class FakeAln:
    __slots__ = ("reference_start", "reference_end", "is_secondary", "is_supplementary", "reference_id",
                 "mapping_quality", "query_name", "rid", "is_reverse")

    def __init__(self, a):
        self.reference_start, self.reference_end = a[0], a[1]
        self.is_secondary = bool(a[2] & 1)
        self.is_supplementary = bool(a[2] & 2)
        self.reference_id = -1 if a[2] & 4 else 0
        self.mapping_quality = a[3]
        self.rid = a[4]
        self.query_name = "r%d" % a[4]
        self.is_reverse = False


class FakeBam:
    """pysam.AlignmentFile stand-in: fetch(chr, a, b) yields, in file order, the records overlapping [a, b)"""

    def __init__(self, recs, length):
        self.objs = [FakeAln(a) for a in recs]
        self.length = length

    def fetch(self, chr_id, start, end, multiple_iterators=False):
        return iter([a for a in self.objs if a.reference_start < end and a.reference_end > start])

    def get_reference_length(self, chr_id):
        return self.length

    def get_tid(self, chr_id):
        return -1 if self.length is None else 0        # pysam: -1 = the header does not list the sequence

    def reset(self):
        pass

    def close(self):
        pass


def fake_pairs(files, L):
    return [(FakeBam(f, L), "file%d.bam" % i) for i, f in enumerate(files)]


def rid_of(a):
    return a.rid if hasattr(a, "rid") else int(a.query_name[1:])


def write_real_bams(d, files, L):
    """one indexed BAM per file list (flags 1 -> 256, 2 -> 2048; records flagged 4 cannot be placed: callers avoid them)"""
    import pysam
    os.makedirs(d, exist_ok=True)
    hdr = {"HD": {"VN": "1.6", "SO": "coordinate"}, "SQ": [{"SN": "chr1", "LN": L}]}
    pairs = []
    for i, f in enumerate(files):
        path = os.path.join(d, "m%d.bam" % i)
        with pysam.AlignmentFile(path, "wb", header=hdr) as out:
            for a in f:
                s = pysam.AlignedSegment()
                s.query_name = "r%d" % a[4]
                s.flag = (256 if a[2] & 1 else 0) | (2048 if a[2] & 2 else 0)
                s.reference_id = 0
                s.reference_start = a[0]
                s.mapping_quality = a[3]
                s.cigarstring = "%dM" % (a[1] - a[0])      # no sequence stored: the collector loop never reads it
                out.write(s)
        pysam.index(path)
        pairs.append((pysam.AlignmentFile(path, "rb", require_index=True), path))
    return pairs


# ------------------------------------------------------------------------------------------------
# the real code

def _params(mem):
    return types.SimpleNamespace(high_memory=mem, polya_window=16, polya_fraction=0.75, cage=None, cage_shift=50,
                                 no_secondary=False, min_mapq=0)


def real_collect_files(pairs, mem, chr_record=None):
    """real AlignmentCollector (its own __init__), real storages / merger / split_coverage_regions; only the per-region
    worker is a recorder -> {'out': [[region, [[bam_index, rid]..]]..], 'stats': {...}}"""
    AP, ST, RG, DP = _mods()
    try:
        col = AP.AlignmentCollector("chr1", pairs, _params(mem), None, None, chr_record)
        col.process_alignments_in_region = lambda region, alns, gene_region=None: (tuple(region), [[i, rid_of(a)] for i, a in alns])
        out = [[list(r), lst] for r, lst in col.process()]
    except ERRS as ex:
        return {"error": "error", "exc": type(ex).__name__}
    stats = {t.name: col.alignment_stat_counter.stats_dict.get(t, 0) for t in AP.AlignmentType}
    return {"out": out, "stats": stats}


def real_stream(pairs, region):
    AP, ST, RG, DP = _mods()
    m = AP.BAMOnlineMerger(pairs, "chr1", region[0], region[1], multiple_iterators=True)
    return [[i, rid_of(a)] for i, a in m.get()]


def real_mem_get_m(pairs_in, region):
    AP, ST, RG, DP = _mods()
    try:
        st = AP.InMemoryAlignmentStorage()
        for i, a in pairs_in:
            st.add_alignment(i, FakeAln(a))
        return [[i, a.rid] for i, a in st.get_alignments(tuple(region) if region is not None else None)]
    except ERRS as ex:
        return {"error": "error", "exc": type(ex).__name__}


def real_experiment_stats(chroms, unmapped):
    """per-chromosome counters from the real collector, accumulated with the real EnumStats.merge as collect_reads does,
    then the real count_unaligned_reads (pysam.AlignmentFile replaced by a stub that only has `.unmapped`)"""
    AP, ST, RG, DP = _mods()
    files = ["f%d.bam" % i for i in range(len(unmapped))]

    class StubBam:
        def __init__(self, fname, *a, **kw):
            self.unmapped = unmapped[files.index(fname)]

    dp = DP.DatasetProcessor.__new__(DP.DatasetProcessor)
    dp.args = types.SimpleNamespace(keep_tmp=True, gunzipped_reference=None)      # read by __del__ only
    dp.alignment_stat_counter = ST.EnumStats()
    for c in chroms:
        col = AP.AlignmentCollector("chr1", fake_pairs(c["files"], c["L"]), _params(False), None, None, None)
        col.process_alignments_in_region = lambda region, alns, gene_region=None: None
        for _ in col.process():
            pass
        dp.alignment_stat_counter.merge(col.alignment_stat_counter)
    saved = DP.pysam
    DP.pysam = types.SimpleNamespace(AlignmentFile=StubBam)
    try:
        dp.count_unaligned_reads(types.SimpleNamespace(file_list=[(f,) for f in files]))
    finally:
        DP.pysam = saved
    return {t.name: dp.alignment_stat_counter.stats_dict.get(t, 0) for t in AP.AlignmentType}


class _StubInfo:
    """AlignmentInfo stand-in: one aligned block, no polyA / CAGE (the fake alignments carry no CIGAR)"""

    def __init__(self, alignment):
        self.read_exons = [(alignment.reference_start + 1, alignment.reference_end)]
        self.exons_changed = False
        self.cage_hits = []
        self.polya_info = types.SimpleNamespace(external_polya_pos=-1, external_polyt_pos=-1,
                                                internal_polya_pos=-1, internal_polyt_pos=-1)

    def add_polya_info(self, *a):
        pass


def real_groups(files, L, names, readable, mem):
    """the real collector INCLUDING the real process_alignments_in_region / process_intergenic (no annotation) with a
    real FileNameGrouper: -> [[region, [[rid, read_group]..]]..] (AlignmentInfo replaced by a stub)"""
    AP, ST, RG, DP = _mods()
    g = RG.FileNameGrouper.__new__(RG.FileNameGrouper)
    RG.AbstractReadGrouper.__init__(g)
    g.readable_names_dict = dict(readable)
    pairs = [(FakeBam(f, L), names[i]) for i, f in enumerate(files)]
    params = _params(mem)
    params.delta = 6
    params.simple_alignments_mapq_cutoff = 1
    params.bam_tags = []
    saved = AP.AlignmentInfo
    AP.AlignmentInfo = _StubInfo
    try:
        col = AP.AlignmentCollector("chr1", pairs, params, None, None, None, g)
        out = []
        for gene_info, storage in col.process():
            # the sub-region is what the records carry (genomic_region); the region of the (empty) gene info is the region the
            # genes were asked for, which after the repair of audit2-C GAP 1 is the extent of the sub-region's alignments
            reg = list(storage[0].genomic_region) if storage else [gene_info.start, gene_info.end]
            out.append([reg, [[int(ra.read_id[1:]), ra.read_group] for ra in storage]])
        return {"out": out, "groups": sorted(g.read_groups)}
    except ERRS as ex:
        return {"error": "error", "exc": type(ex).__name__}
    finally:
        AP.AlignmentInfo = saved


def real_file_group(names, readable, i):
    AP, ST, RG, DP = _mods()
    g = RG.FileNameGrouper.__new__(RG.FileNameGrouper)
    RG.AbstractReadGrouper.__init__(g)
    g.readable_names_dict = dict(readable)
    pairs = [(None, n) for n in names]
    try:
        return g.get_group_id(None, pairs[i][1])       # the expression of process_genic / process_intergenic
    except ERRS as ex:
        return {"error": "error", "exc": type(ex).__name__}


# ------------------------------------------------------------------------------------------------
# generators: partitions of an alignment set into k coordinate-sorted files

def partition(rng, alns, k, style=None):
    """k files sorted by start (order among equal starts random, as in a BAM); `style`:
    'uniform', 'empty' (>= 1 file without any record), 'by_cluster' (a file holds the records of few clusters only: it
    has nothing in the other regions), 'twins' (records copied into other files with the same start and end)"""
    style = style or rng.choice(["uniform", "empty", "by_cluster", "twins", "uniform"])
    alns = [list(a) for a in alns]
    if style == "twins" and alns:
        for a in rng.sample(alns, min(len(alns), rng.randint(1, 6))):
            for _ in range(rng.randint(1, 2)):
                alns.append([a[0], a[1], rng.choice([a[2], 0, 1]), a[3], 0])
    order = list(alns)
    rng.shuffle(order)
    files = [[] for _ in range(k)]
    allowed = list(range(k))
    if style == "empty" and k >= 2:
        for e in rng.sample(range(k), rng.randint(1, k - 1)):
            allowed.remove(e)
    if style == "by_cluster":
        lo = min([a[0] for a in alns] + [0])
        hi = max([a[1] for a in alns] + [1])
        cut = [rng.randint(lo, hi) for _ in range(k)]
        for a in order:
            cand = [j for j in allowed if (a[0] < cut[j]) == (j % 2 == 0)] or allowed
            files[rng.choice(cand)].append(a)
    else:
        for a in order:
            files[rng.choice(allowed)].append(a)
    files = [sorted(f, key=lambda a: a[0]) for f in files]
    # unique record ids over the whole experiment
    n = 0
    for f in files:
        for a in f:
            a[4] = n
            n += 1
    return style, files


def length_of(files):
    return max([a[1] for f in files for a in f] + [1]) + 10


def _digest(op, kw):
    import hashlib
    import json
    return op + ":" + hashlib.sha1(json.dumps(vlib.canon(kw), sort_keys=True).encode()).hexdigest()[:16]


def _short(x, cap=400):
    import json
    s = json.dumps(vlib.canon(x), default=str)
    return x if len(s) <= cap else s[:cap] + "...(%d chars)" % len(s)


def gen_cases(rng, quick):
    """(kind, files) cases: small sets with every flag / adjacency corner and split clusters, over k = 1..4 files"""
    cases = []
    for _ in range(240 if quick else 2400):
        alns = G.small_cluster_set(rng, n_max=25, p_special=0.25)
        k = rng.choice([1, 2, 2, 3, 3, 4])
        style, files = partition(rng, alns, k)
        cases.append(("small/" + style, files))
    for t in G.touching_pairs(rng)[:: (4 if quick else 1)]:
        cases.append(("touching", [[t[0]], [], [t[1]]]))
        cases.append(("touching", [[t[1]], [t[0]]]))
    kinds = ["pile_bridge_tail", "final_bin_valley", "first_base", "long_ladder", "two_piles", "random_profile", "thin_long",
             "single_bin"]
    for i in range(24 if quick else 240):
        kind, alns = G.split_cluster(rng, kinds[i % len(kinds)])
        if len(alns) > 2600:
            alns = alns[:2600]
        k = rng.choice([2, 3, 4])
        style, files = partition(rng, alns, k)
        cases.append(("split/" + kind + "/" + style, files))
    # exhaustive tiny universe: 3 records over starts 0..2, lengths 1..3, every assignment to 3 files (ties on start / end)
    ivs = [(s, s + ln) for s in range(3) for ln in (1, 2, 3)]
    import itertools
    tiny = list(itertools.combinations_with_replacement(ivs, 3))
    for recs in tiny[:: (3 if quick else 1)]:
        for assign in itertools.product(range(3), repeat=3):
            files = [[], [], []]
            for n, (r, f) in enumerate(zip(recs, assign)):
                files[f].append(G.aln(r[0], r[1], n, [0, 1, 2][n % 3] if sum(assign) % 2 else 0))
            files = [sorted(f, key=lambda a: a[0]) for f in files]
            cases.append(("tiny", files))
    return cases


# ------------------------------------------------------------------------------------------------
# correspondence

def correspondence(ctx):
    rng = ctx.rng
    quick = ctx.tier == "quick"
    D = ctx.driver
    real_dir = vlib.scratch_dir("isoverif_c05m_")
    try:
        _correspondence(ctx, rng, quick, D, real_dir)
    finally:
        shutil.rmtree(real_dir, ignore_errors=True)


def _correspondence(ctx, rng, quick, D, real_dir):
    cases = gen_cases(rng, quick)
    ctx.extra["c05m_tiny_universe"] = "3 records over starts 0..2 x lengths 1..3, all 27 assignments to 3 files"
    # 1. the whole collector, both modes, + statistics
    reqs, meta = [], []
    n_real = 0
    for n, (kind, files) in enumerate(cases):
        L = length_of(files)
        cut = False
        if kind.startswith("small") and rng.random() < 0.1 and any(files):
            L = rng.choice([a[0] for f in files for a in f]) + rng.choice([-1, 0, 1])     # reference "shorter" than the data
            L = max(L, 0)
            cut = True
        use_real = (not cut) and kind != "tiny" and n % (9 if quick else 5) == 0 and \
            all(not (a[2] & 4) and a[0] >= 0 for f in files for a in f) and sum(len(f) for f in files) <= 400
        for mode in ("bam", "memory"):
            reqs.append(vlib.req("C05M.collect_files", mode=mode, files=files, L=L))
            meta.append((kind, files, L, mode, use_real, n))
        reqs.append(vlib.req("C05M.chrom_stats", files=files, L=L))
        meta.append((kind, files, L, "stats", use_real, n))
    outs = D.run(reqs)
    cache = {}
    for (kind, files, L, mode, use_real, n), mo in zip(meta, outs):
        ctx.evaluations += 1
        op = "collect_files" if mode != "stats" else "chrom_stats"
        ctx.count("op:C05M." + op)
        if mode != "stats":
            ctx.count("c05m_k:%d" % len(files))
            ctx.count("c05m_kind:" + kind.split("/")[0] + "/" + kind.split("/")[-1])
            if any(not f for f in files):
                ctx.count("c05m_with_empty_file")
        if isinstance(mo, dict) and "driver_error" in mo:
            ctx.disagree("C05M." + op, {"files": files, "L": L, "mode": mode}, mo, None)
            continue
        key = (n, mode if mode != "stats" else "bam")
        if key not in cache:
            if use_real:
                d = os.path.join(real_dir, "c%d_%s" % (n, key[1]))
                pairs = write_real_bams(d, files, L)
                n_real += 1
                ctx.count("c05m_real_bam_runs")
            else:
                pairs = fake_pairs(files, L)
            cache[key] = real_collect_files(pairs, key[1] == "memory")
            if use_real:
                for b, _ in pairs:
                    b.close()
                shutil.rmtree(d, ignore_errors=True)
        r = cache[key]
        ctx.traces_validated += 1
        if mode == "stats":
            io = r if vlib.is_err(r) else r["stats"]
        else:
            io = r if vlib.is_err(r) else r["out"]
        io = vlib.canon(io)
        if not vlib.same(mo, io):
            ctx.disagree("C05M." + op, {"files": files, "L": L, "mode": mode}, _short(mo), _short(io))
        elif not vlib.is_err(mo):
            if mode == "stats" or any(len(x[1]) > 0 for x in mo):
                ctx.mark_nontrivial(_digest(op, [files, L, mode]))
            if mode != "stats":
                ctx.count("c05m_forwarded_regions:%s" % (len(mo) if len(mo) < 4 else ">=4"))
                if any(len(set(i for i, _ in x[1])) >= 2 for x in mo):
                    ctx.count("c05m_region_with_several_files")
        if len(ctx.samples) < 12 and mode != "stats" and rng.random() < 0.004:
            ctx.sample({"op": "C05M." + op, "input": _short({"files": files, "L": L, "mode": mode}), "model": _short(mo), "impl": _short(io)})

    # 2. the two merger calls: scan over (0, L) and the per-region re-fetch
    reqs, meta = [], []
    for kind, files in cases[:: (4 if quick else 2)]:
        if kind == "tiny" and rng.random() < 0.7:
            continue
        L = length_of(files)
        reqs.append(vlib.req("C05M.scan", files=files, L=L))
        meta.append((files, (0, L)))
        los = [a[0] for f in files for a in f] or [0]
        his = [a[1] for f in files for a in f] or [1]
        for _ in range(3):
            a = rng.randint(min(los), max(his))
            b = a + rng.choice([0, 1, 5, 255, 256, 2000, 40000])
            reqs.append(vlib.req("C05M.region_stream", files=files, region=[a, b]))
            meta.append((files, (a, b)))
    outs = D.run(reqs)
    for (files, reg), mo in zip(meta, outs):
        ctx.evaluations += 1
        ctx.count("op:C05M.stream")
        io = real_stream(fake_pairs(files, length_of(files)), reg)
        ctx.traces_validated += 1
        if mo != io:
            ctx.disagree("C05M.stream", {"files": files, "region": list(reg)}, _short(mo), _short(io))
        elif len(mo) >= 2:
            ctx.mark_nontrivial(_digest("stream", [files, reg]))

    # 3. the in-memory storage holding (bam_index, alignment) pairs: sub-region queries
    reqs, meta = [], []
    for kind, files in cases:
        if not kind.startswith("split") and rng.random() < 0.8:
            continue
        if kind == "tiny":
            continue
        L = length_of(files)
        stream = real_stream(fake_pairs(files, L), (0, L))
        by_rid = {a[4]: a for f in files for a in f}
        pairs = []
        hi = None
        for i, rid in stream:           # first cluster of the merged stream (a storage holds one cluster)
            a = by_rid[rid]
            if hi is not None and a[0] > hi:
                break
            pairs.append([i, a])
            hi = a[1] - 1 if hi is None else max(hi, a[1] - 1)
        if not pairs or len(pairs) > 2500:
            continue
        lo = min(a[0] for _, a in pairs)
        regs = [None, [lo, hi]]
        for _ in range(6 if quick else 20):
            x = rng.randint(lo, hi)
            y = rng.randint(x, hi)
            if rng.random() < 0.3:
                x = max(lo, (x // 256) * 256 + rng.choice([0, 1, 255]))
                y = min(hi, max(x, (y // 256) * 256 + rng.choice([-1, 0, 255])))
            if rng.random() < 0.1:
                x, y = lo - rng.randint(1, 600), hi + rng.randint(1, 600)
            regs.append([x, y])
        for reg in regs:
            reqs.append(vlib.req("C05M.mem_get_m", pairs=pairs, region=reg))
            meta.append((pairs, reg))
    outs = D.run(reqs)
    for (pairs, reg), mo in zip(meta, outs):
        ctx.evaluations += 1
        ctx.count("op:C05M.mem_get_m")
        io = vlib.canon(real_mem_get_m(pairs, reg))
        ctx.traces_validated += 1
        if vlib.is_err(mo):
            ctx.count("model_error:C05M.mem_get_m")
        if not vlib.same(mo, io):
            ctx.disagree("C05M.mem_get_m", {"pairs": _short(pairs), "region": reg}, _short(mo), _short(io))
        elif not vlib.is_err(mo) and len(mo) >= 1:
            ctx.mark_nontrivial(_digest("mem_get_m", [pairs, reg]))

    # 4. statistics of the experiment: several chromosomes, unaligned reads of every file
    reqs, meta = [], []
    for _ in range(40 if quick else 400):
        k = rng.choice([1, 2, 3, 4])
        chroms = []
        for c in range(rng.randint(1, 3)):
            _, files = partition(rng, G.small_cluster_set(rng, n_max=20, p_special=0.5), k)
            chroms.append({"files": files, "L": length_of(files)})
        unmapped = [rng.choice([0, 0, 1, 7, 100]) for _ in range(k)]
        reqs.append(vlib.req("C05M.experiment_stats", chroms=chroms, unmapped=unmapped))
        meta.append((chroms, unmapped))
    outs = D.run(reqs)
    for (chroms, unmapped), mo in zip(meta, outs):
        ctx.evaluations += 1
        ctx.count("op:C05M.experiment_stats")
        io = real_experiment_stats(chroms, unmapped)
        ctx.traces_validated += 1
        if mo != io:
            ctx.disagree("C05M.experiment_stats", {"chroms": _short(chroms), "unmapped": unmapped}, mo, io)
        elif sum(mo.values()) > 0:
            ctx.mark_nontrivial(_digest("experiment_stats", [chroms, unmapped]))

    # 5. read group by file name: bam_pairs[bam_index][1] through the real FileNameGrouper
    reqs, meta = [], []
    pool = ["a.bam", "dir/b.bam", "c.sorted.bam", "", "x"]
    for _ in range(60 if quick else 600):
        names = [rng.choice(pool) for _ in range(rng.randint(1, 4))]
        readable = [[n, "R_" + n] for n in set(names) if rng.random() < 0.6]
        i = rng.randint(0, len(names) + (1 if rng.random() < 0.1 else -1))
        i = max(i, 0)
        reqs.append(vlib.req("C05M.file_group", names=names, readable=readable, i=i))
        meta.append((names, readable, i))
    outs = D.run(reqs)
    for (names, readable, i), mo in zip(meta, outs):
        ctx.evaluations += 1
        ctx.count("op:C05M.file_group")
        io = real_file_group(names, readable, i)
        ctx.traces_validated += 1
        if vlib.is_err(io):
            io = None
        if mo != io:
            ctx.disagree("C05M.file_group", {"names": names, "readable": readable, "i": i}, mo, io)
        elif mo is not None:
            ctx.mark_nontrivial(_digest("file_group", [names, readable, i]))


    # 6. the file index reaching the read grouper: real process_alignments_in_region / process_intergenic with a real
    #    FileNameGrouper vs fileGroup applied to the bam indices the model forwards (primary records, mapq 60)
    gcases = []
    for _ in range(40 if quick else 400):
        alns = [[a[0], a[1], 0, 60, a[4]] for a in G.small_cluster_set(rng, n_max=25, p_special=0.0)]
        if rng.random() < 0.15:
            alns = [[a[0], a[1], 0, 60, a[4]] for a in G.split_cluster(rng, rng.choice(["long_ladder", "thin_long"]))[1]][:1200]
        k = rng.choice([2, 3, 4])
        style, files = partition(rng, alns, k, rng.choice(["uniform", "empty", "by_cluster"]))
        names = ["/data/run/%s%d.bam" % (rng.choice(["s", "lib", "x"]), i) for i in range(k)]
        readable = [[nm, "R%d" % i] for i, nm in enumerate(names) if rng.random() < 0.5]
        gcases.append((files, length_of(files), names, readable, rng.random() < 0.5))
    reqs = []
    for files, L, names, readable, mem in gcases:
        reqs.append(vlib.req("C05M.collect_files", mode="memory" if mem else "bam", files=files, L=L))
        for i in range(len(files)):
            reqs.append(vlib.req("C05M.file_group", names=names, readable=readable, i=i))
    outs = D.run(reqs)
    pos = 0
    for files, L, names, readable, mem in gcases:
        mo = outs[pos]
        grp = outs[pos + 1: pos + 1 + len(files)]
        pos += 1 + len(files)
        ctx.evaluations += 1
        ctx.count("op:C05M.read_groups")
        io = real_groups(files, L, names, readable, mem)
        ctx.traces_validated += 1
        if vlib.is_err(mo) or vlib.is_err(io):
            ctx.disagree("C05M.read_groups", {"files": files, "L": L, "names": names, "readable": readable, "mem": mem}, _short(mo), _short(io))
            continue
        model = [[reg, [[rid, grp[i]] for i, rid in lst]] for reg, lst in mo]
        if model != vlib.canon(io["out"]):
            ctx.disagree("C05M.read_groups", {"files": files, "L": L, "names": names, "readable": readable, "mem": mem},
                         _short(model), _short(io["out"]))
        elif len(set(g for _, lst in model for _, g in lst)) >= 2:
            ctx.mark_nontrivial(_digest("read_groups", [files, names, readable, mem]))


# ------------------------------------------------------------------------------------------------
# oracle: the multi-file clauses on the real code

def expected_stats(files):
    alns = [a for f in files for a in f]
    return {"secondary": sum(1 for a in alns if a[2] & 1),
            "supplementary": sum(1 for a in alns if not a[2] & 1 and a[2] & 2),
            "primary": sum(1 for a in alns if not a[2] & 3 and not a[2] & 4), "unaligned": 0}


def check_files(files, L=None, pairs_of=None, chr_record=None):
    """the property on the real collector; returns (kind, detail) or None.  Record ids (a[4]) are unique over the files."""
    L = length_of(files) if L is None else L
    pairs_of = pairs_of or (lambda fs: fake_pairs(fs, L))
    owner = {a[4]: i for i, f in enumerate(files) for a in f}
    span = {a[4]: (a[0], a[1] - 1) for f in files for a in f}
    res = {}
    for mode, hm in (("default", False), ("high_memory", True)):
        r = real_collect_files(pairs_of(files), hm, chr_record)
        if vlib.is_err(r):
            return ("multi_collector_raises:" + mode, r.get("exc"))
        res[mode] = r
        seen = set()
        for region, lst in r["out"]:
            c = collections.Counter((i, rid) for i, rid in lst)
            for (i, rid), n in c.items():
                if rid not in owner:
                    return ("multi_foreign_alignment:" + mode, "record %s in region %s is in no file" % (rid, region))
                if owner[rid] != i:
                    return ("multi_wrong_file_index:" + mode,
                            "record %s of file %d is forwarded with bam_index %d (region %s)" % (rid, owner[rid], i, region))
                if n > 1:
                    return ("multi_alignment_twice_in_one_region:" + mode, "record %s x%d in region %s" % (rid, n, region))
                if span[rid][0] > region[1] or span[rid][1] < region[0]:
                    return ("multi_alignment_outside_region:" + mode, "record %s %s in region %s" % (rid, span[rid], region))
                seen.add(rid)
        lost = [rid for rid in owner if rid not in seen]
        if lost:
            rid = lost[0]
            return ("multi_alignment_not_forwarded:" + mode,
                    "%d record(s) reach no processing region, e.g. record %s %s of file %d of %d; regions %s"
                    % (len(lost), rid, span[rid], owner[rid], len(files), [x[0] for x in r["out"]][:6]))
        if r["stats"] != expected_stats(files):
            return ("multi_stats_mismatch:" + mode, "counters %s, categories of the union of the files %s" % (r["stats"], expected_stats(files)))
    d0, d1 = res["default"]["out"], res["high_memory"]["out"]
    if [x[0] for x in d0] != [x[0] for x in d1]:
        return ("multi_memory_modes_differ", "regions differ: %s vs %s" % (_short([x[0] for x in d0], 200), _short([x[0] for x in d1], 200)))
    for x, y in zip(d0, d1):
        if sorted(map(tuple, x[1])) != sorted(map(tuple, y[1])):
            return ("multi_memory_modes_differ", "region %s: default %s vs high_memory %s" % (x[0], _short(x[1], 200), _short(y[1], 200)))
    return None


def check_groups(files, mem):
    """every record reaches the read grouper with the name of ITS file (primary records only)"""
    L = length_of(files)
    names = ["/d/file_%d.bam" % i for i in range(len(files))]
    owner = {a[4]: i for i, f in enumerate(files) for a in f}
    r = real_groups(files, L, names, [], mem)
    mode = "high_memory" if mem else "default"
    if vlib.is_err(r):
        return ("multi_collector_raises:" + mode, r.get("exc"))
    seen = set()
    for reg, lst in r["out"]:
        for rid, grp in lst:
            seen.add(rid)
            if grp != names[owner[rid]]:
                return ("multi_wrong_read_group:" + mode, "record %s of %s gets read group %s (region %s)"
                        % (rid, names[owner[rid]], grp, reg))
    lost = [rid for rid in owner if rid not in seen]
    if lost:
        return ("multi_record_without_assignment:" + mode, "record %s of file %d yields no read assignment" % (lost[0], owner[lost[0]]))
    return None


def check_empty_insert(files, j):
    """an additional file without records at position j only shifts the file indices behind it"""
    L = length_of(files)
    files2 = files[:j] + [[]] + files[j:]
    for mode, hm in (("default", False), ("high_memory", True)):
        a = real_collect_files(fake_pairs(files, L), hm)
        b = real_collect_files(fake_pairs(files2, L), hm)
        if vlib.is_err(a) or vlib.is_err(b):
            if vlib.is_err(a) != vlib.is_err(b):
                return ("multi_empty_file_changes_output:" + mode, "error only with / without the empty file")
            continue
        sh = [[reg, [[i if i < j else i + 1, rid] for i, rid in lst]] for reg, lst in a["out"]]
        if sh != b["out"] or a["stats"] != b["stats"]:
            k = next((n for n in range(min(len(sh), len(b["out"]))) if sh[n] != b["out"][n]), min(len(sh), len(b["out"])))
            return ("multi_empty_file_changes_output:" + mode,
                    "empty file inserted at %d: forwarded #%d expected %s, got %s"
                    % (j, k, _short(sh[k] if k < len(sh) else None, 200), _short(b["out"][k] if k < len(b["out"]) else None, 200)))
    return None


def shrink_files(files, fails, budget_s=6.0):
    import time
    t0 = time.time()
    cur = [list(f) for f in files]
    for fi in range(len(cur)):
        chunk = max(1, len(cur[fi]) // 2)
        while chunk >= 1 and time.time() - t0 < budget_s:
            i = 0
            progressed = False
            while i < len(cur[fi]) and time.time() - t0 < budget_s:
                cand = [list(f) for f in cur]
                del cand[fi][i:i + chunk]
                if fails(cand):
                    cur = cand
                    progressed = True
                else:
                    i += chunk
            if chunk == 1 and not progressed:
                break
            chunk = chunk // 2 if chunk > 1 else (1 if progressed else 0)
    return cur


def _report(ctx, files):
    r = check_files(files)
    if r is None:
        return False
    kind = r[0]
    if sum(len(f) for f in files) > 12:
        files = shrink_files(files, lambda c: (lambda x: x is not None and x[0] == kind)(check_files(c)))
        r = check_files(files) or r
    ctx.fail(r[0], {"level": "multi", "files": files}, r[1])
    return True


def _report_insert(ctx, files, j):
    r = check_empty_insert(files, j)
    if r is None:
        return False
    kind = r[0]
    if sum(len(f) for f in files) > 12:
        files = shrink_files(files, lambda c: (lambda x: x is not None and x[0] == kind)(check_empty_insert(c, j)))
        r = check_empty_insert(files, j) or r
    ctx.fail(r[0], {"level": "multi_insert", "files": files, "j": j}, r[1])
    return True


def witness_files():
    """inputs of the two earlier seeded defects: an earlier-listed file without records in the region; a middle file
    without records (numbering must not skip it)"""
    return [
        [[], [G.aln(1, 3, 0)], [G.aln(1, 3, 1)]],
        [[G.aln(100, 200, 0)], [G.aln(5000, 5100, 1)], [G.aln(150, 260, 2), G.aln(5050, 5200, 3)]],
        [[G.aln(10, 20, 0)], [], [G.aln(15, 30, 1), G.aln(15, 30, 2)], [G.aln(15, 30, 3)]],
    ]


def oracle(ctx, disagreements, broken):
    rng = ctx.rng
    quick = ctx.tier == "quick"
    n = 0
    base_fail = len(ctx.failures)

    def enough():
        return len(ctx.failures) - base_fail >= 4
    for d in disagreements[:40]:
        inp = d.get("input")
        if enough():
            break
        if str(d.get("op", "")).startswith("C05M.") and isinstance(inp, dict) and isinstance(inp.get("files"), list):
            n += 1
            if not _report(ctx, inp["files"]):
                for j in range(len(inp["files"]) + 1):
                    if _report_insert(ctx, inp["files"], j):
                        break
    for files in witness_files():
        n += 1
        ctx.count("oracle_multi_witness")
        if not _report(ctx, files):
            for j in range(len(files) + 1):
                if _report_insert(ctx, files, j):
                    break
    mult = 3 if any("C05M" in b or "C05Multi" in b for b in broken) else 1
    for kind, files in gen_cases(rng, quick)[:: (2 if quick else 1)] * mult:
        if kind == "tiny" and rng.random() < 0.8:
            continue
        n += 1
        ctx.count("oracle_multi:" + kind.split("/")[0])
        if enough():
            break
        if _report(ctx, files):
            continue
        if rng.random() < (0.5 if sum(len(f) for f in files) < 200 else 0.15):
            _report_insert(ctx, files, rng.randint(0, len(files)))
    # the file name handed to the read grouper
    for t in range(30 if quick else 300):
        if enough():
            break
        alns = [[a[0], a[1], 0, 60, a[4]] for a in G.small_cluster_set(rng, n_max=30, p_special=0.0)]
        style, files = partition(rng, alns, rng.choice([2, 3, 4]), rng.choice(["uniform", "empty", "by_cluster"]))
        n += 1
        ctx.count("oracle_multi_groups")
        r = check_groups(files, t % 2 == 1)
        if r:
            ctx.fail(r[0], {"level": "multi_groups", "files": files, "mem": t % 2 == 1}, r[1])
    # real BAM files: the same property through pysam (fetch on real indices, multiple_iterators)
    d = vlib.scratch_dir("isoverif_c05m_o_")
    try:
        for t in range(4 if quick else 40):
            if enough():
                break
            alns = [a for a in G.small_cluster_set(rng, n_max=40, p_special=0.2) if not a[2] & 4]
            if t % 2 == 0:
                kind, big = G.split_cluster(rng, rng.choice(["long_ladder", "thin_long", "two_piles"]))
                alns = [a for a in big if not a[2] & 4][:1500]
            style, files = partition(rng, alns, rng.choice([2, 3, 4]))
            L = length_of(files)
            opened = []

            def pairs_of(fs, _d=os.path.join(d, "t%d" % t), _L=L):
                p = write_real_bams(_d, fs, _L)
                opened.extend(b for b, _ in p)
                return p
            n += 1
            ctx.count("oracle_multi_real_bam")
            r = check_files(files, L, pairs_of)
            for b in opened:
                b.close()
            if r:
                ctx.fail(r[0], {"level": "multi", "files": files, "real_bam": True}, r[1])
    finally:
        shutil.rmtree(d, ignore_errors=True)
    # the real pipeline on three BAM files, one of them without any record
    for spec in ([{"seed": 5, "kind": "two_piles"}] if quick else
                 [{"seed": s, "kind": k} for s, k in ((5, "two_piles"), (6, "long_ladder"), (7, "pile_bridge_tail"))]):
        if ctx.elapsed() > (150 if quick else 1000):
            ctx.notes.append("multi-file pipeline oracle skipped (time budget)")
            break
        n += 1
        ctx.count("oracle_multi_pipeline")
        r = check_pipeline_multi(spec)
        if r:
            ctx.fail(r[0], {"level": "multi_pipeline", "spec": spec}, r[1])
    ctx.extra["oracle_multi_cases"] = n


def check_pipeline_multi(spec):
    """real isoquant.py, one experiment = three BAM files (the middle one holds no record, the last one only reads of the
    second half of the locus), default and --high_memory: every read passing the filters is in corrected_reads.bed once,
    the log statistics equal the categories of the union (unaligned reads of all files added)"""
    import random
    import re
    import pipeline as P
    from gen import synth
    rng = random.Random(spec["seed"])
    _, alns = G.split_cluster(rng, spec["kind"])
    alns = [a for a in alns if not a[2] & 4]
    hi = max(a[1] for a in alns) + 3000
    mid = (min(a[0] for a in alns) + hi) // 2
    parts = [[], [], []]
    for a in alns:
        parts[2 if (a[0] > mid and a[4] % 2) else 0].append(a)
    unmapped = [2, 0, 1]
    expected = collections.Counter()
    optional = set()
    cats = collections.Counter()
    dss = []
    for i, part in enumerate(parts):
        ds = synth.Dataset(spec["seed"])
        ds.add_chrom("chrS", hi)
        for a in part:
            name = "r%d" % a[4]
            flag = (256 if a[2] & 1 else 0) | (2048 if a[2] & 2 else 0)
            ds.add_read(name, "chrS", a[0], "%dM" % (a[1] - a[0]), flag=flag, mapq=a[3])
            cats["secondary" if a[2] & 1 else "supplementary" if a[2] & 2 else "primary"] += 1
            if not a[2] & 3 and a[3] >= 5:
                expected[name] += 1
            elif a[2] & 1 and not a[2] & 2:
                optional.add(name)
        for u in range(unmapped[i]):
            ds.add_read("u%d_%d" % (i, u), None, 0, "", flag=4)
            cats["unaligned"] += 1
        dss.append(ds)
    for mode in ("default", "high_memory"):
        d = P.scratch("isoverif_c05m_p_")
        try:
            paths = None
            bams = []
            for i, ds in enumerate(dss):
                p = ds.write(os.path.join(d, "in%d" % i))
                if paths is None:
                    paths = p
                bams.append(p["bam"])
            out = os.path.join(d, "out")
            args = P.std_args(paths, genedb=False, extra=(["--high_memory"] if mode == "high_memory" else []))
            k = args.index("--bam")
            args = args[:k + 1] + bams + args[k + 2:]
            rc, log = P.run_isoquant(out, args)
            if rc != 0:
                return ("multi_pipeline_fails:" + mode, log[-600:])
            files = P.out_files(out)
            bedname = [f for f in files if f.endswith("corrected_reads.bed")][0]
            bed = collections.Counter(r[3] for r in P.read_bed(files[bedname]))
            missing = sorted((expected - bed).elements())
            if missing:
                return ("multi_read_missing_in_bed:" + mode, "%d of %d reads passing the filters are absent, e.g. %s"
                        % (len(missing), sum(expected.values()), missing[:3]))
            extra_ = sorted(x for x in (bed - expected).elements() if x not in optional)
            if extra_:
                return ("multi_read_repeated_or_unexpected_in_bed:" + mode, "%d extra name(s), e.g. %s" % (len(extra_), extra_[:3]))
            m = re.search(r"overall alignment statistics:?(.*?)(?:Finishing read assignment|No reads were assigned)", log, re.S)
            if not m:
                return ("multi_log_stats_missing:" + mode, "statistics block not found in the log")
            st = {k_: int(v) for k_, v in re.findall(r"(primary|secondary|supplementary|unaligned): (\d+)", m.group(1))}
            st = {k_: v for k_, v in st.items() if v}
            exp = {k_: v for k_, v in cats.items() if v}
            if st != exp:
                return ("multi_log_stats_mismatch:" + mode, "log %s vs union of the files %s" % (st, exp))
        finally:
            shutil.rmtree(d, ignore_errors=True)
    return None


def replay(ctx, failure):
    inp = failure["input"]
    if inp.get("level") == "multi":
        return check_files(inp["files"]) is not None
    if inp.get("level") == "multi_insert":
        return check_empty_insert(inp["files"], inp["j"]) is not None
    if inp.get("level") == "multi_groups":
        return check_groups(inp["files"], inp["mem"]) is not None
    if inp.get("level") == "multi_pipeline":
        return check_pipeline_multi(inp["spec"]) is not None
    return False
