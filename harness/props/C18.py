"""C18 — strand and canonical-site flags are pure functions of the reference sequence."""
import json
import os
import shutil
import random
import types

import vlib
from gen import canon as G

ID = "C18"
PROPS = ["IsoVerif/Props/C18.lean", "IsoVerif/Props/C18Strand.lean", "IsoVerif/Props/C18Window.lean",
         "IsoVerif/Props/C18Attr.lean", "IsoVerif/Props/C18Reflect.lean", "IsoVerif/Props/C18Downstream.lean"]
TARGETS = ["IsoVerif.Props.C18", "IsoVerif.Props.C18Strand", "IsoVerif.Props.C18Window", "IsoVerif.Props.C18Attr",
           "IsoVerif.Props.C18Reflect", "IsoVerif.Props.C18Downstream"]
GEN_DEPS = ["Constants", "GeneAttributes"]
LEVEL = "proof"
RULE = ("in-process: random reference sequences over {A,C,G,T,N} in mixed case with planted GT-AG/GC-AG/AT-AC/CT-AC/CT-GC/GT-AT "
        "and near-miss pairs, introns inside / across / outside the sequence, random query histories re-using introns on "
        "'+', '-' and '.'; exhaustive universe: all 2-base x 2-base site pairs over {A,C,G,T,N,a,c,g,t} on both strands; "
        "a case is non-trivial when the model returns a non-error value, model == implementation and at least one "
        "answer of the history is True / one strand is not '.'; distinct by (op, input). "
        "attr_lines: small reference annotations (real in-memory gffutils db) whose transcripts carry random attributes incl. "
        "stale / repeated / empty Canonical values, known + novel models through the real create_extended_storage or GeneInfo + "
        "set_reference_sequence (windows also ending beyond the contig), real add_canonical_info and GFFPrinter.dump; non-trivial "
        "when a reference transcript that carries Canonical is printed with a recomputed True/False; "
        "pipeline: --check_canonical runs on synthetic genomes with antisense gene pairs sharing introns (all "
        "--report_canonical levels), every Canonical flag and novel strand recomputed from the FASTA; re-runs whose --genedb is "
        "the extended annotation of the first run with one Canonical value falsified (exactly one Canonical attribute per "
        "transcript line, equal to the recomputed value); monitor of the interface hypothesis ReadOk on every record of "
        "read_assignments.tsv / corrected_reads.bed; "
        "sqanti_rows: gene regions through the real ReadAssignmentLoader (reference_flank 20 / 0 / 5) and direct windows, rows of "
        "the real SqantiTSVPrinter for spans on '+', '-', '.' at window and contig borders with A/T-rich flanks; non-trivial when "
        "a downstream window holds at least one base; "
        "pipeline option sets: --sqanti_output (prefix X1; all_canonical / perc_A / seq_A columns recomputed from the FASTA), "
        "--no_model_construction, no --check_canonical (strand clauses only), plain-gzip reference + 3 threads + --genedb_output, "
        "--read_assignments restart, the toy data of /repo, crafted novel loci (uninformative sites + tails, 1:1 ties, sites "
        "against tails)")
TRUSTED = ["Gen/Constants.lean CANONICAL_FWD/REV_SITES are re-extracted from src/common.py each run and pinned to the literal "
           "GT-AG/GC-AG/AT-AC (+ reverse complements) by theorem tables_literal",
           "Python str slicing s[a:b] (negative indices, clamping) = Model.pySlice (cross-checked each run on out-of-range introns)",
           "pyfaidx FastaRecord slicing = str slicing for in-range coordinates (cross-checked each run on a scratch FASTA)",
           "ASCII reference sequences: str.upper() = Char.toUpper per character",
           "Gen/GeneAttributes.lean (skip lists of GeneInfo.set_gene_attributes, key words Canonical / exons) is re-extracted from "
           "src/gene_info.py, src/assignment_io.py, src/transcript_printer.py each run, cross-checked against the BEHAVIOUR of the live "
           "set_gene_attributes on stub features (gencheck) and pinned by theorem skip_tables_literal",
           "gffutils: the attributes of a GTF line are an ordered dict key -> list of values in line order (a repeated key is merged "
           "under its first occurrence, `key \"\";` gives an empty list); exercised each run by the attr_lines correspondence through "
           "a real in-memory gffutils database created with the options of src/gtf2db.py"]
ASSUMPTIONS = ["reference sequences are ASCII (FASTA)", "the strand argument is one of '+', '-', '.'",
               "dict semantics: first insertion wins until overwritten; modelled as an association list with lookup of the newest entry",
               "reading rule (proposed for DESIGN §6 by builder c18x, replaces 'not constrained'): a record (read or transcript model) "
               "whose reported strand is '.' is Canonical=True iff its whole intron chain is canonical on '+' or on '-' - hence the same "
               "for a locus and its mirror image (C11); the downstream-A columns of such a SQANTI row are NA",
               "SQANTI columns: perc_A_downstream_TTS is compared as a number (|printed - count/n| < 1e-9; n = 20 gives two decimals)",
               "reading: a lower-case (soft-masked) base is the same nucleotide as its upper-case form",
               "reading: 'the Canonical attribute of a transcript model' = the transcript line carries exactly one Canonical attribute "
               "(a GTF reader may keep the first or the last value of a repeated key) and it is the recomputed flag",
               "reading (docs/C18.md; to be moved to DESIGN §6): for an annotated intron chain the novel strand is the annotated "
               "strand - the splice-site strand of an annotated single-strand intron is its annotated strand",
               "interface hypothesis ReadOk (Props/C18Window): exon lists of loaded reads are sorted, disjoint, well formed, start >= 1 - "
               "proved for the producers by C16 exons_sorted_wf / C14 corrected_always_valid and monitored on every pipeline run of the oracle"]

STRANDS = "+-."


# ------------------------------------------------------------------------------------------------
# independent definitions used by the oracle (never imported from /repo)

def pair_at(seq, intron, start=1):
    """the two dinucleotides at the ends of a 1-based closed intron inside `seq` (which starts at genome position
    `start`); None when the intron is not fully inside the sequence or shorter than 2 (statement does not apply)"""
    a, b = intron[0] - start, intron[1] - start
    if a < 0 or b + 1 > len(seq) or b - 1 < 0 or a + 2 > len(seq):
        return None
    return seq[a:a + 2].upper(), seq[b - 1:b + 1].upper()


def canonical_on(pair, strand):
    if strand == "+":
        return pair in G.FWD_PAIRS
    if strand == "-":
        return pair in G.REV_PAIRS
    return None


def site_strand(pair):
    f, r = pair in G.FWD_PAIRS, pair in G.REV_PAIRS
    return "+" if f and not r else ("-" if r and not f else ".")


def expected_flag(seq, introns, strand, start=1):
    """'Unspliced' | True | False | None (= not constrained by the statement)"""
    if not introns:
        return "Unspliced"
    if strand not in "+-":
        # unknown strand: canonical iff the whole chain is canonical on one of the two strands (the value must not depend on
        # the orientation of the locus: C11)
        a, b = expected_flag(seq, introns, "+", start), expected_flag(seq, introns, "-", start)
        return None if (a is None or b is None) else (a or b)
    res = True
    for it in introns:
        p = pair_at(seq, it, start)
        if p is None:
            return None
        res = res and canonical_on(p, strand)
    return res



_COMP = {"A": "T", "C": "G", "G": "C", "T": "A", "a": "t", "c": "g", "g": "c", "t": "a"}


def revcomp_any(seq):
    """reverse complement keeping the case (soft-masked bases stay soft-masked), N and anything else unchanged"""
    return "".join(_COMP.get(c, c) for c in reversed(seq))


def chrom_downstream(chrom, first, last, strand, n):
    """the n bases behind the 3' end of a transcript first..last (1-based closed) on `strand`, as they read on the forward
    strand of the FASTA, clipped at the ends of the contig; independent of /repo"""
    if strand == "+":
        return chrom[last:last + n]
    return chrom[max(0, first - 1 - n):max(0, first - 1)]


def downstream_count(seq, strand):
    return seq.upper().count("A" if strand == "+" else "T")

# ------------------------------------------------------------------------------------------------
# pipeline oracle: every Canonical flag / novel strand of a real run recomputed from the FASTA

PIPE_CONFIGS = [
    # (name, extra CLI args, with genedb)
    ("default", [], True),
    ("rc_all", ["--report_canonical", "all"], True),
    ("rc_only_stranded", ["--report_canonical", "only_stranded"], True),
    ("rc_only_canonical", ["--report_canonical", "only_canonical"], True),
    ("nogenedb", ["--report_canonical", "all"], False),
    ("threads2", ["--report_canonical", "only_stranded"], True),
    ("pacbio", [], True),
    ("high_memory", ["--high_memory", "--report_canonical", "all"], True),
    # option sets of audit-2 G-C18-2 (the prefix X1 is no substring of a file suffix: `-p S` breaks merge_files' rreplace)
    ("sqanti", ["--sqanti_output", "--report_canonical", "all"], True),
    ("no_model_construction", ["--no_model_construction"], True),
    ("no_check_canonical", ["--report_canonical", "all"], True),
    ("gzref_threads3_genedb_output", ["--report_canonical", "only_stranded"], True),
    ("restart", [], True),
    ("sqanti_pacbio", ["--sqanti_output"], True),
]
# per-config options of pipeline_case
PIPE_OPTS = {
    "sqanti": {"prefix": "X1", "sqanti": True},
    "sqanti_pacbio": {"prefix": "X1", "sqanti": True, "data_type": "pacbio_ccs"},
    "no_model_construction": {"prefix": "X1"},
    "no_check_canonical": {"prefix": "X1", "check_canonical": False},
    "gzref_threads3_genedb_output": {"prefix": "X1", "gzref": True, "threads": 3, "genedb_output": True},
    "restart": {"prefix": "X1", "restart": True},
    "threads2": {"threads": 2},
    "pacbio": {"data_type": "pacbio_ccs"},
}
SQANTI_N = 20          # args.upstream_region_len (isoquant.py; no CLI option)


def _parse_exons(txt):
    return [tuple(int(x) for x in e.split("-")) for e in txt.split(",") if e]


def _introns(exons):
    ex = sorted(exons)
    return [(ex[i][1] + 1, ex[i + 1][0] - 1) for i in range(len(ex) - 1) if ex[i][1] + 1 < ex[i + 1][0]]


def _flag_of(txt):
    return {"True": True, "False": False, "Unspliced": "Unspliced"}.get(txt, txt)


def parse_gtf_multi(path):
    """-> list of dict(chr, feature, start, end, strand, attrs{key: [every value of the key, in line order]}).
    `pipeline.parse_gtf` keeps ONE value per key (as most GTF readers do); the clause "exactly one Canonical attribute per
    transcript line" needs all of them."""
    res = []
    with open(path) as f:
        for l in f:
            if l.startswith("#") or not l.strip():
                continue
            p = l.rstrip("\n").split("\t")
            attrs = {}
            for kv in p[8].strip().split(";"):
                kv = kv.strip()
                if not kv:
                    continue
                k, _, v = kv.partition(" ")
                attrs.setdefault(k, []).append(v.strip('"'))
            res.append({"chr": p[0], "feature": p[2], "start": int(p[3]), "end": int(p[4]), "strand": p[6], "attrs": attrs})
    return res


def parse_gtf_lines(path):
    """-> list of dict(feature, pairs = [(key, value), ...] in line order)"""
    res = []
    with open(path) as f:
        for l in f:
            if l.startswith("#") or not l.strip():
                continue
            p = l.rstrip("\n").split("\t")
            pairs = []
            for kv in p[8].strip().split(";"):
                kv = kv.strip()
                if kv:
                    k, _, v = kv.partition(" ")
                    pairs.append((k, v.strip('"')))
            res.append({"feature": p[2], "pairs": pairs})
    return res


def _a1(attrs, key):
    """first value of an attribute (None when absent)"""
    v = attrs.get(key)
    return v[0] if v else None


def _gtf_transcripts(path):
    """transcript id -> {chr, strand, attrs (multi-valued), exons, exon_canonical: the Canonical values seen on its exon lines}"""
    tx = {}
    for r in parse_gtf_multi(path):
        tid = _a1(r["attrs"], "transcript_id")
        if r["feature"] == "transcript":
            tx.setdefault(tid, {"exons": [], "exon_canonical": []}).update(chr=r["chr"], strand=r["strand"], attrs=r["attrs"])
        elif r["feature"] == "exon":
            t = tx.setdefault(tid, {"exons": [], "exon_canonical": []})
            t["exons"].append((r["start"], r["end"]))
            t["exon_canonical"] += r["attrs"].get("Canonical", [])
    return tx


def read_ok_violation(exons, chr_len):
    """run-time monitor of the interface hypothesis `ReadOk` of Props/C18Window.lean for one exon list: sorted and pairwise
    disjoint (`SD`: every block ends strictly before the next one starts), well formed (`WFl`: start <= end), inside the
    chromosome (1 <= start, end <= length).  -> None or a short description of the broken clause"""
    for a, b in exons:
        if a > b:
            return "WFl: block %d-%d" % (a, b)
        if a < 1 or b > chr_len:
            return "inside the chromosome: block %d-%d, length %d" % (a, b, chr_len)
    for i in range(len(exons) - 1):
        if not exons[i][1] < exons[i + 1][0]:
            return "SD: blocks %d-%d, %d-%d" % (exons[i] + exons[i + 1])
    return None


def _bed_exons(row):
    """BED12 record of corrected_reads.bed -> 1-based closed exon blocks, in file order"""
    st = int(row[1])
    sizes = [int(x) for x in row[10].split(",") if x]
    starts = [int(x) for x in row[11].split(",") if x]
    return [(st + b + 1, st + b + sz) for b, sz in zip(starts, sizes)]


def check_sqanti_table(ds, path, models, fails, stats):
    """the reference-derived columns of <prefix>.novel_vs_known.SQANTI-like.tsv against the FASTA: all_canonical (16),
    perc_A_downstream_TTS (37), seq_A_downstream_TTS (38); `models` = transcript id -> model of transcript_models.gtf"""
    with open(path) as f:
        for l in f:
            p = l.rstrip("\n").split("\t")
            if len(p) < 39 or p[0] in ("#isoform", "isoform"):
                continue
            stats["sqanti_rows"] = stats.get("sqanti_rows", 0) + 1
            t = models.get(p[0])
            if t is None or "attrs" not in t:
                fails.append(("sqanti_row_without_model", {"isoform": p[0]}))
                continue
            seq = ds.chroms[t["chr"]]
            ex = sorted(t["exons"])
            introns = _introns(ex)
            strand = p[2]
            if strand != t["strand"]:
                fails.append(("sqanti_strand", {"isoform": p[0], "row": strand, "gtf": t["strand"]}))
                continue
            exp = expected_flag(seq, introns, strand)
            exp = True if exp == "Unspliced" else exp      # "TRUE if all junctions have canonical splice sites": no junction
            if exp is not None:
                stats["sqanti_all_canonical_" + str(exp).lower()] = stats.get("sqanti_all_canonical_" + str(exp).lower(), 0) + 1
                if p[16] != str(exp):
                    fails.append(("sqanti_all_canonical", {"isoform": p[0], "chr": t["chr"], "strand": strand, "introns": introns,
                                                           "column": p[16], "expected": str(exp)}))
            if strand in "+-":
                w = chrom_downstream(seq, ex[0][0], ex[-1][1], strand, SQANTI_N)
                expc = downstream_count(w, strand) / float(SQANTI_N)
                stats["sqanti_windows_" + ("plus" if strand == "+" else "minus")] = stats.get("sqanti_windows_" + ("plus" if strand == "+" else "minus"), 0) + 1
                if len(w) < SQANTI_N:
                    stats["sqanti_windows_clipped_at_contig"] = stats.get("sqanti_windows_clipped_at_contig", 0) + 1
                if expc > 0:
                    stats["sqanti_windows_with_tail_bases"] = stats.get("sqanti_windows_with_tail_bases", 0) + 1
                try:
                    okp = abs(float(p[37]) - expc) < 1e-9
                except ValueError:
                    okp = False
                if p[38] != w or not okp:
                    fails.append(("sqanti_downstream_window", {"isoform": p[0], "chr": t["chr"], "strand": strand, "first": ex[0][0],
                                                               "last": ex[-1][1], "perc_A_downstream_TTS": p[37],
                                                               "seq_A_downstream_TTS": p[38], "expected_seq": w,
                                                               "expected_perc": "%.2f" % expc, "chr_len": len(seq)}))
            else:
                stats["sqanti_rows_dot"] = stats.get("sqanti_rows_dot", 0) + 1
                if (p[37], p[38]) != ("NA", "NA"):
                    fails.append(("sqanti_downstream_unknown_strand", {"isoform": p[0], "chr": t["chr"], "strand": strand,
                                                                       "perc_A_downstream_TTS": p[37], "seq_A_downstream_TTS": p[38]}))


def check_pipeline_outputs(ds, outdir, prefix, with_genedb, rerun=False, check_canonical=True, sqanti=False, strand_clauses=True):
    """-> (list of (kind, detail-dict), stats).  `rerun`: the reference of this run was the extended annotation of an earlier
    --check_canonical run (the novel-strand clauses, which need the annotation of the data set, are not evaluated then)"""
    import pipeline
    fails = []
    stats = {"read_flags": 0, "read_flags_true": 0, "read_flags_false": 0, "read_flags_unspliced": 0, "read_dot": 0,
             "model_flags": 0, "model_flags_true": 0, "model_flags_false": 0, "novel_models": 0, "novel_strand_checked": 0,
             "antisense_pairs_flag_differs": 0, "readok_exon_lists": 0, "readok_corrected_lists": 0,
             "readok_spliced": 0}
    files = pipeline.out_files(outdir, prefix)
    ra = files.get("%s.read_assignments.tsv" % prefix)
    if not ra and with_genedb:
        return [("pipeline_output_missing", {"file": "read_assignments.tsv"})], stats
    seen_per_intron = {}
    # monitor of `ReadOk` (hypothesis of loaded_flag_is_chromosome_flag): the corrected exon list of every record of
    # corrected_reads.bed and (below) the exon list of every record of read_assignments.tsv, exactly as printed
    bed = files.get("%s.corrected_reads.bed" % prefix)
    for row in (pipeline.read_bed(bed) if bed else []):
        if len(row) < 12 or row[0] not in ds.chroms:
            fails.append(("interface_ReadOk_violated", {"file": "corrected_reads.bed", "record": row[:12], "clause": "BED12 record"}))
            continue
        cex = _bed_exons(row)
        stats["readok_corrected_lists"] += 1
        stats["readok_spliced"] += 1 if len(cex) > 1 else 0
        bad = read_ok_violation(cex, len(ds.chroms[row[0]]))
        if bad or not cex:
            fails.append(("interface_ReadOk_violated", {"file": "corrected_reads.bed", "read": row[3], "chr": row[0],
                                                        "exons": cex, "clause": bad or "empty exon list"}))
    for row in (pipeline.read_assignments(ra) if ra else []):     # no read assignments without an annotation
        if row.get("exons") not in (None, "", "."):
            stats["readok_exon_lists"] += 1
            bad = read_ok_violation(_parse_exons(row["exons"]), len(ds.chroms[row["chr"]]))
            if bad:
                fails.append(("interface_ReadOk_violated", {"file": "read_assignments.tsv", "read": row["read_id"],
                                                            "chr": row["chr"], "exons": row["exons"], "clause": bad}))
        info = row.get("additional_info", "")
        flag = None
        for kv in info.split():
            if kv.startswith("Canonical="):
                flag = _flag_of(kv[len("Canonical="):].rstrip(";"))
        if flag is None:
            # records without an isoform match (intergenic) carry no Canonical flag: nothing to check; a MATCHED record of a
            # --check_canonical run must carry one (audit-2 G-C18-1)
            stats["read_no_flag"] = stats.get("read_no_flag", 0) + 1
            if check_canonical and row.get("isoform_id") not in (None, "", ".", "*"):
                fails.append(("read_flag_missing", {"read": row["read_id"], "chr": row["chr"], "isoform": row["isoform_id"],
                                                    "additional_info": info}))
            continue
        if row.get("isoform_id") not in (None, "", ".", "*"):
            stats["matched_reads_with_flag"] = stats.get("matched_reads_with_flag", 0) + 1
        exons = _parse_exons(row["exons"])
        introns = _introns(exons)
        exp = expected_flag(ds.chroms[row["chr"]], introns, row["strand"])
        stats["read_flags"] += 1
        if introns and exons[0][0] <= 30:
            stats["spliced_read_flags_at_contig_start"] = stats.get("spliced_read_flags_at_contig_start", 0) + 1
        if introns and exons[-1][1] >= len(ds.chroms[row["chr"]]) - 5:
            stats["spliced_read_flags_at_contig_end"] = stats.get("spliced_read_flags_at_contig_end", 0) + 1
        if exp is None:
            stats["read_dot"] += 1
            continue
        if row["strand"] not in "+-" and introns:
            stats["spliced_read_flags_unknown_strand"] = stats.get("spliced_read_flags_unknown_strand", 0) + 1
        stats["read_flags_" + {True: "true", False: "false", "Unspliced": "unspliced"}[exp]] += 1
        if flag != exp:
            fails.append(("read_canonical_flag", {"read": row["read_id"], "chr": row["chr"], "strand": row["strand"],
                                                  "introns": introns, "flag": flag, "expected": exp,
                                                  "pairs": [pair_at(ds.chroms[row["chr"]], it) for it in introns]}))
        for it in introns:
            seen_per_intron.setdefault((row["chr"], it), set()).add(row["strand"])
    stats["introns_reported_on_both_strands"] = sum(1 for v in seen_per_intron.values() if {"+", "-"} <= v)
    known_introns = {}
    for g in ds.genes if with_genedb else []:
        for _, ex in g["transcripts"]:
            for it in _introns(ex):
                known_introns.setdefault((g["chr"], it), set()).add(g["strand"])
    gene_strand = {g["gene_id"]: g["strand"] for g in ds.genes} if with_genedb else {}
    read_tail = {}
    for r in ds.reads:
        cg = r["cigar"]
        read_tail[r["name"]] = ("-" if cg.split("S")[0].isdigit() and "S" in cg[:5] else "") + ("+" if cg.endswith("S") else "")
    model_reads = {}
    mr = files.get("%s.transcript_model_reads.tsv" % prefix)
    if mr:
        for l in pipeline.read_lines(mr):
            p = l.split("\t")
            if len(p) >= 2 and p[1] != "*":
                model_reads.setdefault(p[1], []).append(p[0])
    for fn, novel_check in (("%s.transcript_models.gtf" % prefix, True), ("%s.extended_annotation.gtf" % prefix, False)):
        path = files.get(fn)
        if not path:
            continue
        by_exons = {}
        for tid, t in _gtf_transcripts(path).items():
            if "attrs" not in t:
                continue
            flags = t["attrs"].get("Canonical", [])
            introns = _introns(t["exons"])
            seq = ds.chroms[t["chr"]]
            exp = expected_flag(seq, introns, t["strand"])
            if not flags:
                if check_canonical:
                    fails.append(("model_flag_missing", {"file": fn, "transcript": tid}))
                else:
                    stats["models_without_check_canonical"] = stats.get("models_without_check_canonical", 0) + 1
            else:
                stats["model_flags"] += 1
                if introns and min(e[0] for e in t["exons"]) <= 25:
                    stats["spliced_model_flags_at_contig_start"] = stats.get("spliced_model_flags_at_contig_start", 0) + 1
                if introns and max(e[1] for e in t["exons"]) >= len(seq) - 3:
                    stats["spliced_model_flags_at_contig_end"] = stats.get("spliced_model_flags_at_contig_end", 0) + 1
                # "exactly one Canonical attribute per transcript line" (a reader that keeps the last value of a repeated key
                # must see the same flag as one that keeps the first)
                if len(flags) != 1:
                    fails.append(("canonical_attr_not_unique", {"file": fn, "transcript": tid, "chr": t["chr"], "strand": t["strand"],
                                                                "values": flags, "expected": exp, "introns": introns,
                                                                "contradicting": len(set(flags)) > 1}))
                if exp is not None:
                    if exp in (True, False):
                        stats["model_flags_" + ("true" if exp else "false")] += 1
                    # ... "and it equals the recomputed value": every value on the line
                    if any(_flag_of(v) != exp for v in flags):
                        fails.append(("model_canonical_flag", {"file": fn, "transcript": tid, "chr": t["chr"],
                                                               "strand": t["strand"], "introns": introns,
                                                               "flag": [_flag_of(v) for v in flags] if len(flags) > 1 else _flag_of(flags[0]),
                                                               "expected": exp,
                                                               "pairs": [pair_at(seq, it) for it in introns]}))
                    by_exons.setdefault((t["chr"], tuple(introns)), {})[t["strand"]] = exp
            # exon lines repeat the reference attributes of their transcript: a Canonical value there must be the same flag
            if t["exon_canonical"]:
                stats["exon_lines_with_canonical"] = stats.get("exon_lines_with_canonical", 0) + len(t["exon_canonical"])
                if exp is not None and any(_flag_of(v) != exp for v in t["exon_canonical"]):
                    fails.append(("exon_line_canonical_flag", {"file": fn, "transcript": tid, "chr": t["chr"], "strand": t["strand"],
                                                               "values": sorted(set(t["exon_canonical"])), "expected": exp}))
            if rerun:
                stats["rerun_model_lines"] = stats.get("rerun_model_lines", 0) + 1
                continue
            if not strand_clauses:
                continue
            is_novel = tid.endswith(".nic") or tid.endswith(".nnic")
            if novel_check and is_novel and introns:
                stats["novel_models"] += 1
                pairs = [pair_at(seq, it) for it in introns]
                if any(p is None for p in pairs):
                    continue
                sst = [site_strand(p) for p in pairs]
                ann = [known_introns.get((t["chr"], it), set()) for it in introns]
                reads = model_reads.get(tid, [])
                tails = "".join(read_tail.get(r, "") for r in reads)
                gs = gene_strand.get(_a1(t["attrs"], "gene_id"))
                s = t["strand"]
                ev = {"+": sst.count("+") + sum(1 for a in ann if "+" in a) + tails.count("+") + (1 if gs == "+" else 0),
                      "-": sst.count("-") + sum(1 for a in ann if "-" in a) + tails.count("-") + (1 if gs == "-" else 0)}
                stats["novel_strand_checked"] += 1
                detail = {"file": fn, "transcript": tid, "chr": t["chr"], "strand": s, "introns": introns, "pairs": pairs,
                          "site_strands": sst, "annotated": [sorted(a) for a in ann], "read_tails": tails, "gene_strand": gs}
                if s in "+-":
                    o = "-" if s == "+" else "+"
                    if ev[s] == 0 and ev[o] > 0:
                        fails.append(("novel_strand_contradicts_all_evidence", detail))
                    elif not any(ann) and sst.count(s) < sst.count(o):
                        fails.append(("novel_strand_disagrees_with_sites", detail))
                elif not any(ann):
                    # '.' although the splice sites are informative
                    if sst.count("+") != sst.count("-"):
                        fails.append(("novel_strand_disagrees_with_sites", detail))
        stats["antisense_pairs_flag_differs"] += sum(1 for v in by_exons.values() if len(v) == 2 and v.get("+") != v.get("-"))
    if sqanti:
        sq = files.get("%s.novel_vs_known.SQANTI-like.tsv" % prefix)
        tm = files.get("%s.transcript_models.gtf" % prefix)
        if not sq or not tm:
            fails.append(("pipeline_output_missing", {"file": "novel_vs_known.SQANTI-like.tsv" if not sq else "transcript_models.gtf"}))
        else:
            check_sqanti_table(ds, sq, _gtf_transcripts(tm), fails, stats)
    return fails, stats


def falsify_reference(src, dst):
    """copy an extended_annotation.gtf written with --check_canonical, inverting the Canonical value of the first spliced
    transcript line that has a definite one (stands for an annotation written on another assembly / by an older version);
    -> (transcript id, value written) or None"""
    import re
    flipped = None
    with open(src) as f, open(dst, "w") as o:
        for l in f:
            if flipped is None and "\ttranscript\t" in l:
                m = re.search(r'Canonical "(True|False)"', l)
                if m:
                    new = "False" if m.group(1) == "True" else "True"
                    flipped = (re.search(r'transcript_id "([^"]+)"', l).group(1), new)
                    l = l.replace(m.group(0), 'Canonical "%s"' % new, 1)
            o.write(l)
    return flipped


def toy_dataset(toy):
    """the toy data of /repo as a dataset-like object: chromosomes of the FASTA, genes / transcripts of the GTF"""
    import gzip
    import pipeline
    chroms, name = {}, None
    with gzip.open(toy["ref"], "rt") as f:
        for l in f:
            if l.startswith(">"):
                name = l[1:].split()[0]
                chroms[name] = []
            else:
                chroms[name].append(l.strip())
    chroms = {k: "".join(v) for k, v in chroms.items()}
    genes = {}
    for r in pipeline.parse_gtf(toy["gtf"]):
        if r["feature"] == "exon":
            g = genes.setdefault(r["attrs"]["gene_id"], {"chr": r["chr"], "gene_id": r["attrs"]["gene_id"], "strand": r["strand"], "tx": {}})
            g["tx"].setdefault(r["attrs"]["transcript_id"], []).append((r["start"], r["end"]))
    gl = [dict(g, transcripts=[(t, sorted(ex)) for t, ex in g["tx"].items()]) for g in genes.values()]
    return types.SimpleNamespace(chroms=chroms, genes=gl, reads=[])


def check_strand_loci(ds, truth, outdir, prefix, fails, stats):
    """crafted novel loci (audit-2 G-C18-3): every novel model reported inside a locus must carry the strand the statement
    demands there: the majority of the splice sites; on a tie the tails; (sites against tails: the sites)"""
    import pipeline
    tm = pipeline.out_files(outdir, prefix).get("%s.transcript_models.gtf" % prefix)
    if not tm:
        return
    tx = _gtf_transcripts(tm)
    for loc in truth["strand_loci"]:
        lo, hi = loc["exons"][0][0], loc["exons"][-1][1]
        hits = [(tid, t) for tid, t in tx.items() if "attrs" in t and t["chr"] == loc["chr"] and t["exons"] and
                min(e[0] for e in t["exons"]) >= lo - 50 and max(e[1] for e in t["exons"]) <= hi + 50 and len(t["exons"]) > 1]
        stats["strand_loci"] = stats.get("strand_loci", 0) + 1
        stats["strand_loci_reported"] = stats.get("strand_loci_reported", 0) + (1 if hits else 0)
        stats["strand_loci:%s:%s" % (loc["kind"], "reported" if hits else "not_reported")] = \
            stats.get("strand_loci:%s:%s" % (loc["kind"], "reported" if hits else "not_reported"), 0) + 1
        for tid, t in hits:
            if loc["expected"] is not None and t["strand"] != loc["expected"]:
                kind = "novel_strand_disagrees_with_sites" if loc["by"] == "sites" else "novel_strand_disagrees_with_tail"
                fails.append((kind, {"transcript": tid, "chr": t["chr"], "strand": t["strand"], "expected": loc["expected"],
                                     "locus": loc["kind"], "site_pairs": loc["pairs"], "polya": loc["polya"], "polyt": loc["polyt"]}))


def pipeline_case(inp):
    """run the real pipeline on the dataset described by `inp`; -> (failures, stats).
    With `inp["rerun"]`: a second run whose --genedb is the extended annotation of the first (--check_canonical) run with one
    Canonical value falsified; the failures / stats of the second run are appended.
    `dataset`: "antisense" (default), "strand" (crafted novel loci), "toy" (the toy data of /repo).
    Options: prefix, check_canonical (default True), sqanti, gzref (plain-gzip reference), genedb_output, restart (a second run
    from the saved read assignments of the first, --read_assignments; its outputs are the ones checked)"""
    import gzip
    import pipeline
    d = pipeline.scratch("isoverif_C18_")
    try:
        kind = inp.get("dataset", "antisense")
        truth = {}
        if kind == "toy":
            paths = pipeline.copy_toy(os.path.join(d, "data"))
            ds = toy_dataset(paths)
        else:
            if kind == "strand":
                ds, truth = G.strand_evidence_dataset(inp["seed"])
            else:
                ds, _ = G.antisense_dataset(inp["seed"], n_chroms=inp.get("n_chroms", 2), loci_per_chrom=inp.get("loci", 4),
                                            reads_per_tx=inp.get("reads_per_tx", 5), lower_frac=inp.get("lower_frac", 0.0))
            paths = ds.write(os.path.join(d, "data"))
        if inp.get("gzref"):
            gz = os.path.join(d, "data", "refgz.fa.gz")          # plain gzip, not BGZF: IsoQuant unpacks it into the output folder
            with open(paths["ref"], "rb") as f, gzip.open(gz, "wb") as g:
                g.write(f.read())
            paths = dict(paths, ref=gz)
        out = os.path.join(d, "out")
        prefix = inp.get("prefix", "S")
        check = inp.get("check_canonical", True)
        genedb = inp.get("genedb", True)
        extra = (["--check_canonical"] if check else []) + list(inp.get("args", []))
        if inp.get("genedb_output"):
            extra += ["--genedb_output", os.path.join(d, "dbout")]
        env = {"PYTHONHASHSEED": inp.get("hashseed", 0)}
        kw = dict(prefix=prefix, threads=inp.get("threads", 1), data_type=inp.get("data_type", "nanopore"))
        ckw = dict(check_canonical=check, sqanti=bool(inp.get("sqanti")), strand_clauses=kind != "toy")
        first_extra = extra + (["--keep_tmp"] if inp.get("restart") else [])
        rc, log = pipeline.run_isoquant(out, pipeline.std_args(paths, genedb=genedb, extra=first_extra, **kw), env=env)
        if rc != 0:
            return [("pipeline_crashed", {"rc": rc, "log": log[-1500:]})], {}
        if inp.get("restart"):
            aux = os.path.join(out, prefix, "aux")
            saves = sorted(set(f.split(".save")[0] + ".save" for f in (os.listdir(aux) if os.path.isdir(aux) else []) if ".save" in f))
            if not saves:
                return [("pipeline_output_missing", {"file": "aux/<prefix>.save*"})], {}
            first = {fn: pipeline.strip_cmdline(open(pth).read()) for fn, pth in pipeline.out_files(out, prefix).items()
                     if fn.endswith(("read_assignments.tsv", "transcript_models.gtf", "extended_annotation.gtf"))}
            out = os.path.join(d, "out_restart")
            rc, log = pipeline.run_isoquant(out, pipeline.std_args(paths, genedb=genedb, extra=extra + ["--read_assignments", os.path.join(aux, saves[0])], **kw), env=env)
            if rc != 0:
                return [("pipeline_crashed", {"rc": rc, "run": "restart from saved read assignments", "log": log[-1500:]})], {}
        fails, stats = check_pipeline_outputs(ds, out, prefix, genedb, **ckw)
        if inp.get("restart"):
            stats["restart_runs"] = 1
            for fn, txt in first.items():
                pth = pipeline.out_files(out, prefix).get(fn)
                if pth and pipeline.strip_cmdline(open(pth).read()) == txt:
                    stats["restart_files_identical"] = stats.get("restart_files_identical", 0) + 1
        if kind == "strand":
            check_strand_loci(ds, truth, out, prefix, fails, stats)
        if inp.get("rerun"):
            ext = pipeline.out_files(out, prefix).get("%s.extended_annotation.gtf" % prefix)
            if not ext:
                return fails + [("pipeline_output_missing", {"file": "extended_annotation.gtf"})], stats
            ref2 = os.path.join(d, "data", "ref2.gtf")
            flipped = falsify_reference(ext, ref2)
            out2 = os.path.join(d, "out2")
            rc, log = pipeline.run_isoquant(out2, pipeline.std_args(dict(paths, gtf=ref2), genedb=True, extra=extra, **kw), env=env)
            if rc != 0:
                return fails + [("pipeline_crashed", {"rc": rc, "run": "second", "log": log[-1500:]})], stats
            f2, s2 = check_pipeline_outputs(ds, out2, prefix, True, rerun=True)
            for k_, d_ in f2:
                d_.update(run="second (reference = extended annotation of the first run)", falsified=flipped)
            fails += f2
            stats = dict(stats)
            stats["rerun_runs"] = 1
            stats["rerun_falsified"] = 1 if flipped else 0
            for k_, v_ in s2.items():
                if k_.startswith(("model_flags", "rerun_", "exon_lines", "readok_")):
                    stats["rerun:" + k_ if not k_.startswith("rerun_") else k_] = v_
        return fails, stats
    finally:
        shutil.rmtree(d, ignore_errors=True)


# ------------------------------------------------------------------------------------------------
# adapters calling the real code in-process

def _impl():
    vlib.repo_on_path()
    import src.common as C
    import src.gene_info as GI
    import src.assignment_io as AIO
    import src.alignment_processor as AP
    import src.graph_based_model_construction as GB
    import src.isoform_assignment as IA
    import src.polya_finder as PF
    import src.intron_graph as IG
    return types.SimpleNamespace(C=C, GI=GI, AIO=AIO, AP=AP, GB=GB, IA=IA, PF=PF, IG=IG)


def tl(l):
    return [tuple(x) for x in l]


def dedupe_first(entries, keylen):
    """association list (newest first) -> dict content, sorted"""
    seen, out = set(), []
    for e in entries:
        k = json.dumps(e[:keylen])
        if k not in seen:
            seen.add(k)
            out.append(e)
    return sorted(out, key=lambda e: json.dumps(e[:keylen]))


_RA_TEMPLATE = {}


def _mk_read_assignment(i, exons, cexons):
    """a real ReadAssignment (built the way the C15 harness builds them) with the given raw / corrected exon lists"""
    from props import C15
    from gen import serial as GS
    if not _RA_TEMPLATE:
        E = C15.enums()
        _RA_TEMPLATE.update(GS.rand_ra(random.Random(5), E))
        _RA_TEMPLATE.update(matches=[], info=[], attrs=[], eprof=[], iprof=[], polya=[-1, -1, -1, -1], region=[1, 2], mapq=60,
                            group=GS.cps("NA"), chr=GS.cps("chr1"), strand=GS.cps("+"), mstrand=GS.cps("+"),
                            atype=E["ReadAssignmentType"][0], gtype=E["ReadAssignmentType"][0])
    j = dict(_RA_TEMPLATE, id=i + 1, read_id=GS.cps("r%d" % i), exons=[list(e) for e in exons], cexons=[list(e) for e in cexons])
    j["cintrons"] = [[cexons[k][1] + 1, cexons[k + 1][0] - 1] for k in range(len(cexons) - 1)]
    return C15.mk_ra(j)


def _gene_ref_via_loader(M, kw):
    """the `gene_info` exactly as the model-construction pass gets it: a GENE_INFO record written with
    GeneInfo.serialize, read back by the real NormalTmpFileAssignmentLoader.get_object (which loads the reference window).
    With `kept` (the read assignments saved under that gene info): the records are written by the real
    TmpFileAssignmentPrinter and the gene info is the one the real ReadAssignmentLoader.get_next hands on
    (which widens the window over the reads it keeps)"""
    import tempfile
    import src.serialization as S
    d = tempfile.mkdtemp(prefix="isoverif_C18ld_")
    try:
        path = os.path.join(d, "dump")
        if "kept" in kw:
            import src.dataset_processor as DP
            pr = M.AIO.TmpFileAssignmentPrinter(path, types.SimpleNamespace())
            pr.add_gene_info(M.GI.GeneInfo.from_region("chr1", kw["start"], kw["end"]))
            for i, r in enumerate(kw["kept"]):
                pr.add_read_info(_mk_read_assignment(i, r["exons"], r["cexons"]))
            del pr                                      # writes the terminator and closes the dump
            lg = DP.logger
            prev = lg.level
            lg.setLevel(100)
            try:
                if kw.get("flank"):
                    # reference_flank: what construct_models_in_parallel passes with --sqanti_output (upstream_region_len);
                    # a tree whose loader does not know the parameter loads the window of the reads only
                    try:
                        ld = DP.ReadAssignmentLoader(path, None, kw["chrom"], None, reference_flank=kw["flank"])
                    except TypeError:
                        ld = DP.ReadAssignmentLoader(path, None, kw["chrom"], None)
                else:
                    ld = DP.ReadAssignmentLoader(path, None, kw["chrom"], None)
                gi, storage = ld.get_next()
            finally:
                lg.setLevel(prev)
            assert len(storage) == len(kw["kept"])
            return gi
        with open(path, "wb") as f:
            S.write_short_int(M.AIO.TmpFileAssignmentPrinter.GENE_INFO, f)
            M.GI.GeneInfo.from_region("chr1", kw["start"], kw["end"]).serialize(f)
            S.write_short_int(S.SHORT_TERMINATION_INT, f)
        ld = M.AIO.NormalTmpFileAssignmentLoader(path, None, kw["chrom"])
        gi = ld.get_object()
        ld.loader.close()
        ld.loader = open(os.devnull, "rb")      # __del__ closes it
        return gi
    finally:
        shutil.rmtree(d, ignore_errors=True)


def _gene_ref(M, kw):
    if kw.get("via") == "loader":
        return _gene_ref_via_loader(M, kw)
    if "chrom" in kw:
        gi = M.GI.GeneInfo.from_region("chr1", kw["start"], kw["end"])
        gi.set_reference_sequence(kw["start"], kw["end"], kw["chrom"])
        return gi
    return types.SimpleNamespace(reference_region=kw["seq"], all_read_region_start=kw["start"], canonical_sites={})


def _memo(gi):
    out = []
    for k, v in gi.canonical_sites.items():
        try:
            out.append([list(k[0]), k[1], v])
        except Exception:           # a key of another shape: shown as it is (and so a disagreement with the model)
            out.append([repr(k), None, v])
    return sorted(out, key=lambda e: json.dumps(e[:2]))


def impl_canon_history(kw):
    M = _impl()
    io = M.AIO.IOSupport(types.SimpleNamespace())
    gi = _gene_ref(M, kw)
    out = [io.check_sites_are_canonical(tl(q[0]), gi, q[1]) for q in kw["queries"]]
    return {"out": out, "memo": _memo(gi)}


def impl_model_info(kw):
    M = _impl()
    io = M.AIO.IOSupport(types.SimpleNamespace())
    gi = _gene_ref(M, kw)
    models = []
    for i, m in enumerate(kw["models"]):
        t = M.GI.TranscriptModel("chr1", m["strand"], "t%d" % i, "g", tl(m["exons"]), M.GI.TranscriptModelType.novel_not_in_catalog)
        if m["attr"] is not None:
            t.add_additional_attribute("Canonical", m["attr"])
        models.append(t)
    io.add_canonical_info(models, gi)
    return {"out": [t.additional_info.get("Canonical") for t in models], "memo": _memo(gi)}


def impl_read_fields(kw):
    """the Canonical= field as printed by the real BasicTSVAssignmentPrinter.add_read_info"""
    import io as _io
    M = _impl()
    gi = _gene_ref(M, kw)
    gi.all_isoforms_introns = {"T": []}
    pr = M.AIO.BasicTSVAssignmentPrinter.__new__(M.AIO.BasicTSVAssignmentPrinter)
    pr.params = types.SimpleNamespace(cage=None, check_canonical=kw["check"])
    pr.io_support = M.AIO.IOSupport(pr.params)
    pr.assignment_checker = M.AIO.PrintAllFunctor()
    pr.output_file = _io.StringIO()
    pr.gzipped = False
    out = []
    for i, (exons, strand) in enumerate(kw["reads"]):
        m = types.SimpleNamespace(assigned_transcript="T", assigned_gene="G", match_subclassifications=[],
                                  match_classification=M.IA.MatchClassification.full_splice_match)
        ra = types.SimpleNamespace(read_id="r%d" % i, chr_id="chr1", strand=strand, exons=tl(exons), gene_info=gi,
                                   assignment_type=M.IA.ReadAssignmentType.unique, isoform_matches=[m],
                                   gene_assignment_type=M.IA.ReadAssignmentType.unique, polyA_found=False,
                                   additional_attributes={}, cage_found=False)
        pos = pr.output_file.tell()
        pr.add_read_info(ra)
        line = pr.output_file.getvalue()[pos:]
        f = None
        for kv in line.rstrip("\n").split("\t")[-1].split():
            if kv.startswith("Canonical="):
                f = kv[len("Canonical="):].rstrip(";")
        out.append(f)
    res = {"out": out, "memo": _memo(gi)}
    pr.output_file = _io.StringIO()      # __del__ closes it
    return res


def impl_sqanti_rows(kw):
    """the reference-derived columns (all_canonical, seq_A_downstream_TTS, perc_A_downstream_TTS) of the rows the real
    SqantiTSVPrinter.add_read_info writes for transcript-vs-reference assignments of one gene region (intergenic stub
    assignments: the other columns are 'NA'); -> out = [[all_canonical | None, seq | None, perc | None], ...] (None = 'NA')"""
    import io as _io
    M = _impl()
    gi = _gene_ref(M, kw)
    if not hasattr(gi, "chr_id"):
        gi.chr_id = "chr1"
    pr = M.AIO.SqantiTSVPrinter.__new__(M.AIO.SqantiTSVPrinter)
    pr.params = types.SimpleNamespace(upstream_region_len=kw["n"])
    pr.io_support = M.AIO.IOSupport(pr.params)
    pr.output_file = _io.StringIO()
    out = []
    na = lambda x: None if x == "NA" else x
    for i, (exons, strand) in enumerate(kw["rows"]):
        ex = tl(exons)
        ra = types.SimpleNamespace(read_id="transcript%d" % i, assignment_type=M.IA.ReadAssignmentType.intergenic, isoform_matches=[],
                                   strand=strand, additional_info={"FSM_class": "C"}, exons=ex, introns_match=False, gene_info=gi,
                                   length=lambda ex=ex: sum(b - a + 1 for a, b in ex), exon_count=lambda ex=ex: len(ex),
                                   start=lambda ex=ex: ex[0][0], end=lambda ex=ex: ex[-1][1])
        pos = pr.output_file.tell()
        pr.add_read_info(ra)
        p = pr.output_file.getvalue()[pos:].rstrip("\n").split("\t")
        # the two bases "NA" at a contig end are a legal downstream sequence of a stranded model: only a '.' row prints the marker
        # (the marker comes with an NA percentage: '.' rows, rows without a loaded reference; a sequence comes with a number)
        seq = None if (p[38] == "NA" and p[37] == "NA") else p[38]
        out.append([na(p[16]), seq, None if p[37] == "NA" else round(float(p[37]), 9)])
    res = {"out": out, "memo": _memo(gi)}
    pr.output_file = _io.StringIO()      # __del__ closes it
    return res


def _novel(M, sd, op):
    """strand of the model that the real construct_fl_isoforms builds for one FL path (None: not reported)"""
    GBC = M.GB.GraphBasedModelConstructor
    introns = tuple(tuple(x) for x in op["introns"])
    rg = tuple(op["range"])
    path = ((M.IG.VERTEX_polyt if op["pt"] else M.IG.VERTEX_read_start, rg[0]),) + introns + \
           ((M.IG.VERTEX_polya if op["pa"] else M.IG.VERTEX_read_end, rg[1]),)
    gene_strands = dict(op.get("gene_strands", {}))
    intron_genes = {tuple(json.loads(k)): set(v) for k, v in op.get("intron_genes", {}).items()}
    stub = types.SimpleNamespace(
        path_storage=types.SimpleNamespace(fl_paths=[path], paths={path: op["count"]}, paths_to_reads={path: []}),
        get_transcript_id=lambda: 1,
        profile_constructor=types.SimpleNamespace(construct_profiles=lambda *a: None),
        assigner=types.SimpleNamespace(assign_to_isoform=lambda *a: types.SimpleNamespace(
            assignment_type=M.IA.ReadAssignmentType.noninformative, isoform_matches=[])),
        known_isoforms_in_graph={}, known_introns=set(), transcript_model_storage=[], intron_genes=intron_genes,
        params=types.SimpleNamespace(min_novel_count=op["min_novel_count"], min_known_count=1,
                                     require_monointronic_polya=op["require_mono_polya"],
                                     report_canonical_strategy=M.GB.StrandnessReportingLevel[op["level"]],
                                     use_technical_replicas=False),
        strand_detector=sd,
        gene_info=types.SimpleNamespace(chr_id="chr1", gene_strands=gene_strands, empty=lambda: not gene_strands),
        save_assigned_read=lambda *a: None)
    stub.select_reference_gene = types.MethodType(GBC.select_reference_gene, stub)
    GBC.construct_fl_isoforms(stub)
    if not stub.transcript_model_storage:
        return None
    return stub.transcript_model_storage[0].strand


def ordered_cands(op):
    """`ordered_genes` of select_reference_gene for the model (genes sharing >= 1 intron, by (count, id) descending)"""
    counts = {}
    for k, gs in op.get("intron_genes", {}).items():
        if list(json.loads(k)) in [list(x) for x in op["introns"]]:
            n = sum(1 for it in op["introns"] if list(it) == list(json.loads(k)))
            for g in gs:
                counts[g] = counts.get(g, 0) + n
    if not op.get("gene_strands"):
        return []
    od = sorted(counts.items(), key=lambda x: (x[1], x[0]), reverse=True)
    return [[g, op["gene_strands"][g]] for g, _ in od]


def impl_detector(kw, chr_record=None):
    M = _impl()
    sd = M.GI.StrandDetector(kw["seq"] if chr_record is None else chr_record)
    outs = []
    for op in kw["ops"]:
        k = op["k"]
        if k == "set":
            sd.set_strand(tuple(op["intron"]), op["strand"])
            outs.append(None)
        elif k == "count":
            outs.append(list(sd.count_canonical_sites(tl(op["introns"]))))
        elif k == "clean":
            outs.append(sd.get_clean_strand(tl(op["introns"])))
        elif k == "strand":
            outs.append(sd.get_strand(tl(op["introns"]), op["pa"], op["pt"]))
        elif k == "read":
            stub = types.SimpleNamespace(strand_detector=sd)
            ra = types.SimpleNamespace(
                isoform_matches=[types.SimpleNamespace(transcript_strand=s) for s in op["matches"]],
                assignment_type=M.IA.ReadAssignmentType[op["atype"]],
                polya_info=M.PF.PolyAInfo(op["epa"], op["ept"], op["ipa"], op["ipt"]),
                exons=[(1, 2)] * op["nexons"], corrected_introns=tl(op["introns"]))
            outs.append(M.AP.AlignmentCollector.get_assignment_strand(stub, ra))
        elif k == "novel":
            outs.append(_novel(M, sd, op))
        else:
            raise RuntimeError(k)
    return {"out": outs, "dict": sorted([[list(k), v] for k, v in sd.strand_dict.items()], key=lambda e: json.dumps(e[0]))}


# ---- the attribute list of printed transcript lines: real gffutils -> real GeneInfo (set_gene_attributes) -> real
# ---- IOSupport.add_canonical_info -> real GFFPrinter.dump

def _gtf_attr_text(pairs):
    return " ".join('%s "%s";' % (k, v) for k, v in pairs)


def attr_reference_gtf(kw):
    """the reference annotation of an `attr_lines` case as GTF text (gene, transcript, exon lines)"""
    lines = []
    for g in kw["genes"]:
        lo = min(e[0] for t in g["transcripts"] for e in t["exons"])
        hi = max(e[1] for t in g["transcripts"] for e in t["exons"])
        lines.append("chr1\tsyn\tgene\t%d\t%d\t.\t%s\t.\t%s" % (lo, hi, g["strand"], _gtf_attr_text([["gene_id", g["gene_id"]]] + g["attrs"])))
        for t in g["transcripts"]:
            ids = [["gene_id", g["gene_id"]], ["transcript_id", t["id"]]]
            lines.append("chr1\tsyn\ttranscript\t%d\t%d\t.\t%s\t.\t%s" % (t["exons"][0][0], t["exons"][-1][1], g["strand"],
                                                                               _gtf_attr_text(ids + t["attrs"])))
            for i, e in enumerate(t["exons"]):
                lines.append("chr1\tsyn\texon\t%d\t%d\t.\t%s\t.\t%s" % (e[0], e[1], g["strand"],
                                                                         _gtf_attr_text(ids + [["exon_number", str(i + 1)]] + t.get("exon_attrs", []))))
    return "\n".join(lines) + "\n"


def ref_attrs_for_model(pairs):
    """what gffutils hands on for the attribute column `pairs` (harness-side rule, exercised against the real gffutils by
    the correspondence): keys in line order, the values of a repeated key under its first occurrence in line order, an empty
    value gives no value"""
    out, idx = [], {}
    for k, v in pairs:
        if k not in idx:
            idx[k] = len(out)
            out.append([k, []])
        if v != "":
            out[idx[k]][1].append(v)
    return out


def attr_model_kw(kw):
    """the driver's view of an `attr_lines` case: known models (one per reference transcript) then the novel ones"""
    models = []
    for g in kw["genes"]:
        for t in g["transcripts"]:
            models.append({"gene_id": g["gene_id"], "transcript_id": t["id"], "exons": t["exons"], "strand": g["strand"], "info": [],
                           "ref": ref_attrs_for_model([["gene_id", g["gene_id"]], ["transcript_id", t["id"]]] + t["attrs"])})
    for m in kw["novel"]:
        models.append(dict(m, ref=None))
    return {"chrom": kw["chrom"], "start": kw["start"], "end": kw["end"], "check": kw["check"], "models": models}


def impl_attr_lines(kw):
    import gffutils
    import tempfile
    import src.transcript_printer as TP
    import src.id_policy as IDP
    M = _impl()
    io = M.AIO.IOSupport(types.SimpleNamespace())
    db = vlib.gff_db_from_string(attr_reference_gtf(kw), force=True, keep_order=True,
                                 merge_strategy="error", sort_attribute_values=True, disable_infer_transcripts=True,
                                 disable_infer_genes=True)
    novel = []
    for m in kw["novel"]:
        t = M.GI.TranscriptModel("chr1", m["strand"], m["transcript_id"], m["gene_id"], tl(m["exons"]),
                                 M.GI.TranscriptModelType.novel_not_in_catalog)
        for k, v in m["info"]:
            t.add_additional_attribute(k, v)
        novel.append(t)
    if kw["path"] == "extended":
        # the extended-annotation pass: whole-chromosome gene info, one model per reference transcript + the novel ones
        all_models, gi = TP.create_extended_storage(db, "chr1", kw["chrom"], novel)
    else:
        # the per-locus pass: gene info of the locus' genes with the window of the locus
        gi = M.GI.GeneInfo(list(db.features_of_type("gene", order_by="start")), db, delta=0)
        gi.set_reference_sequence(kw["start"], kw["end"], kw["chrom"])
        all_models = [M.GI.TranscriptModel.from_reference_transcript(gi, i) for i in gi.all_isoforms_exons.keys()] + novel
    if kw["check"]:
        io.add_canonical_info(all_models, gi)
    d = tempfile.mkdtemp(prefix="isoverif_C18at_")
    prev = TP.logger.level
    TP.logger.setLevel(100)          # "Gene and transcript records have unequal strands" for the random novel models
    try:
        pr = TP.GFFPrinter(d, "S", IDP.FeatureIdStorage(IDP.SimpleIDDistributor(), db, "chr1", "exon"), output_r2t=False,
                           check_canonical=kw["check"])
        pr.dump(gi, all_models)
        pr.out_gff.flush()
        out = {}
        for r in parse_gtf_lines(os.path.join(d, "S.transcript_models.gtf")):
            if r["feature"] == "transcript":
                tid = [v for k, v in r["pairs"] if k == "transcript_id"][0]
                out.setdefault(tid, []).append([list(x) for x in r["pairs"]])
        del pr
    finally:
        TP.logger.setLevel(prev)
        shutil.rmtree(d, ignore_errors=True)
    return {"out": out, "memo": _memo(gi)}


def impl_attr_tables():
    """the skip lists / key words read off the behaviour of the live code (gencheck.live_gene_attribute_tables) + the key
    GFFPrinter.dump adds to a model"""
    import gencheck
    import tempfile
    import src.transcript_printer as TP
    import src.id_policy as IDP
    M = _impl()
    live = gencheck.live_gene_attribute_tables(None)
    t = M.GI.TranscriptModel("chr1", "+", "t", "g", [(1, 4), (15, 18)], M.GI.TranscriptModelType.novel_not_in_catalog)
    d = tempfile.mkdtemp(prefix="isoverif_C18at_")
    try:
        pr = TP.GFFPrinter(d, "S", IDP.FeatureIdStorage(IDP.SimpleIDDistributor()), output_r2t=False)
        pr.dump(M.GI.GeneInfo.from_region("chr1", 1, 18), [t])
        del pr
    finally:
        shutil.rmtree(d, ignore_errors=True)
    keys = list(t.additional_info.keys())
    live["exons_key"] = keys[0] if len(keys) == 1 else keys
    return live


def attr_canon_model_out(kw_model, mo):
    """model output (list in model order) -> {transcript id: [attribute list of each of its lines]}"""
    if not isinstance(mo, dict) or "out" not in mo:
        return mo
    out = {}
    for m, line in zip(kw_model["models"], mo["out"]):
        out.setdefault(m["transcript_id"], []).append(line)
    return dict(mo, out=out)


def impl_call(op, kw):
    M = _impl()
    try:
        if op == "tables":
            return {"fwd": sorted(list(x) for x in M.C.CANONICAL_FWD_SITES), "rev": sorted(list(x) for x in M.C.CANONICAL_REV_SITES)}
        if op == "site_raw":
            # the two slice expressions shared by get_intron_strand / get_strand / check_sites_are_canonical
            s, l, r = kw["seq"], kw["intron"][0] - kw["start"], kw["intron"][1] - kw["start"]
            return [s[l:l + 2], s[r - 1:r + 1]]
        if op == "get_intron_strand":
            return M.C.get_intron_strand(tuple(kw["intron"]), kw["seq"], kw["start"])
        if op == "common_get_strand":
            return M.C.get_strand(tl(kw["introns"]), kw["seq"], kw["start"])
        if op == "detector":
            return impl_detector(kw)
        if op == "canon_history":
            return impl_canon_history(kw)
        if op == "model_info":
            return impl_model_info(kw)
        if op == "read_fields":
            return impl_read_fields(kw)
        if op == "sqanti_rows":
            return impl_sqanti_rows(kw)
        if op == "attr_lines":
            return impl_attr_lines(kw)
        if op == "attr_tables":
            return impl_attr_tables()
    except (IndexError, AssertionError, ZeroDivisionError, KeyError, ValueError, TypeError, AttributeError) as ex:
        return {"error": "error", "exc": type(ex).__name__ + ": " + str(ex)[:200]}
    raise RuntimeError("unknown op " + op)


def canon_model_out(op, mo, n=None):
    """canonicalise what came out of an association list"""
    if isinstance(mo, dict) and "memo" in mo:
        mo = dict(mo, memo=dedupe_first(mo["memo"], 2))
    if isinstance(mo, dict) and "dict" in mo:
        mo = dict(mo, dict=dedupe_first(mo["dict"], 1))
    if op == "tables" and isinstance(mo, dict):
        mo = {k: sorted(v) for k, v in mo.items()}
    if op == "sqanti_rows" and isinstance(mo, dict) and "out" in mo and n:
        # the model gives the count, the code prints count / n with two decimals (n in {4, 5, 10, 20}: exact)
        mo = dict(mo, out=[[r[0], r[1], None if r[2] is None else round(r[2] / float(n), 9)] for r in mo["out"]])
    if op == "attr_tables" and isinstance(mo, dict) and "transcript_skip" in mo:
        mo = {k: (sorted(v) if isinstance(v, list) else v) for k, v in mo.items()}
    return mo


def model_kw(op, kw):
    """what the driver gets: the `novel` sub-operations carry the ordered candidate list instead of the dicts"""
    if op == "attr_lines":
        return attr_model_kw(kw)
    if op != "detector":
        return kw
    ops = []
    for o in kw["ops"]:
        if o["k"] == "novel":
            cands = ordered_cands(o)
            o = {k: v for k, v in o.items() if k not in ("gene_strands", "intron_genes")}
            o["cands"] = cands
        ops.append(o)
    return dict(kw, ops=ops)


# ------------------------------------------------------------------------------------------------
# generators of operations

def gen_detector_ops(rng, seq, introns, n_ops=None, with_novel=True):
    n = len(seq)
    pool = list(introns) + G.odd_introns(rng, n)
    ops = []
    uid = 0
    # the model constructor seeds the detector from the annotation; the alignment collector does not
    if rng.random() < 0.5:
        for it in rng.sample(pool, min(len(pool), rng.randint(0, 3))):
            ops.append({"k": "set", "intron": list(it), "strand": rng.choice(["+", "-", ".", None, None])})
    for _ in range(n_ops or rng.randint(1, 7)):
        its = [list(rng.choice(pool)) for _ in range(rng.randint(0, 5))]
        k = rng.choice(["count", "clean", "strand", "strand", "read", "novel" if with_novel else "strand", "set"])
        if k == "set":
            ops.append({"k": "set", "intron": list(rng.choice(pool)), "strand": rng.choice(["+", "-", ".", None])})
        elif k in ("count", "clean"):
            ops.append({"k": k, "introns": its})
        elif k == "strand":
            ops.append({"k": k, "introns": its, "pa": rng.random() < 0.4, "pt": rng.random() < 0.4})
        elif k == "read":
            pos = lambda: rng.choice([-1, -1, rng.randint(1, 500)])
            ops.append({"k": k, "introns": its, "matches": [rng.choice(STRANDS) for _ in range(rng.randint(0, 2))],
                        "atype": rng.choice(["unique", "unique_minor_difference", "ambiguous", "inconsistent", "noninformative",
                                             "intergenic", "inconsistent_non_intronic", "inconsistent_ambiguous"]),
                        "epa": pos(), "ipa": pos(), "ept": pos(), "ipt": pos(),
                        "nexons": rng.choice([1, 1, len(its) + 1, 2, 3])})
        else:
            its_sorted = sorted(set(tuple(i) for i in its))
            uid += 1
            genes = ["g%d" % i for i in range(rng.randint(0, 3))]
            gene_strands = {g: rng.choice(STRANDS) for g in genes}
            intron_genes = {}
            for it in its_sorted:
                gs = [g for g in genes if rng.random() < 0.5]
                if gs:
                    intron_genes[json.dumps(list(it))] = gs
            lo = min([i[0] for i in its_sorted] + [1]) - rng.randint(1, 20)
            hi = max([i[1] for i in its_sorted] + [n]) + rng.randint(1, 20)
            ops.append({"k": "novel", "_id": uid, "introns": [list(i) for i in its_sorted], "range": [lo, hi],
                        "count": rng.randint(0, 4), "min_novel_count": rng.choice([1, 2, 3]),
                        "require_mono_polya": rng.random() < 0.5,
                        "level": rng.choice(["only_canonical", "only_stranded", "all"]),
                        "pa": rng.random() < 0.4, "pt": rng.random() < 0.4,
                        "gene_strands": gene_strands, "intron_genes": intron_genes})
    return ops


def gen_models(rng, seq, introns, start):
    n = len(seq)
    models = []
    for _ in range(rng.randint(1, 5)):
        k = rng.randint(0, min(3, len(introns)))
        its = sorted(set(rng.sample(introns, k))) if k else []
        # exon blocks around the chosen introns (overlapping introns give odd but legal block lists)
        bounds = [start - rng.randint(0, 3)]
        for a, b in its:
            bounds += [a - 1, b + 1]
        bounds.append(start + n + rng.randint(0, 3))
        exons = [[bounds[i], bounds[i + 1]] for i in range(0, len(bounds), 2)]
        if rng.random() < 0.1 and len(exons) > 1:
            exons[0][1] = exons[1][0] - 1          # adjacent blocks: no junction between them
        models.append({"exons": exons, "strand": rng.choice(STRANDS),
                       "attr": rng.choice([None, None, None, None, "True", "False", "Unspliced"])})
    return models


def site_universe():
    """all (left, right) dinucleotide pairs over {A,C,G,T,N,a,c,g,t}: 6561 sequences `left NN right`, intron (1,6)"""
    al = "ACGTNacgt"
    return [(a + b, c + d) for a in al for b in al for c in al for d in al]


def gen_cases(ctx, rng=None):
    rng = rng or ctx.rng
    quick = ctx.tier == "quick"
    cases = [("tables", {})]
    for l, r in site_universe():
        seq = l + "NN" + r
        cases.append(("get_intron_strand", {"seq": seq, "start": 1, "intron": [1, 6]}))
        cases.append(("canon_history", {"seq": seq, "start": 1, "queries": [[[[1, 6]], "+"], [[[1, 6]], "-"], [[[1, 6]], "."]]}))
        cases.append(("common_get_strand", {"seq": seq, "start": 1, "introns": [[1, 6]]}))
    ctx.extra["site_universe"] = {"alphabet": "ACGTNacgt", "pairs": 6561, "ops_per_pair": 3}
    for _ in range(1500 if quick else 20000):
        start = rng.choice([1, 1, 1, 0, 7, 1000])
        seq, introns = G.planted_sequence(rng, start=start)
        n = len(seq)
        pool = introns + G.odd_introns(rng, n, start)
        for it in pool:
            cases.append(("site_raw", {"seq": seq, "start": start, "intron": list(it)}))
            cases.append(("get_intron_strand", {"seq": seq, "start": start, "intron": list(it)}))
        cases.append(("common_get_strand", {"seq": seq, "start": start,
                                            "introns": [list(rng.choice(pool)) for _ in range(rng.randint(0, 5))]}))
        hist = [[[list(i) for i in q], s] for q, s in G.query_history(rng, pool)]
        if rng.random() < 0.5:
            cases.append(("canon_history", {"seq": seq, "start": start, "queries": hist}))
        else:
            # through GeneInfo.set_reference_sequence on a longer chromosome (the region is a slice of it)
            pre = G.rand_seq(rng, start - 1 if 1 <= start <= 8 else 0, 0.2)
            if start - 1 != len(pre):
                cases.append(("canon_history", {"seq": seq, "start": start, "queries": hist}))
            else:
                chrom = pre + seq + G.rand_seq(rng, rng.randint(0, 6), 0.2)
                cases.append(("canon_history", {"chrom": chrom, "start": start, "end": start + n - 1, "queries": hist}))
        cases.append(("model_info", {"seq": rng.choice([seq, seq, seq, ""]), "start": start,
                                     "models": gen_models(rng, seq, introns, start)}))
        reads = [[m["exons"], m["strand"]] for m in gen_models(rng, seq, introns, start)]
        cases.append(("read_fields", {"check": rng.random() < 0.85, "seq": rng.choice([seq, seq, seq, seq, ""]),
                                      "start": start, "reads": reads}))
        if start == 1:
            cases.append(("detector", {"seq": seq, "ops": gen_detector_ops(rng, seq, introns)}))
    # windows that touch the borders of the contig (first locus of a small contig / organelle genome): region start
    # 1..25 and / or region end on the last bases; directly through set_reference_sequence and through the loader
    for _ in range(400 if quick else 4000):
        n = rng.choice([40, 60, 120])
        chrom, introns = G.planted_sequence(rng, n=n, start=1)
        start = rng.choice([0, 0, 1, 1, 2, -2, rng.randint(1, 25), rng.randint(1, 25), rng.randint(1, 25)])
        # ... or BEYOND the last base (a GTF gene end larger than the FASTA record): the slice clamps
        end = n - rng.choice([0, 0, 1, 3, 10]) if rng.random() < 0.7 else n + rng.choice([1, 2, 7, 1000])
        lo = max(1, start)
        inside = [it for it in introns if lo <= it[0] and it[1] <= end]
        for _k in range(3):      # make sure some planted introns lie inside the window, also hard at its borders
            a = rng.choice([lo, lo, lo + 1, rng.randint(lo, max(lo, end - 6))])
            b = rng.choice([end, end, end - 1, rng.randint(min(a + 3, end), end)])
            if a + 3 <= b:
                chrom = G.plant(chrom, (a, b), rng.choice(G.FWD_PAIRS + G.REV_PAIRS + G.NEAR_MISS[:3]))
                inside.append((a, b))
        pool = inside + [rng.choice(introns)] + G.odd_introns(rng, n, 1)[:1]
        hist = [[[list(i) for i in q], s_] for q, s_ in G.query_history(rng, pool)]
        kw = {"chrom": chrom, "start": start, "end": end, "queries": hist}
        if rng.random() < 0.6 and start >= 0:        # the dump format has no negative numbers
            kw["via"] = "loader"
        cases.append(("canon_history", kw))
        models = gen_models(rng, chrom[lo - 1:end], inside, lo)
        mk = {"chrom": chrom, "start": start, "end": end, "models": models}
        if rng.random() < 0.6 and start >= 0:
            mk["via"] = "loader"
        cases.append(("model_info", mk))
    # the second pass: the saved gene info carries the GENE span, the reads of the region may reach beyond it on either
    # side (novel upstream / downstream exons); the gene info comes from the real ReadAssignmentLoader.get_next
    for _ in range(300 if quick else 3000):
        n = rng.choice([60, 90, 140])
        chrom, introns = G.planted_sequence(rng, n=n, start=1)
        hs = rng.randint(1, n // 2)
        he = rng.randint(hs + 5, n) if rng.random() < 0.75 else n + rng.choice([1, 3, 40, 1000])   # header beyond the contig
        reads = []
        for _k in range(rng.randint(0, 4)):
            a = rng.randint(1, n - 12)
            b = rng.randint(a + 8, n)
            inside = sorted(it for it in set(introns) if a < it[0] and it[1] < b and it[0] <= it[1])
            chain = []
            for it in inside:
                if rng.random() < 0.6 and (not chain or chain[-1][1] + 1 < it[0]):
                    chain.append(it)
            bounds = [a] + [x for it in chain for x in (it[0] - 1, it[1] + 1)] + [b]
            ex = [[bounds[i], bounds[i + 1]] for i in range(0, len(bounds), 2)]
            cex = ex if rng.random() < 0.6 else [list(e) for e in ex]
            if cex is not ex and rng.random() < 0.7:
                cex[0][0] = max(1, cex[0][0] - rng.randint(0, 6))          # a corrected end reaching further out
                cex[-1][1] = min(n, cex[-1][1] + rng.randint(0, 6))
            reads.append({"exons": ex, "cexons": cex})
        base = {"chrom": chrom, "start": hs, "end": he, "via": "loader", "kept": reads}
        qs = []
        for r in reads:
            for ex in (r["exons"], r["cexons"]):
                its = [[ex[i][1] + 1, ex[i + 1][0] - 1] for i in range(len(ex) - 1)]
                if its:
                    qs.append([its, rng.choice("+-")])
        rng.shuffle(qs)
        cases.append(("canon_history", dict(base, queries=qs[:6])))
        cases.append(("model_info", dict(base, models=[{"exons": r["cexons"], "strand": rng.choice("+-"), "attr": None} for r in reads])))
        cases.append(("model_info", dict(base, models=[{"exons": r["exons"], "strand": rng.choice("+-"), "attr": None} for r in reads])))
    # the SQANTI-like table: all_canonical + the downstream-A window of transcript models, gene info from the real loader with
    # reference_flank (20 = --sqanti_output, also 0 and 5), spans at the window / contig borders, A- and T-rich flanks
    for _ in range(350 if quick else 4000):
        cases.append(("sqanti_rows", gen_sqanti_case(rng)))
    # printed attribute lists of transcript lines: reference transcripts with stale / repeated Canonical attributes
    cases.append(("attr_tables", {}))
    for _ in range(350 if quick else 4000):
        cases.append(("attr_lines", G.attr_case(rng)))
    # novel-transcript decisions on well-formed intron chains (sorted, disjoint, inside the sequence), enough reads
    for _ in range(600 if quick else 8000):
        seq, chain = novel_chain(rng)
        ops = []
        if rng.random() < 0.4:      # annotation seed for some of the introns
            for it in rng.sample(chain, rng.randint(1, len(chain))):
                ops.append({"k": "set", "intron": list(it), "strand": rng.choice(["+", "-", None])})
        for uid in range(rng.randint(1, 3)):
            sub = chain if rng.random() < 0.6 else sorted(rng.sample(chain, rng.randint(1, len(chain))))
            genes = ["g%d" % i for i in range(rng.randint(0, 2))]
            gene_strands = {g: rng.choice("+-") for g in genes}
            intron_genes = {json.dumps(list(it)): [g for g in genes if rng.random() < 0.6] for it in sub}
            intron_genes = {k: v for k, v in intron_genes.items() if v}
            ops.append({"k": "novel", "_id": uid, "introns": [list(i) for i in sub], "range": [1, len(seq)],
                        "count": rng.randint(1, 5), "min_novel_count": rng.choice([1, 1, 2]),
                        "require_mono_polya": rng.random() < 0.3,
                        "level": rng.choice(["only_canonical", "only_stranded", "all"]),
                        "pa": rng.random() < 0.4, "pt": rng.random() < 0.4,
                        "gene_strands": gene_strands, "intron_genes": intron_genes})
        cases.append(("detector", {"seq": seq, "ops": ops}))
    return cases


def gen_sqanti_case(rng):
    n = rng.choice([60, 90, 140])
    chrom, introns = G.planted_sequence(rng, n=n, start=1)
    # A / T runs so that the percentage columns are not all 0.00
    cl = list(chrom)
    for _k in range(rng.randint(1, 4)):
        a = rng.randint(0, n - 1)
        ln = rng.randint(3, 25)
        base = rng.choice("AATTat")
        cl[a:a + ln] = [base if rng.random() < 0.85 else c for c in cl[a:a + ln]]
    chrom = "".join(cl)[:n]
    mode = rng.random()
    if mode < 0.75:
        hs = rng.randint(1, n // 2)
        he = rng.randint(hs + 5, n) if rng.random() < 0.8 else n + rng.choice([1, 3, 40])
        reads = []
        for _k in range(rng.randint(1, 3)):
            a = rng.choice([1, 2, rng.randint(1, n - 12), rng.randint(1, n - 12)])
            b = rng.choice([n, n - 1, rng.randint(a + 8, n), rng.randint(a + 8, n)])
            inside = sorted(it for it in set(introns) if a < it[0] and it[1] < b and it[0] <= it[1])
            chain = []
            for it in inside:
                if rng.random() < 0.6 and (not chain or chain[-1][1] + 1 < it[0]):
                    chain.append(it)
            bounds = [a] + [x for it in chain for x in (it[0] - 1, it[1] + 1)] + [b]
            ex = [[bounds[i], bounds[i + 1]] for i in range(0, len(bounds), 2)]
            reads.append({"exons": ex, "cexons": ex})
        flank = rng.choice([20, 20, 20, 20, 0, 5])
        kw = {"chrom": chrom, "start": hs, "end": he, "via": "loader", "kept": reads, "flank": flank,
              "n": 5 if flank == 5 else rng.choice([20, 20, 20, 10, 4])}
        lo = min([max(1, hs)] + [r["exons"][0][0] for r in reads])
        hi = min(n, max([he] + [r["exons"][-1][1] for r in reads]))
        rows = [[r["exons"], rng.choice("+-+-.")] for r in reads]
        for _k in range(rng.randint(0, 3)):          # models assembled from parts of the reads: any span inside the region
            a = rng.randint(lo, max(lo, hi - 3))
            rows.append([[[a, rng.randint(a, hi)]], rng.choice("+-+-.")])
        rows.append([[[lo, hi]], rng.choice("+-")])
        kw["rows"] = rows
        return kw
    # a window given directly (the code as a function of the window): spans anywhere, also hard at its borders
    start = rng.choice([1, 1, 1, 7, 1000])
    rows = []
    for _k in range(rng.randint(1, 4)):
        a = rng.choice([start, start + 1, start + rng.randint(0, n - 2)])
        b = rng.choice([start + n - 1, start + n - 2, rng.randint(a, start + n - 1)])
        rows.append([[[a, max(a, b)]], rng.choice("+-+-.")])
    return {"seq": rng.choice([chrom, chrom, chrom, chrom, ""]), "start": start, "n": rng.choice([20, 20, 10, 5]), "rows": rows}


def novel_chain(rng):
    """-> (sequence, sorted disjoint introns inside it); sites: all '+', all '-', none, or mixed"""
    k = rng.randint(1, 4)
    pos, chain = 6, []
    for _ in range(k):
        ln = rng.randint(4, 12)
        chain.append((pos, pos + ln - 1))
        pos += ln + rng.randint(3, 8)
    seq = G.rand_seq(rng, pos + 5)
    mode = rng.choice(["+", "-", "none", "mixed", "mixed"])
    for it in chain:
        m = mode if mode != "mixed" else rng.choice(["+", "-", "none"])
        pair = rng.choice(G.FWD_PAIRS) if m == "+" else (rng.choice(G.REV_PAIRS) if m == "-" else ("NN", "NN"))
        seq = G.plant(seq, it, pair)
    return G.rand_case(rng, seq, rng.choice([0.0, 0.0, 0.3])), chain


def nontrivial(op, kw, mo):
    if vlib.is_err(mo):
        return False
    if op in ("get_intron_strand", "common_get_strand"):
        return mo != "."
    if op in ("canon_history", "model_info", "read_fields"):
        return any(x in (True, "True") for x in mo["out"])
    if op == "sqanti_rows":
        return any(r[1] for r in mo["out"])
    if op == "attr_lines":
        # a reference transcript that carries a Canonical attribute is printed with a recomputed definite flag
        ref_has = {t["id"] for g in kw["genes"] for t in g["transcripts"] if any(k == "Canonical" for k, _ in t["attrs"])}
        return any(tid in ref_has and any(k == "Canonical" and v in ("True", "False") for k, v in line)
                   for tid, lines in mo["out"].items() for line in lines)
    if op == "detector":
        return any(x in ("+", "-") or (isinstance(x, list) and x != [0, 0]) for x in mo["out"])
    if op == "site_raw":
        return len(mo[0]) == 2 and len(mo[1]) == 2
    return True


def pyfaidx_cross_check(ctx):
    """StrandDetector is handed a pyfaidx record unless --high_memory: in-range introns must agree with the model"""
    import pipeline
    from pyfaidx import Fasta
    d = pipeline.scratch("isoverif_C18fa_")
    try:
        rng = random.Random(ctx.rng.random())
        items = []
        with open(os.path.join(d, "x.fa"), "w") as f:
            for i in range(12 if ctx.tier == "quick" else 60):
                seq, introns = G.planted_sequence(rng, n=rng.choice([40, 80, 200]), p_lower=rng.choice([0, 0.2]))
                introns = [it for it in introns if 1 <= it[0] and it[1] <= len(seq) and it[1] - it[0] >= 1]
                if not introns:
                    continue
                f.write(">s%d\n%s\n" % (i, seq))
                items.append(("s%d" % i, seq, introns))
        fa = Fasta(os.path.join(d, "x.fa"))
        cases, recs = [], []
        for name, seq, introns in items:
            ops = [o for o in gen_detector_ops(rng, seq, introns, with_novel=False)]
            # keep in-range introns only (out-of-range behaviour of pyfaidx slicing is outside the modelled domain)
            ok = lambda it: 1 <= it[0] and it[1] <= len(seq) and it[1] - it[0] >= 1
            for o in ops:
                if "introns" in o:
                    o["introns"] = [it for it in o["introns"] if ok(it)]
            ops = [o for o in ops if o["k"] != "set" or ok(o["intron"])]
            cases.append(("detector", {"seq": seq, "ops": ops}))
            recs.append(fa[name])
        # windows of set_reference_sequence on the real FastaRecord, also ending beyond the contig (pyfaidx clamps the slice)
        wcases = []
        for name, seq, introns in items:
            for _w in range(3):
                start = rng.choice([1, 1, 2, rng.randint(1, max(1, len(seq) // 3))])
                end = len(seq) + rng.choice([0, -2, 1, 5, 1000, 1000])
                pool = [it for it in introns if start <= it[0] and it[1] <= end] or [introns[0]]
                hist = [[[list(i) for i in q], s_] for q, s_ in G.query_history(rng, pool)]
                wcases.append((name, {"chrom": seq, "start": start, "end": end, "queries": hist}))
        wouts = ctx.driver.run([vlib.req("C18.canon_history", **kw) for _, kw in wcases])
        for (name, kw), mo in zip(wcases, wouts):
            ctx.evaluations += 1
            ctx.count("op:canon_history_pyfaidx")
            if kw["end"] > len(kw["chrom"]):
                ctx.count("canon_history_pyfaidx:window_ends_beyond_contig")
            io = vlib.canon(impl_canon_history(dict(kw, chrom=fa[name])))
            ctx.traces_validated += 1
            mo = canon_model_out("canon_history", mo)
            if not vlib.same(mo, io):
                ctx.disagree("canon_history", kw, mo, io)
            elif nontrivial("canon_history", kw, mo):
                ctx.mark_nontrivial(["canon_history_pyfaidx", kw])
        outs = ctx.driver.run([vlib.req("C18.detector", **kw) for _, kw in cases])
        for (op, kw), mo, rec in zip(cases, outs, recs):
            ctx.evaluations += 1
            ctx.count("op:detector_pyfaidx")
            io = vlib.canon(impl_detector(kw, chr_record=rec))
            ctx.traces_validated += 1
            mo = canon_model_out(op, mo)
            if not vlib.same(mo, io):
                ctx.disagree("detector_pyfaidx", kw, mo, io)
            elif nontrivial(op, kw, mo):
                ctx.mark_nontrivial(["detector_pyfaidx", kw])
    finally:
        shutil.rmtree(d, ignore_errors=True)


def correspondence(ctx):
    cases = gen_cases(ctx)
    lines = [vlib.req("C18." + op, **model_kw(op, kw)) for op, kw in cases]
    outs = ctx.driver.run(lines)
    for (op, kw), mo in zip(cases, outs):
        ctx.evaluations += 1
        ctx.count("op:" + op)
        if isinstance(mo, dict) and "driver_error" in mo:
            ctx.disagree(op, kw, mo, None)
            continue
        io = vlib.canon(impl_call(op, kw))
        ctx.traces_validated += 1
        mo = canon_model_out(op, mo, kw.get("n") if op == "sqanti_rows" else None)
        if op == "sqanti_rows":
            ctx.count("sqanti_rows:%s" % ("loader:flank=%d" % kw["flank"] if "kept" in kw else "window"))
            if isinstance(io, dict) and "out" in io:
                for (_ex, st_), r_ in zip(kw["rows"], io["out"]):
                    ctx.count("sqanti_rows:strand%s:%s" % (st_, "NA" if r_[1] is None else ("empty" if r_[1] == "" else ("full" if len(r_[1]) == kw["n"] else "clipped"))))
        if op == "attr_lines":
            mo = attr_canon_model_out(model_kw(op, kw), mo)
            ctx.count("attr_lines:path:%s:check=%s" % (kw["path"], kw["check"]))
            if kw["end"] > len(kw["chrom"]):
                ctx.count("attr_lines:window_ends_beyond_contig")
        if vlib.is_err(mo):
            ctx.count("model_error")
        if op in ("canon_history", "model_info") and "chrom" in kw and kw["end"] > len(kw["chrom"]):
            ctx.count("%s:window_ends_beyond_contig%s" % (op, ":loader" if kw.get("via") else ""))
        if op in ("canon_history", "model_info", "read_fields", "detector"):
            if op == "canon_history":
                for q_ in kw["queries"]:
                    if q_[1] == "." and q_[0]:
                        ctx.count("canon_history:queries_on_unknown_strand")
            if isinstance(io, dict) and "out" in io:
                for x in io["out"]:
                    ctx.count("%s:answer:%s" % (op, json.dumps(x)))
        if not vlib.same(mo, io):
            ctx.disagree(op, kw, mo, io)
        elif nontrivial(op, kw, mo):
            ctx.mark_nontrivial([op, kw])
        if len(ctx.samples) < 8 and ctx.rng.random() < 0.0008:
            ctx.sample({"op": op, "input": vlib.canon(kw), "model": mo, "impl": io})
    pyfaidx_cross_check(ctx)
    if not ctx.samples and cases:
        ctx.sample({"op": cases[0][0], "input": vlib.canon(cases[0][1]), "model": outs[0]})


# ------------------------------------------------------------------------------------------------
# oracle: the property itself on the real code

def exp_vote(sst, pa, pt):
    f, r = sst.count("+"), sst.count("-")
    if f > r:
        return "+"
    if r > f:
        return "-"
    if pa and not pt:
        return "+"
    if pt and not pa:
        return "-"
    return "."


def oracle_case(mode, kw):
    """None when the property holds on this input, else (kind, detail)"""
    M = _impl()
    if mode == "pipeline":
        fails, _ = pipeline_case(kw)
        return (fails[0][0], fails[0][1]) if fails else None
    if mode in ("canon_history", "model_info", "read_fields"):
        if "chrom" in kw and "kept" in kw:
            # second pass (gene info from ReadAssignmentLoader.get_next): the statement speaks about the reference FASTA,
            # the loaded window is an implementation detail -> expected values come from the whole chromosome
            seq, start = kw["chrom"], 1
        elif "chrom" in kw:
            # a window asked to start at or before 0 (0-based start of a read cluster at the first base) begins at base 1
            start = max(1, kw["start"])
            seq = kw["chrom"][start - 1:max(kw["end"], 0)]
        else:
            seq, start = kw["seq"], kw["start"]
        got = {"canon_history": impl_canon_history, "model_info": impl_model_info, "read_fields": impl_read_fields}[mode](kw)["out"]
        if mode == "canon_history":
            for i, (q, s) in enumerate(kw["queries"]):
                # (0) unknown strand: the answer must not depend on the orientation of the locus (C11): the mirrored chain on
                # the reverse complement, asked against a fresh gene_info
                if s == "." and q and seq and all(pair_at(seq, tuple(it), start) for it in q):
                    o_, L_ = start - 1, len(seq)
                    mq = sorted([o_ + L_ + 1 - (it[1] - o_), o_ + L_ + 1 - (it[0] - o_)] for it in q)
                    mir = impl_canon_history({"seq": revcomp_any(seq), "start": start, "queries": [[mq, "."]]})["out"][0]
                    if mir != got[i]:
                        return ("canonical_dot_flag_not_mirror_invariant",
                                {"query": i, "introns": q, "answer": got[i], "mirror_answer": mir, "mirror_introns": mq,
                                 "pairs": [pair_at(seq, tuple(it), start) for it in q]})
                # (1) history independence: the same query against a fresh gene_info
                fresh = impl_canon_history(dict(kw, queries=[[q, s]]))["out"][0]
                if fresh != got[i]:
                    return ("canonical_depends_on_history", {"query": i, "answer": got[i], "fresh_answer": fresh})
                # (2) value: recomputed from the sequence
                exp = expected_flag(seq, tl(q), s, start) if q else True
                if exp is not None and exp != "Unspliced" and exp != got[i]:
                    return ("canonical_value", {"query": i, "answer": got[i], "expected": exp,
                                                "pairs": [pair_at(seq, tuple(it), start) for it in q]})
            return None
        items = [(m["exons"], m["strand"], m["attr"]) for m in kw["models"]] if mode == "model_info" else \
                [(e, s, None) for e, s in kw["reads"]]
        for i, (exons, s, attr) in enumerate(items):
            if not seq or attr is not None or (mode == "read_fields" and not kw["check"]):
                continue
            ex = tl(exons)
            introns = [(ex[j][1] + 1, ex[j + 1][0] - 1) for j in range(len(ex) - 1) if ex[j][1] + 1 < ex[j + 1][0]]
            exp = expected_flag(seq, introns, s, start)
            if exp is None:
                continue
            if got[i] != str(exp):
                return ("flag_value", {"index": i, "flag": got[i], "expected": str(exp), "strand": s, "introns": introns,
                                       "pairs": [pair_at(seq, it, start) for it in introns]})
        return None
    if mode == "sqanti_rows":
        # the clause is evaluated where the statement applies: a gene region as the pipeline loads it with --sqanti_output
        # (loader, flank >= n, kept reads), rows inside the span of the region; expected values from the whole chromosome
        if "kept" not in kw or not kw["kept"] or kw.get("flank", 0) < kw["n"]:
            return None
        got = impl_sqanti_rows(kw)["out"]
        chrom, n_ = kw["chrom"], kw["n"]
        for i, (exons, s) in enumerate(kw["rows"]):
            ex = tl(exons)
            introns = [(ex[j][1] + 1, ex[j + 1][0] - 1) for j in range(len(ex) - 1) if ex[j][1] + 1 < ex[j + 1][0]]
            exp = expected_flag(chrom, introns, s, 1)
            exp = True if exp == "Unspliced" else exp
            if exp is not None and got[i][0] != str(exp):
                return ("sqanti_all_canonical", {"row": i, "strand": s, "introns": introns, "column": got[i][0], "expected": str(exp)})
            if s in "+-":
                w = chrom_downstream(chrom, ex[0][0], ex[-1][1], s, n_)
                pc = round(downstream_count(w, s) / float(n_), 9)
                if got[i][1] != w or got[i][2] is None or abs(got[i][2] - pc) > 1e-9:
                    return ("sqanti_downstream_window", {"row": i, "strand": s, "first": ex[0][0], "last": ex[-1][1],
                                                         "seq_A_downstream_TTS": got[i][1], "perc_A_downstream_TTS": got[i][2],
                                                         "expected_seq": w, "expected_perc": pc, "chr_len": len(chrom)})
            elif got[i][1] is not None or got[i][2] is not None:
                return ("sqanti_downstream_unknown_strand", {"row": i, "strand": s, "seq_A_downstream_TTS": got[i][1],
                                                             "perc_A_downstream_TTS": got[i][2]})
        return None
    if mode == "detector":
        seq = kw["seq"]
        res = impl_detector(kw)["out"]
        # effective strand of an intron: the annotation seed if any (set with an explicit strand), else the sites
        seeded = {}
        for i, op in enumerate(kw["ops"]):
            k = op["k"]
            if k == "set":
                it = tuple(op["intron"])
                if op["strand"] is not None:
                    seeded[it] = op["strand"]
                else:
                    p = pair_at(seq, it)
                    if p is None:
                        return None          # outside the statement's domain from here on
                    seeded[it] = site_strand(p)
                continue
            its = tl(op["introns"])
            pairs = [pair_at(seq, it) for it in its]
            if any(p is None and it not in seeded for p, it in zip(pairs, its)):
                continue
            sst = [seeded[it] if it in seeded else site_strand(p) for p, it in zip(pairs, its)]
            f, r = sst.count("+"), sst.count("-")
            got = res[i]
            detail = {"op_index": i, "op": op, "site_strands": sst, "got": got}
            if k == "count" and got != [f, r]:
                return ("site_counts", detail)
            if k == "clean":
                exp = "+" if (f > 0 and r == 0) else ("-" if (r > 0 and f == 0) else ".")
                if got != exp:
                    return ("clean_strand", dict(detail, expected=exp))
            if k == "strand":
                exp = exp_vote(sst, op["pa"], op["pt"])
                if got != exp:
                    return ("strand_vote", dict(detail, expected=exp))
            if k == "read":
                pa = op["epa"] != -1 or op["ipa"] != -1
                pt = op["ept"] != -1 or op["ipt"] != -1
                if op["matches"] and op["atype"] in ("unique", "unique_minor_difference"):
                    exp = op["matches"][0]
                elif op["nexons"] == 1:
                    exp = exp_vote([], pa, pt)
                else:
                    exp = exp_vote(sst, pa, pt)
                if got != exp:
                    return ("read_strand", dict(detail, expected=exp))
            if k == "novel" and got is not None and its:
                pa, pt = op["pa"], op["pt"]
                gs = set(op["gene_strands"][g] for gl in op["intron_genes"].values() for g in gl)
                ev = {"+": f + (1 if pa else 0), "-": r + (1 if pt else 0)}
                if f != r and got != ("+" if f > r else "-"):
                    return ("novel_strand_disagrees_with_sites", detail)
                if f == r and pa != pt and got != ("+" if pa else "-"):
                    return ("novel_strand_disagrees_with_tail", detail)
                if got in "+-":
                    o = "-" if got == "+" else "+"
                    if ev[got] == 0 and got not in gs and (ev[o] > 0 or o in gs):
                        return ("novel_strand_contradicts_all_evidence", detail)
            if k == "novel" and got is None and its:
                # reporting filter: a path with an informative clean strand, enough reads and >2 exons must be reported
                clean = "+" if (f > 0 and r == 0) else ("-" if (r > 0 and f == 0) else ".")
                distinct = sorted(set(its))
                proper = all(distinct[j][1] + 1 < distinct[j + 1][0] for j in range(len(distinct) - 1))
                if op["count"] >= op["min_novel_count"] and clean != "." and len(distinct) >= 2 and proper:
                    return ("novel_canonical_path_not_reported", detail)
        # history independence of the memo: every query answers as a fresh detector seeded the same way
        sets = [op for op in kw["ops"] if op["k"] == "set"]
        seen_sets = []
        for i, op in enumerate(kw["ops"]):
            if op["k"] == "set":
                seen_sets.append(op)
                continue
            if op["k"] == "novel":
                continue
            fresh = impl_detector({"seq": seq, "ops": seen_sets + [op]})["out"][-1]
            if fresh != res[i]:
                return ("strand_depends_on_history", {"op_index": i, "op": op, "got": res[i], "fresh": fresh})
        return None
    if mode == "attr_lines":
        # the clause of the pipeline oracle on the in-process path: every printed transcript line carries exactly one Canonical
        # attribute (with --check_canonical; at most one without) and every value equals the flag recomputed from the chromosome;
        # a model that already carries the attribute (dumped once before) keeps exactly that one
        got = impl_attr_lines(kw)["out"]
        items = [(t["id"], t["exons"], g["strand"], None) for g in kw["genes"] for t in g["transcripts"]] + \
                [(m["transcript_id"], m["exons"], m["strand"], dict((k, v) for k, v in m["info"]).get("Canonical")) for m in kw["novel"]]
        for tid, exons, strand, carried in items:
            lines = got.get(tid, [])
            if len(lines) != 1:
                return ("transcript_line_count", {"transcript": tid, "lines": len(lines)})
            vals = [v for k, v in lines[0] if k == "Canonical"]
            ex = tl(exons)
            introns = [(ex[j][1] + 1, ex[j + 1][0] - 1) for j in range(len(ex) - 1) if ex[j][1] + 1 < ex[j + 1][0]]
            exp = expected_flag(kw["chrom"], introns, strand, 1)
            detail = {"transcript": tid, "values": vals, "expected": exp, "carried": carried, "strand": strand, "introns": introns,
                      "line": lines[0]}
            if carried is not None:
                # (the carried value is the test input's: exactly one value, the carried or the recomputed one)
                if len(vals) != 1:
                    return ("canonical_attr_not_unique", detail)
                if vals[0] != carried and exp is not None and vals[0] != str(exp):
                    return ("model_canonical_flag", detail)
                continue
            if len(vals) > 1 or (kw["check"] and len(vals) != 1):
                return ("canonical_attr_not_unique", detail)
            if exp is not None and any(v != str(exp) for v in vals):
                return ("model_canonical_flag", detail)
        return None
    if mode == "tables":
        t = impl_call("tables", {})
        if t["fwd"] != sorted(list(x) for x in G.FWD_PAIRS) or t["rev"] != sorted(list(x) for x in G.REV_PAIRS):
            return ("canonical_tables", t)
        return None
    if mode == "get_intron_strand":
        p = pair_at(kw["seq"], tuple(kw["intron"]), kw["start"])
        if p is None:
            return None
        got = M.C.get_intron_strand(tuple(kw["intron"]), kw["seq"], kw["start"])
        return None if got == site_strand(p) else ("intron_strand", {"got": got, "expected": site_strand(p), "pair": p})
    return None


# the Lean witnesses of the two repaired defects, replayed on the real code on every run
WITNESSES = [
    ("canon_history", {"seq": "AAAAGTCCCCCCAGTTTT", "start": 1, "queries": [[[[5, 14]], "+"], [[[5, 14]], "-"]]}),
    ("canon_history", {"seq": "AAAAGTCCCCCCAGTTTT", "start": 1, "queries": [[[[5, 14]], "-"], [[[5, 14]], "+"]]}),
    ("canon_history", {"seq": "aaaagtccccccagtttt", "start": 1, "queries": [[[[5, 14]], "+"]]}),
    # read cluster at the first base of a contig (0-based region start 0): the window must not come out empty
    ("model_info", {"chrom": "AAAAGTCCCCCCAGTTTT", "start": 0, "end": 16,
                    "models": [{"exons": [[1, 4], [15, 16]], "strand": "+", "attr": None}]}),
    ("model_info", {"chrom": "AAAAGTCCCCCCAGTTTT", "start": 0, "end": 16, "via": "loader",
                    "models": [{"exons": [[1, 4], [15, 16]], "strand": "+", "attr": None}]}),
    ("canon_history", {"seq": "AAAACTCCCCCCACTTTT", "start": 1, "queries": [[[[5, 14]], "."], [[[5, 14]], "+"], [[[5, 14]], "-"]]}),
    # Props/C18Window gene_span_window_witness: gene annotated at 12..18, a read 1-4,15-18 starting before it; the saved
    # header window does not contain the GT-AG intron (5,14) (before the fix: looked up at wrapped-around positions -> False)
    ("canon_history", {"chrom": "AAAAGTCCCCCCAGTTTT", "start": 12, "end": 18, "via": "loader",
                       "kept": [{"exons": [[1, 4], [15, 18]], "cexons": [[1, 4], [15, 18]]}], "queries": [[[[5, 14]], "+"]]}),
    ("model_info", {"chrom": "AAAAGTCCCCCCAGTTTT", "start": 12, "end": 18, "via": "loader",
                    "kept": [{"exons": [[1, 4], [15, 18]], "cexons": [[1, 4], [15, 18]]}],
                    "models": [{"exons": [[1, 4], [15, 18]], "strand": "+", "attr": None}]}),
    # Props/C18Reflect dot_flag_orig_reflection_witness (audit-2 C11-G3): a GT-AG intron reported on the unknown strand; before the
    # repair '.' was looked up as '-': False here, True on the mirror image (the CT-AC intron of the reverse complement)
    ("canon_history", {"seq": "AAAAGTCCCCCCAGTTTT", "start": 1, "queries": [[[[5, 14]], "."]]}),
    ("canon_history", {"seq": "AAAACTGGGGGGACTTTT", "start": 1, "queries": [[[[5, 14]], "."]]}),
    ("model_info", {"seq": "AAAAGTCCCCCCAGTTTT", "start": 1, "models": [{"exons": [[1, 4], [15, 18]], "strand": ".", "attr": None}]}),
    ("read_fields", {"check": True, "seq": "AAAAGTCCCCCCAGTTTT", "start": 1, "reads": [[[[1, 4], [15, 18]], "."]]}),
    # Props/C18Downstream downstream_window_orig_witness (audit-2 C11-G1): gene region 25..36, read / model 21-40 on a 60-base contig
    ("sqanti_rows", {"chrom": "AAAAAAAAAATTTTTTTTTT" + "C" * 20 + "TTTTTTTTTTAAAAAAAAAA", "start": 25, "end": 36, "via": "loader", "flank": 20,
                     "n": 20, "kept": [{"exons": [[21, 40]], "cexons": [[21, 40]]}], "rows": [[[[21, 40]], "+"], [[[21, 40]], "-"]]}),
    ("sqanti_rows", {"chrom": "AAAAAAAAAATTTTTTTTTT" + "C" * 20 + "TTTTTTTTTTAAAAAAAAAA", "start": 25, "end": 36, "via": "loader", "flank": 20,
                     "n": 20, "kept": [{"exons": [[30, 40]], "cexons": [[30, 40]]}], "rows": [[[[30, 40]], "-"], [[[30, 40]], "."]]}),
    # Props/C18Attr canonical_attr_orig_witness: the reference transcript T already carries a (stale) Canonical "False"; before
    # 'Canonical' entered the skip list of set_gene_attributes the printed line was ... Canonical "True"; exons "2"; Canonical "False";
    ("attr_lines", {"chrom": "AAAAGTCCCCCCAGTTTT", "start": 1, "end": 18, "path": "extended", "check": True, "novel": [],
                    "genes": [{"gene_id": "G", "strand": "+", "attrs": [],
                               "transcripts": [{"id": "T", "exons": [[1, 4], [15, 18]], "attrs": [["Canonical", "False"], ["exons", "2"]]}]}]}),
    ("attr_lines", {"chrom": "AAAAGTCCCCCCAGTTTT", "start": 1, "end": 40, "path": "locus", "check": True, "novel": [],
                    "genes": [{"gene_id": "G", "strand": "+", "attrs": [],
                               "transcripts": [{"id": "T", "exons": [[1, 4], [15, 18]], "attrs": [["Canonical", "False"], ["exons", "2"]]}]}]}),
]


def oracle(ctx, disagreements, broken):
    n = 0
    t_start = ctx.elapsed()
    # 1. the disagreeing inputs
    for d in disagreements:
        op = "detector" if d["op"] == "detector_pyfaidx" else d["op"]
        r = oracle_case(op, d["input"])
        n += 1
        if r:
            ctx.fail(r[0], {"mode": op, "args": d["input"]}, r[1])
    # 2. witnesses of the repaired defects
    for mode, kw in WITNESSES:
        r = oracle_case(mode, kw)
        n += 1
        if r:
            ctx.fail(r[0], {"mode": mode, "args": kw}, r[1])
    # 3. in-process search with the normal generator (independent of the driver)
    rng = random.Random(ctx.seed * 7919 + 1)
    cases = gen_cases(ctx, rng)
    if ctx.tier == "quick" and not broken:
        keep = [c for c in cases if c[0] in ("tables",)] + rng.sample(cases, min(len(cases), 14000))
        cases = keep
    per_kind = {}
    for op, kw in cases:
        if op in ("site_raw", "common_get_strand"):
            continue
        r = oracle_case(op, kw)
        n += 1
        if r:
            per_kind[(r[0], op)] = per_kind.get((r[0], op), 0) + 1
            if per_kind[(r[0], op)] <= 3:        # a few inputs per failure class; the pipeline scenarios still get their turn
                ctx.fail(r[0], {"mode": op, "args": kw}, r[1])
            if len(ctx.failures) > 40:
                break
    ctx.extra["oracle_inprocess_cases"] = n
    if per_kind:
        ctx.extra["oracle_inprocess_failures_per_class"] = {"%s/%s" % k: v for k, v in per_kind.items()}
    # 4. the real pipeline on synthetic genomes with antisense gene pairs sharing introns
    n_runs = 16 if ctx.tier == "quick" else 180
    if broken:
        n_runs *= 2
    tot = {}
    runs = []
    schedule = []
    for i in range(n_runs):
        name, args, genedb = PIPE_CONFIGS[i % len(PIPE_CONFIGS)]
        inp = {"seed": ctx.seed * 1000 + i, "args": args, "genedb": genedb, "threads": 1, "data_type": "nanopore",
               "lower_frac": [0.0, 0.5, 1.0][(i // len(PIPE_CONFIGS) + i) % 3], "hashseed": i % 3, "n_chroms": 2,
               "loci": 4, "config": name}
        inp.update(PIPE_OPTS.get(name, {}))
        schedule.append((name, inp))
    # crafted novel loci for the strand clause (audit-2 G-C18-3): without annotation, and with one + the SQANTI-like table
    for j in range(2 if ctx.tier == "quick" else 24):
        with_db = j % 2 == 1
        schedule.append(("strand_loci" + ("+sqanti" if with_db else "_nogenedb"),
                         {"seed": ctx.seed * 1000 + 700 + j, "dataset": "strand", "genedb": with_db, "prefix": "X1",
                          "args": ["--report_canonical", ["all", "auto", "only_stranded"][(j // 2) % 3]] + (["--sqanti_output"] if with_db else []),
                          "sqanti": with_db, "data_type": "pacbio_ccs" if j % 4 >= 2 else "nanopore", "hashseed": j % 3,
                          "config": "strand_loci"}))
    # the toy data of /repo (simulated ONT reads: indels next to junctions, reads beyond genes)
    for j in range(1 if ctx.tier == "quick" else 3):
        schedule.append(("toy", {"seed": j, "dataset": "toy", "genedb": True, "prefix": "X1", "config": "toy", "threads": 1 + j,
                                 "args": [["--report_canonical", "all", "--sqanti_output"], [], ["--high_memory"]][j],
                                 "sqanti": j == 0}))
    n_before = len(ctx.failures)         # the pipeline scenarios get their turn whatever the in-process search found
    pipe_kinds = {}
    for name, inp in schedule:
        fails, stats = pipeline_case(inp)
        runs.append(name)
        for k, v in stats.items():
            tot[k] = tot.get(k, 0) + v
        for kind, detail in fails:
            pipe_kinds[kind] = pipe_kinds.get(kind, 0) + 1
            if pipe_kinds[kind] <= 3:
                ctx.fail(kind, {"mode": "pipeline", "args": inp}, detail)
        if len(ctx.failures) - n_before > 15:
            break
    if pipe_kinds:
        ctx.extra["oracle_pipeline_failures_per_class"] = pipe_kinds
    # 4b. the reference is itself an IsoQuant output: second run with --genedb = the extended annotation of the first
    # (--check_canonical) run, one reference Canonical value falsified; clause: exactly one Canonical attribute per transcript
    # line and it equals the recomputed value
    rerun_cfg = [c for c in PIPE_CONFIGS if c[2] and c[0] in ("default", "rc_all", "high_memory", "threads2", "pacbio")]
    n_rerun = 3 if ctx.tier == "quick" else 30
    for i in range(n_rerun * (2 if broken else 1)):
        if len(ctx.failures) - n_before > 15:
            break
        name, args, _ = rerun_cfg[i % len(rerun_cfg)]
        inp = {"seed": ctx.seed * 1000 + 500 + i, "args": args, "genedb": True, "threads": 2 if name == "threads2" else 1,
               "data_type": "pacbio_ccs" if name == "pacbio" else "nanopore", "lower_frac": [0.0, 0.5][i % 2], "hashseed": i % 3,
               "n_chroms": 2, "loci": 4, "config": name + "+rerun", "rerun": True}
        fails, stats = pipeline_case(inp)
        runs.append(name + "+rerun")
        for k, v in stats.items():
            tot[k] = tot.get(k, 0) + v
        for kind, detail in fails[:5]:
            ctx.fail(kind, {"mode": "pipeline", "args": inp}, detail)
    ctx.extra["oracle_pipeline"] = {"runs": len(runs), "configs": sorted(set(runs)), "totals": tot}
    ctx.extra["oracle_wall_s"] = round(ctx.elapsed() - t_start, 1)
    # smallest failing input first (it becomes the head of the replay file)
    ctx.failures.sort(key=lambda f: (f["input"].get("mode") == "pipeline", len(json.dumps(f["input"], default=str))))
    # ... one input of every failure class (in-process and pipeline) before the second input of any class
    seen_rank, ranked = {}, []
    for f in ctx.failures:
        k_ = (f["kind"], f["input"].get("mode") == "pipeline")
        seen_rank[k_] = seen_rank.get(k_, 0) + 1
        ranked.append((seen_rank[k_], f))
    ctx.failures[:] = [f for _, f in sorted(ranked, key=lambda x: x[0])]


def replay(ctx, failure):
    inp = failure["input"]
    return oracle_case(inp["mode"], inp["args"]) is not None
